#!/usr/bin/env python3
"""Confirms a seeded mutant independently, in a scratch worktree of /repo (never /repo itself):
  suite passes with the patch; demo fails with the patch; demo passes without it.
usage: confirm_seeded.py <dir-with-patch.diff,demo.rs,meta.json> [...]"""
import json, os, shutil, subprocess, sys, time
VERIF = os.path.dirname(os.path.dirname(os.path.abspath(__file__)))
WT = os.environ.get("CONFIRM_WT", "/tmp/wt-confirm")
def sh(cmd, cwd=None, timeout=1800):
    p = subprocess.run(cmd, shell=True, cwd=cwd, capture_output=True, timeout=timeout)
    return p.returncode, (p.stdout.decode(errors="replace") + p.stderr.decode(errors="replace"))
if not os.path.exists(WT):
    sh(f"git -C /repo worktree add --detach {WT} HEAD")
for d in sys.argv[1:]:
    d = d.rstrip("/")
    mid = os.path.basename(d)
    meta = json.load(open(os.path.join(d, "meta.json")))
    sh("git checkout -q --detach $(git -C /repo rev-parse HEAD) && git checkout -- . && git clean -fdq tera/tests tera-contrib/tests", cwd=WT)
    demo_path = meta.get("demo_path") or f"tera/tests/seeded_demo_{mid.replace('-', '_')}.rs"
    contrib = demo_path.startswith("tera-contrib")
    feat = " --features base64,urlencode,json,slug" if contrib else ""
    pkg = "tera-contrib" if contrib else "tera"
    tname = os.path.splitext(os.path.basename(demo_path))[0]
    res = {"id": mid, "property": meta.get("property")}
    rc, out = sh(f"git apply --check {d}/patch.diff", cwd=WT)
    res["patch_applies"] = rc == 0
    if rc != 0:
        rc3, out3 = sh(f"git apply --3way {d}/patch.diff", cwd=WT)
        res["patch_applies_3way"] = rc3 == 0
        if rc3 != 0:
            res["error"] = out[-400:]
            print(json.dumps(res)); json.dump(res, open(os.path.join(d, "confirm.json"), "w"), indent=1); continue
    else:
        sh(f"git apply {d}/patch.diff", cwd=WT)
    rc, out = sh("cargo test --workspace --offline 2>&1 | grep -E '^test result|FAILED|error(\\[|:)' ", cwd=WT)
    passed = sum(int(x.split(" passed")[0].split()[-1]) for x in out.split("\n") if x.startswith("test result: ok"))
    res["suite_with_patch"] = {"passed": passed, "failed": ("FAILED" in out or "error" in out)}
    os.makedirs(os.path.dirname(os.path.join(WT, demo_path)), exist_ok=True)
    shutil.copy(os.path.join(d, "demo.rs"), os.path.join(WT, demo_path))
    if os.path.exists(os.path.join(d, "harness.diff")):
        # test scaffolding only (e.g. tera-contrib as a dev-dependency of tera for a demo that needs both crates)
        rch, outh = sh(f"git apply {d}/harness.diff", cwd=WT)
        res["harness_applied"] = rch == 0
    rc, out = sh(f"cargo test -p {pkg} --offline{feat} --test {tname} 2>&1 | tail -25", cwd=WT)
    res["demo_with_patch_fails"] = ("test result: FAILED" in out) or ("panicked" in out and "test result: ok" not in out) or ("overflowed its stack" in out) or ("SIGABRT" in out) or ("signal:" in out)
    res["demo_with_patch_tail"] = out[-600:]
    sh(f"git apply -R {d}/patch.diff", cwd=WT)
    rc, out = sh(f"cargo test -p {pkg} --offline{feat} --test {tname} 2>&1 | tail -8", cwd=WT)
    res["demo_without_patch_passes"] = "test result: ok" in out and "FAILED" not in out
    res["confirmed"] = bool(res["suite_with_patch"]["passed"] >= 112 and not res["suite_with_patch"]["failed"] and res["demo_with_patch_fails"] and res["demo_without_patch_passes"])
    sh("git checkout -- . && git clean -fdq tera/tests tera-contrib/tests", cwd=WT)
    json.dump(res, open(os.path.join(d, "confirm.json"), "w"), indent=1)
    print(mid, "confirmed" if res["confirmed"] else "NOT CONFIRMED", res["suite_with_patch"], res["demo_with_patch_fails"], res["demo_without_patch_passes"])
