#!/usr/bin/env python3
"""Evaluation of every seeded change with the registered check, in parallel: each change is applied to a scratch
copy of /repo's working tree (VERIF_REPO), the check of its property is run there - engines V,T,S,F first (seconds),
engine K (minutes) only where those did not already report a violation - and the record replaces every earlier one
in seeded/<id>/detection.json under the key "final".  One worker per property at a time (a property's output
directory is not shared between two runs); K workers have a Kani target directory of their own.
(tools/finaleval.py does the same in /repo itself, one change at a time: git apply, check, git checkout.)
usage: pareval.py [-j N] [-k M] [id ...]"""
import concurrent.futures as cf, glob, json, os, re, shutil, subprocess, sys, threading
VERIF = os.path.dirname(os.path.dirname(os.path.abspath(__file__)))
args = sys.argv[1:]
J, K = 8, 4
while args and args[0] in ("-j", "-k"):
    if args[0] == "-j": J = int(args[1])
    else: K = int(args[1])
    args = args[2:]
ids = args or sorted(os.path.basename(d) for d in glob.glob(os.path.join(VERIF, "seeded", "C*-*")))
byprop = {}
for mid in ids:
    byprop.setdefault(json.load(open(os.path.join(VERIF, "seeded", mid, "meta.json")))["property"], []).append(mid)
lock = threading.Lock()
def run_one(mid, prop, engines, env_extra):
    d = os.path.join(VERIF, "seeded", mid)
    sc = f"/var/tmp/verif-par-{os.getpid()}-{mid}"
    shutil.rmtree(sc, ignore_errors=True)
    subprocess.run(["rsync", "-a", "--exclude", "target", "--exclude", ".git", "/repo/", sc + "/"], check=True)
    try:
        subprocess.run(["patch", "-p1", "-s", "-i", os.path.join(d, "patch.diff")], cwd=sc, check=True, capture_output=True)
        env = dict(os.environ, VERIF_EVAL_RUN="1", VERIF_REPO=sc, **env_extra)
        r = subprocess.run([os.path.join(VERIF, "check"), prop, "--only", engines], capture_output=True, env=env, cwd=VERIF)
    finally:
        shutil.rmtree(sc, ignore_errors=True)
    out = r.stdout.decode()
    viol = re.findall(r"VIOLATION property=\S+ replay=(\S+)( no-failing-input-found)?", out)
    obs = []
    for v, tail in viol:
        try:
            doc = json.load(open(v))
            obs.append({"obligation": doc["obligation"], "engine": doc["engine"], "input_replayed": tail == ""})
        except Exception:
            obs.append({"replay": v})
    und = re.findall(r"UNDECIDED property=\S+ obligation=(\S+) reason=(.{0,160})", out)
    und = [(a, b) for a, b in und if "not generated in this run" not in b]
    return {"engines": engines, "exit": r.returncode, "detected": r.returncode == 1 and bool(viol), "violations": obs, "undecided": [{"obligation": a, "reason": b} for a, b in und][:6], "summary": (out.strip().split("\n") or [""])[-1]}
res1 = {}
def phase1(prop):
    for mid in byprop[prop]:
        r = run_one(mid, prop, "V,T,S,F", {})
        with lock:
            res1[mid] = r
            print(f"1 {mid:8s} {'DETECTED' if r['detected'] else ('undecided' if r['exit'] == 2 else 'quiet')} {[o.get('obligation') for o in r['violations']]}", flush=True)
with cf.ThreadPoolExecutor(J) as ex:
    list(ex.map(phase1, sorted(byprop)))
todo = {}
for mid, r in res1.items():
    if not r["detected"]:
        todo.setdefault(json.load(open(os.path.join(VERIF, "seeded", mid, "meta.json")))["property"], []).append(mid)
res2 = {}
# K workers: properties dealt out so that the loads are even
loads = [[] for _ in range(K)]
for prop in sorted(todo, key=lambda p: -len(todo[p])):
    min(loads, key=lambda l: sum(len(todo[p]) for p in l)).append(prop)
def phase2(k):
    tdir = f"/var/tmp/verif-kt{k}"
    if not os.path.isdir(tdir):
        os.makedirs(tdir, exist_ok=True)
        for crate in ("kani-target-tera", "kani-target-tera-contrib"):
            subprocess.run(["cp", "-a", os.path.join(VERIF, "build", crate), tdir + "/"], check=True)
    for prop in loads[k]:
        for mid in todo[prop]:
            r = run_one(mid, prop, "K", {"VERIF_KANI_TARGET": tdir, "VERIF_KANI_JOBS": "5"})
            with lock:
                res2[mid] = r
                print(f"2 {mid:8s} {'DETECTED' if r['detected'] else ('undecided' if r['exit'] == 2 else 'quiet')} {[o.get('obligation') for o in r['violations']]}", flush=True)
with cf.ThreadPoolExecutor(K) as ex:
    list(ex.map(phase2, range(K)))
for mid, r in res1.items():
    k = res2.get(mid)
    if k is not None:
        und = r["undecided"] + [u for u in k["undecided"] if "vacuity guard" not in u["reason"]]
        r = {"engines": "V,T,S,F then K", "exit": 1 if k["detected"] else (2 if und else 0), "detected": k["detected"], "violations": k["violations"], "undecided": und, "summary": r["summary"] + " | " + k["summary"]}
    r["mode"] = "scratch copy of /repo with the patch applied (VERIF_REPO), the registered check"
    p = os.path.join(VERIF, "seeded", mid, "detection.json")
    json.dump({"final": r}, open(p, "w"), indent=1)
    print(f"= {mid:8s} {'DETECTED' if r['detected'] else ('undecided' if r['exit'] == 2 else 'missed')} {[o.get('obligation') for o in r['violations']]} {[u['obligation'] for u in r['undecided']][:3]}", flush=True)
