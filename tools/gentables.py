#!/usr/bin/env python3
"""Regenerates the machine-made tables of DESIGN.md (between <!-- BEGIN:x --> / <!-- END:x --> markers)
from contracts/baseline.json, seeded/*/{meta,confirm,detection}.json and selftest/mutants.toml."""
import glob, json, os, re, tomllib
V = os.path.dirname(os.path.dirname(os.path.abspath(__file__)))
bl = json.load(open(os.path.join(V, "contracts", "baseline.json")))
props = {}
for ob, b in bl["obligations"].items():
    for p in b.get("props", []):
        props.setdefault(p, []).append((ob, b))
t1 = ["| property | obligations discharged on the pristine tree | by engine | bounded (not counted as proved) |", "|---|---|---|---|"]
for p in sorted(props):
    obs = props[p]
    proved = [o for o in obs if o[1]["status"] == "verified"]
    bounded = [o for o in obs if o[1]["status"] == "bounded-verified"]
    eng = {}
    for o in proved:
        eng[o[1]["engine"]] = eng.get(o[1]["engine"], 0) + 1
    t1.append(f"| {p} | {len(proved)} | " + ", ".join(f"{k}: {v}" for k, v in sorted(eng.items())) + f" | {len(bounded)} |")
t2 = ["| id | property | what the change does (sub-agent's summary) | confirmed | result of `./check` on the changed tree | obligation that fails |", "|---|---|---|---|---|---|"]
for d in sorted(glob.glob(os.path.join(V, "seeded", "C*-*"))):
    mid = os.path.basename(d)
    meta = json.load(open(os.path.join(d, "meta.json")))
    conf = json.load(open(os.path.join(d, "confirm.json"))) if os.path.exists(os.path.join(d, "confirm.json")) else {}
    det = json.load(open(os.path.join(d, "detection.json"))) if os.path.exists(os.path.join(d, "detection.json")) else {}
    best = det.get("final")
    for k, v in ({} if best else det).items():
        if best is None or v.get("detected") or (best.get("exit") == 0 and v.get("exit") == 2):
            if not (best and best.get("detected")):
                best = v
    if best is None:
        res, ob = "not run", ""
    elif best.get("detected"):
        res = "VIOLATION (exit 1)" + ("" if not any(o.get("input_replayed") for o in best["violations"]) else ", input replayed natively")
        ob = ", ".join(sorted({o.get("obligation", "?") for o in best["violations"]}))[:120]
    elif best.get("exit") == 2:
        res = "undecided (exit 2)"
        ob = "; ".join(u["obligation"] + ": " + u["reason"][:60] for u in best.get("undecided", [])[:1])
    else:
        res, ob = "missed (exit 0)", ""
    summ = (meta.get("summary") or "")[:150].replace("|", "\\|").replace("\n", " ")
    t2.append(f"| {mid} | {meta.get('property')} | {summ} | {'yes' if conf.get('confirmed') else 'NO'} | {res} | {ob} |")
ms = tomllib.load(open(os.path.join(V, "selftest", "mutants.toml"), "rb"))["m"]
t3 = ["| name | kind | property | expected |", "|---|---|---|---|"]
for m in ms:
    if m.get("skip"):
        continue
    t3.append(f"| {m['name']} | {m['kind']} | {m['prop']} | {m.get('expect', 'no VIOLATION')} |")
tables = {"obligations": "\n".join(t1), "seeded": "\n".join(t2), "selftest": "\n".join(t3)}
p = os.path.join(V, "DESIGN.md")
s = open(p).read()
for k, v in tables.items():
    s = re.sub(rf"<!-- BEGIN:{k} -->.*?<!-- END:{k} -->", f"<!-- BEGIN:{k} -->\n{v}\n<!-- END:{k} -->", s, flags=re.S)
open(p, "w").write(s)
print("tables regenerated:", {k: v.count(chr(10)) - 1 for k, v in tables.items()})
