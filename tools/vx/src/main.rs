//! vx — source indexer for the verification machinery.
//!
//! `vx index <file.rs>` parses a Rust source file with syn and prints, as JSON, the byte ranges
//! of every item and of the syntactic anchors inside every function (loops, closures, macro
//! invocations, `?` sites, method calls, match arms, returns, let-chains, literals, attributes).
//! It never rewrites anything: all splicing is done by the driver from these offsets, on the
//! original text.
//!
//! `vx calls <file.rs>` prints the call edges between functions of the same file (engine T).

use proc_macro2::Span;
use std::fmt::Write as _;
use syn::spanned::Spanned;
use syn::visit::{self, Visit};

fn esc(s: &str) -> String {
    let mut o = String::with_capacity(s.len() + 2);
    o.push('"');
    for c in s.chars() {
        match c {
            '"' => o.push_str("\\\""),
            '\\' => o.push_str("\\\\"),
            '\n' => o.push_str("\\n"),
            '\r' => o.push_str("\\r"),
            '\t' => o.push_str("\\t"),
            c if (c as u32) < 0x20 => {
                let _ = write!(o, "\\u{:04x}", c as u32);
            }
            c => o.push(c),
        }
    }
    o.push('"');
    o
}

#[derive(Clone, Copy, Debug, PartialEq)]
struct R(usize, usize);

fn r(sp: Span) -> R {
    let br = sp.byte_range();
    R(br.start, br.end)
}

fn rj(x: R) -> String {
    format!("[{},{}]", x.0, x.1)
}

fn toks<T: quote::ToTokens>(t: &T) -> String {
    let s = t.to_token_stream().to_string();
    s.replace(' ', "")
}

fn ty_name(t: &syn::Type) -> String {
    match t {
        syn::Type::Path(p) => p
            .path
            .segments
            .last()
            .map(|s| s.ident.to_string())
            .unwrap_or_default(),
        syn::Type::Reference(rf) => format!("&{}", ty_name(&rf.elem)),
        other => toks(other),
    }
}

struct Node {
    kind: &'static str,
    range: R,
    parent: i64,
    fields: Vec<(String, String)>, // already-JSON values
}

struct Item {
    kind: &'static str,
    path: String,
    range: R,      // whole item incl. attributes
    start_no_attrs: usize,
    fields: Vec<(String, String)>,
    nodes: Vec<Node>,
}

struct Indexer {
    items: Vec<Item>,
    path: Vec<String>,
    fn_stack: Vec<usize>,
    node_stack: Vec<i64>,
    attrs: Vec<R>,
    calls: Vec<(String, String, R)>,
}

fn after_attrs(attrs: &[syn::Attribute], whole: R) -> usize {
    let mut s = whole.0;
    for a in attrs {
        let ar = r(a.span());
        if ar.1 > s && ar.0 <= s + 0 {
            s = ar.1;
        } else if ar.0 >= s && ar.1 > s {
            // attributes come first in order
            s = ar.1;
        }
    }
    s
}

impl Indexer {
    fn cur_path(&self, name: &str) -> String {
        let mut p = self.path.join("::");
        if !p.is_empty() {
            p.push_str("::");
        }
        p.push_str(name);
        p
    }

    fn add_node(&mut self, kind: &'static str, range: R, fields: Vec<(String, String)>) -> i64 {
        if let Some(&fi) = self.fn_stack.last() {
            let parent = *self.node_stack.last().unwrap_or(&-1);
            let nodes = &mut self.items[fi].nodes;
            nodes.push(Node { kind, range, parent, fields });
            (nodes.len() - 1) as i64
        } else {
            -1
        }
    }

    fn simple_item(&mut self, kind: &'static str, name: &str, attrs: &[syn::Attribute], whole: Span, extra: Vec<(String, String)>) {
        let range = r(whole);
        let path = self.cur_path(name);
        self.items.push(Item {
            kind,
            path,
            range,
            start_no_attrs: after_attrs(attrs, range),
            fields: extra,
            nodes: vec![],
        });
    }

    fn do_fn(&mut self, attrs: &[syn::Attribute], vis: Option<&syn::Visibility>, sig: &syn::Signature, block: Option<&syn::Block>, whole: Span) {
        let range = r(whole);
        let name = sig.ident.to_string();
        let path = self.cur_path(&name);
        let mut f: Vec<(String, String)> = vec![];
        f.push(("name".into(), esc(&name)));
        f.push(("ident".into(), rj(r(sig.ident.span()))));
        f.push(("sig".into(), rj(r(sig.span()))));
        if let Some(v) = vis {
            let vr = r(v.span());
            if vr.1 > vr.0 {
                f.push(("vis".into(), rj(vr)));
            }
        }
        match &sig.output {
            syn::ReturnType::Default => {}
            syn::ReturnType::Type(_, t) => {
                f.push(("ret".into(), rj(r(t.span()))));
            }
        }
        f.push(("paren".into(), rj(r(sig.paren_token.span.join()))));
        let mut ins = String::from("[");
        for (i, a) in sig.inputs.iter().enumerate() {
            if i > 0 {
                ins.push(',');
            }
            match a {
                syn::FnArg::Receiver(rc) => {
                    let _ = write!(ins, "{{\"self\":true,\"range\":{},\"text\":{}}}", rj(r(rc.span())), esc(&toks(rc)));
                }
                syn::FnArg::Typed(pt) => {
                    let _ = write!(
                        ins,
                        "{{\"self\":false,\"range\":{},\"pat\":{},\"pat_range\":{},\"ty\":{}}}",
                        rj(r(pt.span())),
                        esc(&toks(&pt.pat)),
                        rj(r(pt.pat.span())),
                        rj(r(pt.ty.span()))
                    );
                }
            }
        }
        ins.push(']');
        f.push(("inputs".into(), ins));
        if let Some(g) = sig.generics.lt_token {
            let _ = g;
            f.push(("generics".into(), rj(r(sig.generics.span()))));
        }
        if let Some(w) = &sig.generics.where_clause {
            f.push(("where".into(), rj(r(w.span()))));
        }
        if let Some(b) = block {
            let br = r(b.brace_token.span.join());
            f.push(("block".into(), rj(br)));
            let st: Vec<String> = b.stmts.iter().map(|s| rj(r(s.span()))).collect();
            f.push(("stmts".into(), format!("[{}]", st.join(","))));
        }
        self.items.push(Item {
            kind: "fn",
            path,
            range,
            start_no_attrs: after_attrs(attrs, range),
            fields: f,
            nodes: vec![],
        });
        let idx = self.items.len() - 1;
        for a in attrs {
            self.attrs.push(r(a.span()));
        }
        if let Some(b) = block {
            self.path.push(name);
            self.fn_stack.push(idx);
            self.node_stack.push(-1);
            visit::visit_block(self, b);
            self.node_stack.pop();
            self.fn_stack.pop();
            self.path.pop();
        }
    }

    fn cur_fn_path(&self) -> Option<String> {
        self.fn_stack.last().map(|&i| self.items[i].path.clone())
    }
}

fn chain_operands<'a>(e: &'a syn::Expr, out: &mut Vec<&'a syn::Expr>) {
    if let syn::Expr::Binary(b) = e {
        if matches!(b.op, syn::BinOp::And(_)) {
            chain_operands(&b.left, out);
            chain_operands(&b.right, out);
            return;
        }
    }
    out.push(e);
}

impl<'ast> Visit<'ast> for Indexer {
    fn visit_attribute(&mut self, a: &'ast syn::Attribute) {
        self.attrs.push(r(a.span()));
    }

    fn visit_item_mod(&mut self, m: &'ast syn::ItemMod) {
        let name = m.ident.to_string();
        let mut extra = vec![];
        if let Some((b, _)) = &m.content {
            extra.push(("block".to_string(), rj(r(b.span.join()))));
        }
        self.simple_item("mod", &name, &m.attrs, m.span(), extra);
        for a in &m.attrs {
            self.attrs.push(r(a.span()));
        }
        self.path.push(name);
        if let Some((_, items)) = &m.content {
            for it in items {
                self.visit_item(it);
            }
        }
        self.path.pop();
    }

    fn visit_item_impl(&mut self, im: &'ast syn::ItemImpl) {
        let selfname = ty_name(&im.self_ty);
        let prefix = match &im.trait_ {
            Some((_, p, _)) => {
                let last = p.segments.last().map(|s| toks(s)).unwrap_or_default();
                format!("<{} as {}>", selfname, last)
            }
            None => selfname,
        };
        let extra = vec![
            ("block".to_string(), rj(r(im.brace_token.span.join()))),
            ("self_ty".to_string(), esc(&toks(&im.self_ty))),
        ];
        self.simple_item("impl", &prefix, &im.attrs, im.span(), extra);
        for a in &im.attrs {
            self.attrs.push(r(a.span()));
        }
        self.path.push(prefix);
        for it in &im.items {
            self.visit_impl_item(it);
        }
        self.path.pop();
    }

    fn visit_item_trait(&mut self, t: &'ast syn::ItemTrait) {
        let name = t.ident.to_string();
        self.simple_item("trait", &name, &t.attrs, t.span(), vec![]);
        self.path.push(name);
        for it in &t.items {
            self.visit_trait_item(it);
        }
        self.path.pop();
    }

    fn visit_item_fn(&mut self, f: &'ast syn::ItemFn) {
        self.do_fn(&f.attrs, Some(&f.vis), &f.sig, Some(&f.block), f.span());
    }
    fn visit_impl_item_fn(&mut self, f: &'ast syn::ImplItemFn) {
        self.do_fn(&f.attrs, Some(&f.vis), &f.sig, Some(&f.block), f.span());
    }
    fn visit_trait_item_fn(&mut self, f: &'ast syn::TraitItemFn) {
        self.do_fn(&f.attrs, None, &f.sig, f.default.as_ref(), f.span());
    }

    fn visit_item_struct(&mut self, s: &'ast syn::ItemStruct) {
        let mut fields = String::from("[");
        for (i, fd) in s.fields.iter().enumerate() {
            if i > 0 {
                fields.push(',');
            }
            let nm = fd.ident.as_ref().map(|x| x.to_string()).unwrap_or_else(|| i.to_string());
            let vis = r(fd.vis.span());
            let _ = write!(
                fields,
                "{{\"name\":{},\"range\":{},\"ty\":{},\"ty_text\":{},\"vis\":{}}}",
                esc(&nm),
                rj(r(fd.span())),
                rj(r(fd.ty.span())),
                esc(&toks(&fd.ty)),
                rj(vis)
            );
        }
        fields.push(']');
        let mut extra = vec![("fields".to_string(), fields), ("ident".to_string(), rj(r(s.ident.span())))];
        let vr = r(s.vis.span());
        if vr.1 > vr.0 {
            extra.push(("vis".into(), rj(vr)));
        }
        self.simple_item("struct", &s.ident.to_string(), &s.attrs, s.span(), extra);
        visit::visit_item_struct(self, s);
    }
    fn visit_item_enum(&mut self, s: &'ast syn::ItemEnum) {
        let mut extra = vec![("ident".to_string(), rj(r(s.ident.span())))];
        let vr = r(s.vis.span());
        if vr.1 > vr.0 {
            extra.push(("vis".into(), rj(vr)));
        }
        let mut vs = String::from("[");
        for (i, v) in s.variants.iter().enumerate() {
            if i > 0 {
                vs.push(',');
            }
            let _ = write!(vs, "{{\"name\":{},\"range\":{}}}", esc(&v.ident.to_string()), rj(r(v.span())));
        }
        vs.push(']');
        extra.push(("variants".into(), vs));
        self.simple_item("enum", &s.ident.to_string(), &s.attrs, s.span(), extra);
        visit::visit_item_enum(self, s);
    }
    fn visit_item_type(&mut self, s: &'ast syn::ItemType) {
        let mut extra = vec![];
        let vr = r(s.vis.span());
        if vr.1 > vr.0 {
            extra.push(("vis".into(), rj(vr)));
        }
        self.simple_item("type", &s.ident.to_string(), &s.attrs, s.span(), extra);
        visit::visit_item_type(self, s);
    }
    fn visit_item_const(&mut self, s: &'ast syn::ItemConst) {
        let mut extra = vec![("ty".to_string(), rj(r(s.ty.span()))), ("expr".to_string(), rj(r(s.expr.span())))];
        let vr = r(s.vis.span());
        if vr.1 > vr.0 {
            extra.push(("vis".into(), rj(vr)));
        }
        self.simple_item("const", &s.ident.to_string(), &s.attrs, s.span(), extra);
        for a in &s.attrs {
            self.attrs.push(r(a.span()));
        }
    }
    fn visit_impl_item_const(&mut self, s: &'ast syn::ImplItemConst) {
        let mut extra = vec![("ty".to_string(), rj(r(s.ty.span()))), ("expr".to_string(), rj(r(s.expr.span())))];
        let vr = r(s.vis.span());
        if vr.1 > vr.0 {
            extra.push(("vis".into(), rj(vr)));
        }
        self.simple_item("const", &s.ident.to_string(), &s.attrs, s.span(), extra);
        for a in &s.attrs {
            self.attrs.push(r(a.span()));
        }
    }
    fn visit_item_static(&mut self, s: &'ast syn::ItemStatic) {
        let mut extra = vec![
            ("ty".to_string(), rj(r(s.ty.span()))),
            ("expr".to_string(), rj(r(s.expr.span()))),
            ("static_tok".to_string(), rj(r(s.static_token.span()))),
        ];
        let vr = r(s.vis.span());
        if vr.1 > vr.0 {
            extra.push(("vis".into(), rj(vr)));
        }
        self.simple_item("static", &s.ident.to_string(), &s.attrs, s.span(), extra);
        for a in &s.attrs {
            self.attrs.push(r(a.span()));
        }
    }
    fn visit_item_macro(&mut self, m: &'ast syn::ItemMacro) {
        let name = m.ident.as_ref().map(|i| i.to_string()).unwrap_or_else(|| toks(&m.mac.path));
        let extra = vec![
            ("mac".to_string(), esc(&toks(&m.mac.path))),
            ("tokens".to_string(), esc(&m.mac.tokens.to_string())),
        ];
        self.simple_item("macro", &name, &m.attrs, m.span(), extra);
    }

    fn visit_arm(&mut self, a: &'ast syn::Arm) {
        let mut f = vec![
            ("pat".to_string(), rj(r(a.pat.span()))),
            ("pat_text".to_string(), esc(&toks(&a.pat))),
            ("body".to_string(), rj(r(a.body.span()))),
            ("body_is_block".to_string(), matches!(&*a.body, syn::Expr::Block(_)).to_string()),
            ("has_comma".to_string(), a.comma.is_some().to_string()),
        ];
        if let Some((_, g)) = &a.guard {
            f.push(("guard".into(), rj(r(g.span()))));
        }
        if let syn::Pat::Or(po) = &a.pat {
            let mut cs = String::from("[");
            for (i, c) in po.cases.iter().enumerate() {
                if i > 0 {
                    cs.push(',');
                }
                cs.push_str(&rj(r(c.span())));
            }
            cs.push(']');
            f.push(("or_cases".into(), cs));
        }
        let id = self.add_node("arm", r(a.span()), f);
        self.node_stack.push(id);
        visit::visit_arm(self, a);
        self.node_stack.pop();
    }

    fn visit_local(&mut self, l: &'ast syn::Local) {
        let mut f = vec![("pat".to_string(), rj(r(l.pat.span()))), ("pat_text".to_string(), esc(&toks(&l.pat)))];
        if let Some(init) = &l.init {
            f.push(("init".into(), rj(r(init.expr.span()))));
            if let Some((_, d)) = &init.diverge {
                f.push(("else".into(), rj(r(d.span()))));
            }
        }
        let id = self.add_node("let", r(l.span()), f);
        self.node_stack.push(id);
        visit::visit_local(self, l);
        self.node_stack.pop();
    }

    // every `{ ... }` (function bodies, then / else blocks, loop bodies, arm blocks): the ranges of its statements,
    // so that a region can be "the statements of this block from the one that mentions X on"
    fn visit_block(&mut self, b: &'ast syn::Block) {
        let st: Vec<String> = b.stmts.iter().map(|s| rj(r(s.span()))).collect();
        let f = vec![("stmts".to_string(), format!("[{}]", st.join(",")))];
        self.add_node("stmts_block", r(b.brace_token.span.join()), f);
        visit::visit_block(self, b);
    }

    fn visit_stmt_macro(&mut self, m: &'ast syn::StmtMacro) {
        let f = vec![
            ("name".to_string(), esc(&toks(&m.mac.path))),
            ("tokens".to_string(), esc(&m.mac.tokens.to_string())),
            ("stmt".to_string(), "true".to_string()),
            ("semi".to_string(), m.semi_token.is_some().to_string()),
            ("mac".to_string(), rj(r(m.mac.span()))),
        ];
        self.add_node("macro", r(m.span()), f);
        visit::visit_stmt_macro(self, m);
    }

    fn visit_item(&mut self, it: &'ast syn::Item) {
        visit::visit_item(self, it);
    }

    fn visit_expr(&mut self, e: &'ast syn::Expr) {
        use syn::Expr::*;
        let range = r(e.span());
        let mut pushed = false;
        match e {
            ForLoop(x) => {
                let f = vec![
                    ("loop_kind".to_string(), esc("for")),
                    ("body".to_string(), rj(r(x.body.brace_token.span.join()))),
                    ("pat".to_string(), rj(r(x.pat.span()))),
                    ("pat_text".to_string(), esc(&toks(&x.pat))),
                    ("expr".to_string(), rj(r(x.expr.span()))),
                    ("expr_text".to_string(), esc(&toks(&x.expr))),
                    ("label".to_string(), x.label.as_ref().map(|l| esc(&toks(l))).unwrap_or("null".into())),
                ];
                let id = self.add_node("loop", range, f);
                self.node_stack.push(id);
                pushed = true;
            }
            While(x) => {
                let f = vec![
                    ("loop_kind".to_string(), esc("while")),
                    ("body".to_string(), rj(r(x.body.brace_token.span.join()))),
                    ("cond".to_string(), rj(r(x.cond.span()))),
                    ("label".to_string(), x.label.as_ref().map(|l| esc(&toks(l))).unwrap_or("null".into())),
                ];
                let id = self.add_node("loop", range, f);
                self.node_stack.push(id);
                pushed = true;
            }
            Loop(x) => {
                let f = vec![
                    ("loop_kind".to_string(), esc("loop")),
                    ("body".to_string(), rj(r(x.body.brace_token.span.join()))),
                    ("label".to_string(), x.label.as_ref().map(|l| esc(&toks(l))).unwrap_or("null".into())),
                ];
                let id = self.add_node("loop", range, f);
                self.node_stack.push(id);
                pushed = true;
            }
            Closure(x) => {
                let mut f = vec![
                    ("body".to_string(), rj(r(x.body.span()))),
                    ("body_is_block".to_string(), matches!(&*x.body, Block(_)).to_string()),
                    ("or2".to_string(), rj(r(x.or2_token.span()))),
                    ("or1".to_string(), rj(r(x.or1_token.span()))),
                    ("is_move".to_string(), x.capture.is_some().to_string()),
                ];
                if let syn::ReturnType::Type(_, t) = &x.output {
                    f.push(("ret".into(), rj(r(t.span()))));
                }
                let mut ins = String::from("[");
                for (i, p) in x.inputs.iter().enumerate() {
                    if i > 0 {
                        ins.push(',');
                    }
                    let typed = matches!(p, syn::Pat::Type(_));
                    let _ = write!(ins, "{{\"range\":{},\"text\":{},\"typed\":{}}}", rj(r(p.span())), esc(&toks(p)), typed);
                }
                ins.push(']');
                f.push(("inputs".into(), ins));
                let id = self.add_node("closure", range, f);
                self.node_stack.push(id);
                pushed = true;
            }
            Macro(x) => {
                let f = vec![
                    ("name".to_string(), esc(&toks(&x.mac.path))),
                    ("tokens".to_string(), esc(&x.mac.tokens.to_string())),
                    ("stmt".to_string(), "false".to_string()),
                ];
                self.add_node("macro", range, f);
            }
            Try(x) => {
                let f = vec![
                    ("inner".to_string(), rj(r(x.expr.span()))),
                    ("q".to_string(), rj(r(x.question_token.span()))),
                ];
                let id = self.add_node("try", range, f);
                self.node_stack.push(id);
                pushed = true;
            }
            MethodCall(x) => {
                let mut args = String::from("[");
                for (i, a) in x.args.iter().enumerate() {
                    if i > 0 {
                        args.push(',');
                    }
                    let is_path = matches!(a, Path(_));
                    let _ = write!(args, "{{\"range\":{},\"is_path\":{},\"text\":{}}}", rj(r(a.span())), is_path, esc(&toks(a)));
                }
                args.push(']');
                let f = vec![
                    ("method".to_string(), esc(&x.method.to_string())),
                    ("method_ident".to_string(), rj(r(x.method.span()))),
                    ("receiver".to_string(), rj(r(x.receiver.span()))),
                    ("receiver_text".to_string(), esc(&toks(&x.receiver))),
                    ("dot".to_string(), rj(r(x.dot_token.span()))),
                    ("paren".to_string(), rj(r(x.paren_token.span.join()))),
                    ("args".to_string(), args),
                    ("turbofish".to_string(), x.turbofish.is_some().to_string()),
                ];
                let id = self.add_node("methodcall", range, f);
                if let Some(fp) = self.cur_fn_path() {
                    self.calls.push((fp, format!(".{}", x.method), range));
                }
                self.node_stack.push(id);
                pushed = true;
            }
            Call(x) => {
                let mut args = String::from("[");
                for (i, a) in x.args.iter().enumerate() {
                    if i > 0 {
                        args.push(',');
                    }
                    let _ = write!(args, "{{\"range\":{},\"text\":{}}}", rj(r(a.span())), esc(&toks(a)));
                }
                args.push(']');
                let f = vec![
                    ("func".to_string(), esc(&toks(&x.func))),
                    ("func_range".to_string(), rj(r(x.func.span()))),
                    ("paren".to_string(), rj(r(x.paren_token.span.join()))),
                    ("args".to_string(), args),
                ];
                let id = self.add_node("call", range, f);
                if let Some(fp) = self.cur_fn_path() {
                    self.calls.push((fp, toks(&x.func), range));
                }
                self.node_stack.push(id);
                pushed = true;
            }
            If(x) => {
                let mut f = vec![
                    ("cond".to_string(), rj(r(x.cond.span()))),
                    ("then".to_string(), rj(r(x.then_branch.brace_token.span.join()))),
                    ("if_tok".to_string(), rj(r(x.if_token.span()))),
                ];
                if let Some((_, eb)) = &x.else_branch {
                    f.push(("else".into(), rj(r(eb.span()))));
                }
                let mut ops = vec![];
                chain_operands(&x.cond, &mut ops);
                let has_let = ops.iter().any(|o| matches!(o, Let(_)));
                if has_let {
                    let mut cs = String::from("[");
                    for (i, o) in ops.iter().enumerate() {
                        if i > 0 {
                            cs.push(',');
                        }
                        let _ = write!(cs, "{{\"range\":{},\"is_let\":{}}}", rj(r(o.span())), matches!(o, Let(_)));
                    }
                    cs.push(']');
                    f.push(("chain".into(), cs));
                }
                let id = self.add_node("if", range, f);
                self.node_stack.push(id);
                pushed = true;
            }
            Match(x) => {
                let f = vec![
                    ("scrutinee".to_string(), rj(r(x.expr.span()))),
                    ("scrutinee_text".to_string(), esc(&toks(&x.expr))),
                    ("brace".to_string(), rj(r(x.brace_token.span.join()))),
                ];
                let id = self.add_node("match", range, f);
                self.node_stack.push(id);
                pushed = true;
            }
            Return(x) => {
                let mut f = vec![];
                if let Some(v) = &x.expr {
                    f.push(("value".to_string(), rj(r(v.span()))));
                }
                self.add_node("return", range, f);
            }
            Break(_) => {
                self.add_node("break", range, vec![]);
            }
            Continue(_) => {
                self.add_node("continue", range, vec![]);
            }
            Binary(x) => {
                let f = vec![
                    ("op".to_string(), esc(&toks(&x.op))),
                    ("op_range".to_string(), rj(r(x.op.span()))),
                    ("left".to_string(), rj(r(x.left.span()))),
                    ("right".to_string(), rj(r(x.right.span()))),
                ];
                self.add_node("binary", range, f);
            }
            Unary(x) => {
                let f = vec![
                    ("op".to_string(), esc(&toks(&x.op))),
                    ("operand".to_string(), rj(r(x.expr.span()))),
                ];
                self.add_node("unary", range, f);
            }
            Cast(x) => {
                let f = vec![
                    ("expr".to_string(), rj(r(x.expr.span()))),
                    ("ty".to_string(), esc(&toks(&x.ty))),
                ];
                self.add_node("cast", range, f);
            }
            Unsafe(x) => {
                let f = vec![("block".to_string(), rj(r(x.block.brace_token.span.join())))];
                self.add_node("unsafe", range, f);
            }
            Lit(x) => {
                if let syn::Lit::ByteStr(b) = &x.lit {
                    let v = b.value();
                    let mut s = String::from("[");
                    for (i, c) in v.iter().enumerate() {
                        if i > 0 {
                            s.push(',');
                        }
                        let _ = write!(s, "{}", c);
                    }
                    s.push(']');
                    self.add_node("bytestr", range, vec![("bytes".to_string(), s)]);
                }
            }
            Index(x) => {
                let f = vec![
                    ("expr".to_string(), rj(r(x.expr.span()))),
                    ("index".to_string(), rj(r(x.index.span()))),
                ];
                self.add_node("index", range, f);
            }
            Assign(x) => {
                let f = vec![
                    ("left".to_string(), rj(r(x.left.span()))),
                    ("left_text".to_string(), esc(&toks(&x.left))),
                    ("right".to_string(), rj(r(x.right.span()))),
                ];
                self.add_node("assign", range, f);
            }
            Block(x) => {
                let f = vec![("brace".to_string(), rj(r(x.block.brace_token.span.join())))];
                let id = self.add_node("block", range, f);
                self.node_stack.push(id);
                pushed = true;
            }
            Reference(x) => {
                let f = vec![
                    ("mutable".to_string(), x.mutability.is_some().to_string()),
                    ("expr".to_string(), rj(r(x.expr.span()))),
                ];
                self.add_node("ref", range, f);
            }
            Range(_) => {
                self.add_node("range", range, vec![]);
            }
            _ => {}
        }
        visit::visit_expr(self, e);
        if pushed {
            self.node_stack.pop();
        }
    }
}

fn main() {
    let args: Vec<String> = std::env::args().collect();
    if args.len() < 3 {
        eprintln!("usage: vx index|calls <file.rs>");
        std::process::exit(2);
    }
    let src = match std::fs::read_to_string(&args[2]) {
        Ok(s) => s,
        Err(e) => {
            eprintln!("vx: cannot read {}: {e}", args[2]);
            std::process::exit(2);
        }
    };
    let file = match syn::parse_file(&src) {
        Ok(f) => f,
        Err(e) => {
            let sp = e.span().start();
            eprintln!("vx: parse error in {} at {}:{}: {e}", args[2], sp.line, sp.column);
            std::process::exit(3);
        }
    };
    let mut ix = Indexer { items: vec![], path: vec![], fn_stack: vec![], node_stack: vec![], attrs: vec![], calls: vec![] };
    ix.visit_file(&file);

    let mut out = String::new();
    match args[1].as_str() {
        "index" => {
            let _ = write!(out, "{{\"file\":{},\"len\":{},\"attrs\":[", esc(&args[2]), src.len());
            let mut at = ix.attrs.clone();
            at.sort_by_key(|x| (x.0, x.1));
            at.dedup_by_key(|x| (x.0, x.1));
            for (i, a) in at.iter().enumerate() {
                if i > 0 {
                    out.push(',');
                }
                out.push_str(&rj(*a));
            }
            out.push_str("],\"items\":[");
            for (i, it) in ix.items.iter().enumerate() {
                if i > 0 {
                    out.push(',');
                }
                let _ = write!(
                    out,
                    "{{\"kind\":{},\"path\":{},\"range\":{},\"start\":{}",
                    esc(it.kind),
                    esc(&it.path),
                    rj(it.range),
                    it.start_no_attrs
                );
                for (k, v) in &it.fields {
                    let _ = write!(out, ",{}:{}", esc(k), v);
                }
                out.push_str(",\"nodes\":[");
                for (j, n) in it.nodes.iter().enumerate() {
                    if j > 0 {
                        out.push(',');
                    }
                    let _ = write!(out, "{{\"id\":{},\"kind\":{},\"range\":{},\"parent\":{}", j, esc(n.kind), rj(n.range), n.parent);
                    for (k, v) in &n.fields {
                        let _ = write!(out, ",{}:{}", esc(k), v);
                    }
                    out.push('}');
                }
                out.push_str("]}");
            }
            out.push_str("]}");
        }
        "calls" => {
            out.push('[');
            for (i, (f, g, rg)) in ix.calls.iter().enumerate() {
                if i > 0 {
                    out.push(',');
                }
                let _ = write!(out, "{{\"from\":{},\"to\":{},\"range\":{}}}", esc(f), esc(g), rj(*rg));
            }
            out.push(']');
        }
        _ => {
            eprintln!("unknown subcommand");
            std::process::exit(2);
        }
    }
    println!("{out}");
}
