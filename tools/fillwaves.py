#!/usr/bin/env python3
"""Fills the WAVEn_AFTER cells of DESIGN.md 0.6 from seeded/*/detection.json ("final" records)."""
import glob, json, os, re
V = os.path.dirname(os.path.dirname(os.path.abspath(__file__)))
first_ten = {"C01", "C02", "C03", "C04", "C05", "C07", "C08", "C11", "C12", "C17"}
def wave(mid):
    p, k = mid.split("-"); k = int(k)
    if k <= 2: return 1
    if k <= 4: return 2 if p in first_ten else 3
    if k <= 6: return 4
    if k <= 8: return 5
    if k <= 10: return 6
    if k <= 12: return 7
    return 8
cnt = {}
for d in sorted(glob.glob(os.path.join(V, "seeded", "C*-*"))):
    mid = os.path.basename(d)
    det = json.load(open(os.path.join(d, "detection.json"))).get("final") if os.path.exists(os.path.join(d, "detection.json")) else None
    w = wave(mid)
    c = cnt.setdefault(w, {"n": 0, "det": 0, "und": 0, "miss": 0, "ids_und": [], "ids_miss": []})
    c["n"] += 1
    if det is None: c["miss"] += 1; c["ids_miss"].append(mid + "(not run)")
    elif det.get("detected"): c["det"] += 1
    elif det.get("exit") == 2: c["und"] += 1; c["ids_und"].append(mid)
    else: c["miss"] += 1; c["ids_miss"].append(mid)
p = os.path.join(V, "DESIGN.md"); s = open(p).read()
for w, c in sorted(cnt.items()):
    cell = f"{c['det']} / {c['und']} / {c['miss']}"
    print(w, c["n"], cell, "undecided:", " ".join(c["ids_und"]), "missed:", " ".join(c["ids_miss"]))
    s = s.replace(f"WAVE{w}_AFTER", cell)
open(p, "w").write(s)
