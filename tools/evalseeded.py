#!/usr/bin/env python3
"""Runs the registered check of a seeded mutant's property against the mutant.
mode `repo`   : git -C /repo apply <patch>; ./check <prop>; git -C /repo checkout -- .   (as the brief says)
mode `scratch`: same check against a scratch copy (VERIF_REPO) — safe while other jobs read /repo
usage: evalseeded.py <mode> <engines> <id> [...]      e.g.  evalseeded.py scratch V,T,S,F C13-1 C14-1"""
import json, os, re, shutil, subprocess, sys
VERIF = os.path.dirname(os.path.dirname(os.path.abspath(__file__)))
mode, engines = sys.argv[1], sys.argv[2]
for mid in sys.argv[3:]:
    d = os.path.join(VERIF, "seeded", mid)
    meta = json.load(open(os.path.join(d, "meta.json")))
    prop = meta["property"]
    patch = os.path.join(d, "patch.diff")
    env = dict(os.environ)
    env["VERIF_EVAL_RUN"] = "1"  # the record of a run on a deliberately changed tree must not replace the evidence file
    if mode == "repo":
        if subprocess.run(["git", "-C", "/repo", "status", "--porcelain", "--untracked-files=no"], capture_output=True).stdout.strip():
            sys.exit("refusing: /repo has uncommitted changes")
        if subprocess.run(["git", "-C", "/repo", "apply", patch]).returncode != 0:
            subprocess.run(["git", "-C", "/repo", "checkout", "--", "."], check=True)
            print(f"{mid:8s} patch does not apply to the current /repo")
            continue
    else:
        sc = f"/var/tmp/verif-eval-{os.getpid()}"
        shutil.rmtree(sc, ignore_errors=True)
        subprocess.run(["rsync", "-a", "--exclude", "target", "--exclude", ".git", "/repo/", sc + "/"], check=True)
        subprocess.run(["patch", "-p1", "-s", "-i", patch], cwd=sc, check=True)
        env["VERIF_REPO"] = sc
    try:
        r = subprocess.run([os.path.join(VERIF, "check"), prop, "--only", engines, "--tier", os.environ.get("EVAL_TIER", "quick")], capture_output=True, env=env, cwd=VERIF)
    finally:
        if mode == "repo":
            subprocess.run(["git", "-C", "/repo", "checkout", "--", "."], check=True)
        else:
            shutil.rmtree(sc, ignore_errors=True)
    out = r.stdout.decode()
    viol = re.findall(r"VIOLATION property=\S+ replay=(\S+)( no-failing-input-found)?", out)
    obs = []
    for v, tail in viol:
        try:
            doc = json.load(open(v))
            obs.append({"obligation": doc["obligation"], "engine": doc["engine"], "input_replayed": tail == "", "failing_input": [x.get("shown") for x in (doc.get("failing_input") or [])]})
        except Exception:
            obs.append({"replay": v})
    und = re.findall(r"UNDECIDED property=\S+ obligation=(\S+) reason=(.{0,160})", out)
    res = {"mode": mode, "engines": engines, "exit": r.returncode, "detected": r.returncode == 1 and bool(viol), "violations": obs, "undecided": [{"obligation": a, "reason": b} for a, b in und][:6], "summary": out.strip().split("\n")[-1]}
    allres = {}
    rp = os.path.join(d, "detection.json")
    if os.path.exists(rp):
        allres = json.load(open(rp))
    allres[f"{mode}:{engines}" + (":" + os.environ["EVAL_TIER"] if os.environ.get("EVAL_TIER") else "")] = res
    json.dump(allres, open(rp, "w"), indent=1)
    print(f"{mid:8s} {'DETECTED' if res['detected'] else ('undecided' if r.returncode == 2 else 'missed  ')} exit={r.returncode} {[o.get('obligation') for o in obs]} {[u['obligation'] for u in res['undecided']][:3]}")
