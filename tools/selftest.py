#!/usr/bin/env python3
"""Replays selftest/mutants.toml against scratch copies of /repo (never /repo itself)."""
import os, re, shutil, subprocess, sys, tomllib
VERIF = os.path.dirname(os.path.dirname(os.path.abspath(__file__)))
ms = tomllib.load(open(os.path.join(VERIF, "selftest", "mutants.toml"), "rb"))["m"]
pat = sys.argv[1] if len(sys.argv) > 1 else ""
ok = bad = 0
for m in ms:
    if pat not in m["name"] or m.get("skip"):
        continue
    if os.environ.get("SELFTEST_NO_K") and "K" in m.get("engines", "V"):
        continue
    d = f"/var/tmp/verif-selftest-{os.getpid()}"
    shutil.rmtree(d, ignore_errors=True)
    subprocess.run(["rsync", "-a", "--exclude", "target", "--exclude", ".git", "/repo/", d + "/"], check=True)
    p = os.path.join(d, m["file"])
    s = open(p).read()
    if s.count(m["search"]) != 1:
        print(f"SKIP  {m['name']}: search text occurs {s.count(m['search'])} times"); bad += 1; shutil.rmtree(d); continue
    s = s.replace(m["search"], m["replace"])
    if m.get("search2"):
        if s.count(m["search2"]) != 1:
            print(f"SKIP  {m['name']}: search2 text occurs {s.count(m['search2'])} times"); bad += 1; shutil.rmtree(d); continue
        s = s.replace(m["search2"], m["replace2"])
    open(p, "w").write(s)
    env = dict(os.environ, VERIF_REPO=d)
    r = subprocess.run([os.path.join(VERIF, "check"), m["prop"], "--only", m.get("engines", "V")], capture_output=True, env=env, cwd=VERIF)
    out = r.stdout.decode()
    viol = re.findall(r"VIOLATION property=\S+ replay=(\S+)", out)
    obs = []
    for v in viol:
        try:
            import json; obs.append(json.load(open(v))["obligation"])
        except Exception: pass
    if m["kind"] == "flag":
        # not refuted, but no longer under contract: the check must say so (exit 2, the obligation named), never pass
        good = r.returncode == 2 and not viol and re.search(r"UNDECIDED property=\S+ obligation=\S*" + re.escape(m["expect"]), out) is not None
    elif m["kind"] == "break":
        good = r.returncode == 1 and any(m["expect"] in o for o in obs)
    else:
        good = r.returncode in (0, 2) and not viol
    print(("ok   " if good else "FAIL ") + f"{m['name']:48s} exit={r.returncode} violations={obs}")
    if not good:
        print("      " + "\n      ".join(out.strip().split("\n")[-4:]))
    ok += good; bad += (not good)
    shutil.rmtree(d, ignore_errors=True)
print(f"{ok} ok, {bad} not ok")
sys.exit(1 if bad else 0)
