import glob, json, os, re, shutil, subprocess, sys
engines = sys.argv[1]
ids = sys.argv[2:] or sorted(os.path.basename(d) for d in glob.glob(os.path.join(os.path.dirname(os.path.dirname(os.path.abspath(__file__))), 'harmless', 'C*')))
for mid in ids:
    d = os.path.join(os.path.dirname(os.path.dirname(os.path.abspath(__file__))), 'harmless') + '/' + mid
    prop = json.load(open(d + '/meta.json'))['property']
    sc = f"/var/tmp/verif-keep-{os.getpid()}"
    shutil.rmtree(sc, ignore_errors=True)
    subprocess.run(["rsync", "-a", "--exclude", "target", "--exclude", ".git", "/repo/", sc + "/"], check=True)
    if subprocess.run(["patch", "-p1", "-s", "-i", d + '/patch.diff'], cwd=sc).returncode != 0:
        print(mid, "PATCH FAILED"); continue
    env = dict(os.environ, VERIF_REPO=sc, VERIF_EVAL_RUN="1")
    # run EVERY property's check whose units could see the change? the property the change was made for, plus ALL
    r = subprocess.run(["/verif/check", prop, "--only", engines], capture_output=True, env=env, cwd="/verif")
    out = r.stdout.decode()
    viol = re.findall(r"VIOLATION property=\S+ replay=(\S+)", out)
    obs = []
    for v in viol:
        try: obs.append(json.load(open(v))["obligation"])
        except Exception: pass
    und = re.findall(r"UNDECIDED property=\S+ obligation=(\S+)", out)
    print(f"{mid:8s} exit={r.returncode} {'FALSE-ALARM ' + str(obs) if viol else ('undecided ' + str(und[:3]) if r.returncode == 2 else 'quiet')}", flush=True)
    shutil.rmtree(sc, ignore_errors=True)
