#!/usr/bin/env python3
"""Generates /verif/MANIFEST.json from the table below (kept next to the machinery so that the
manifest never drifts from what exists)."""
import json, os, sys
VERIF = os.path.dirname(os.path.dirname(os.path.abspath(__file__)))
sys.path.insert(0, os.path.join(VERIF, "lib"))
from claims import CLAIMS, NOT_APPLICABLE

checks = []
for pid, c in sorted(CLAIMS.items()):
    checks.append({
        "property_id": pid,
        "quick_cmd": f"./check {pid} --tier quick",
        "thorough_cmd": f"./check {pid} --tier thorough",
        "evidence_file": f"/verif/evidence/{pid}.json",
        "replay_cmd_template": "./check " + pid + " --replay {path}",
        "engine": c["engine"],
        "level_claimed": {"category": "proof", "text": c["text"], "design_ref": c.get("design_ref", "DESIGN.md section 4")},
        "level_note": c["note"],
        "technique": c["technique"],
    })
m = {
    "version": 1,
    "setup_cmd": "./setup.sh",
    "hooks": {
        "guard": "kani",
        "enable": "no hook is committed to /repo: every check copies /repo's working tree to a scratch directory and adds #[cfg(kani)] contract attributes and harness modules to the copy (cargo kani sets cfg(kani)); Verus units are extracted from the compiler's macro expansion of the working tree",
        "baseline_off_cmd": "cd /repo && cargo test --workspace --no-fail-fast --offline",
        "source_commits": [],
        "add_only": True,
    },
    "engines": [
        {"name": "V", "path": "/verif/lib/verusrun.py", "serves_properties": sorted(p for p, c in CLAIMS.items() if "V" in c["engine"]), "kind_free_text": "Verus on functions extracted mechanically from /repo on every run (tools/vx + lib/vx.py), contracts in /verif/contracts/*.toml"},
        {"name": "K", "path": "/verif/lib/kanirun.py", "serves_properties": sorted(p for p, c in CLAIMS.items() if "K" in c["engine"]), "kind_free_text": "Kani/CBMC on an add-only overlay copy of /repo, harnesses and in-place contracts in /verif/kani/"},
        {"name": "T", "path": "/verif/lib/engine_t.py", "serves_properties": sorted(p for p, c in CLAIMS.items() if "T" in c["engine"]), "kind_free_text": "recursion-measure obligations generated from the call graph of the real source, discharged by z3"},
        {"name": "F", "path": "/verif/lib/engine_f.py", "serves_properties": sorted(p for p, c in CLAIMS.items() if "F" in c["engine"]), "kind_free_text": "frame audits: syntactic inventories of the working tree (sites minting the safe mark; instructions emitted without a span) against an audited list; not proofs"},
        {"name": "S", "path": "/verif/lib/engine_s.py", "serves_properties": sorted(p for p, c in CLAIMS.items() if "S" in c["engine"]), "kind_free_text": "obligations discharged by rustc: auto-trait bounds; frame obligations (the exit-bearing prefix of a &mut self function re-typed to a shared borrow)"},
    ],
    "checks": checks,
    "notes": "Contract-based deductive verification of the real code; see DESIGN.md. exit 2 = undecided (lost anchor, unsupported construct, rlimit), never a VIOLATION line.",
    "not_applicable": [{"property_id": p, "reason": r} for p, r in sorted(NOT_APPLICABLE.items())],
}
with open(os.path.join(VERIF, "MANIFEST.json"), "w") as f:
    json.dump(m, f, indent=1)
print("MANIFEST.json:", len(checks), "checks,", len(m["not_applicable"]), "not applicable")
