#!/usr/bin/env python3
"""Final evaluation of every seeded change, as the brief says: git -C /repo apply <patch>; ./check <prop>;
git -C /repo checkout -- .   Engines V,T,S,F first (seconds); engine K (minutes) only where those did not
already report a violation.  Nothing else may read /repo while this runs.
Each result replaces every earlier record in seeded/<id>/detection.json under the key "final".
usage: finaleval.py [id ...]      (default: all)"""
import glob, json, os, re, subprocess, sys
VERIF = os.path.dirname(os.path.dirname(os.path.abspath(__file__)))
ids = sys.argv[1:] or sorted(os.path.basename(d) for d in glob.glob(os.path.join(VERIF, "seeded", "C*-*")))
def run(prop, engines):
    env = dict(os.environ, VERIF_EVAL_RUN="1")
    r = subprocess.run([os.path.join(VERIF, "check"), prop, "--only", engines], capture_output=True, env=env, cwd=VERIF)
    out = r.stdout.decode()
    viol = re.findall(r"VIOLATION property=\S+ replay=(\S+)( no-failing-input-found)?", out)
    obs = []
    for v, tail in viol:
        try:
            doc = json.load(open(v))
            obs.append({"obligation": doc["obligation"], "engine": doc["engine"], "input_replayed": tail == ""})
        except Exception:
            obs.append({"replay": v})
    und = re.findall(r"UNDECIDED property=\S+ obligation=(\S+) reason=(.{0,160})", out)
    und = [(a, b) for a, b in und if "not generated in this run" not in b]
    return {"engines": engines, "exit": r.returncode, "detected": r.returncode == 1 and bool(viol), "violations": obs, "undecided": [{"obligation": a, "reason": b} for a, b in und][:6], "summary": out.strip().split("\n")[-1]}
if subprocess.run(["git", "-C", "/repo", "status", "--porcelain", "--untracked-files=no"], capture_output=True).stdout.strip():
    sys.exit("refusing: /repo has uncommitted changes")
for mid in ids:
    d = os.path.join(VERIF, "seeded", mid)
    prop = json.load(open(os.path.join(d, "meta.json")))["property"]
    if subprocess.run(["git", "-C", "/repo", "apply", os.path.join(d, "patch.diff")]).returncode != 0:
        subprocess.run(["git", "-C", "/repo", "checkout", "--", "."], check=True)
        print(f"{mid:8s} patch does not apply"); continue
    try:
        res = run(prop, "V,T,S,F")
        if not res["detected"]:
            k = run(prop, "K")
            res = {"engines": "V,T,S,F then K", "exit": 1 if k["detected"] else (2 if 2 in (res["exit"], k["exit"]) and (res["undecided"] or k["undecided"]) else 0), "detected": k["detected"], "violations": k["violations"], "undecided": res["undecided"] + k["undecided"], "summary": res["summary"] + " | " + k["summary"]}
    finally:
        subprocess.run(["git", "-C", "/repo", "checkout", "--", "."], check=True)
    res["mode"] = "repo"
    json.dump({"final": res}, open(os.path.join(d, "detection.json"), "w"), indent=1)
    print(f"{mid:8s} {'DETECTED' if res['detected'] else ('undecided' if res['exit'] == 2 else 'missed  ')} {[o.get('obligation') for o in res['violations']]} {[u['obligation'] for u in res['undecided']][:3]}", flush=True)
