use vstd::prelude::*;
use vstd::std_specs::ops::*;
use std::sync::Arc;

verus! {

// ---------------- prelude (trusted) ----------------
#[verifier::external_body]
pub struct Error { _p: () }
pub type TeraResult<T> = Result<T, Error>;
#[verifier::external_body]
pub struct SmartString { _p: () }
#[verifier::external_body]
pub struct Map { _p: () }

impl Error {
    #[verifier::external_body]
    pub fn message(message: String) -> Error { unimplemented!() }
}
#[verifier::external_body]
pub fn vx_fmt() -> String { unimplemented!() }
#[verifier::external_body]
pub fn vx_unreachable() -> !
    requires false
{ unreachable!() }

pub assume_specification[ <i128 as TryFrom<u128>>::try_from ](v: u128) -> (r: Result<i128, <i128 as TryFrom<u128>>::Error>)
    ensures
        v <= i128::MAX as u128 ==> r.is_ok() && r.unwrap() == v as i128,
        v > i128::MAX as u128 ==> r.is_err();

// float operators have no precondition (they never panic); results stay uninterpreted
pub broadcast proof fn axiom_f64_add_req(a: f64, b: f64) ensures #[trigger] a.add_req(b) { admit(); }
pub broadcast proof fn axiom_f64_sub_req(a: f64, b: f64) ensures #[trigger] a.sub_req(b) { admit(); }
pub broadcast proof fn axiom_f64_mul_req(a: f64, b: f64) ensures #[trigger] a.mul_req(b) { admit(); }
pub broadcast proof fn axiom_f64_div_req(a: f64, b: f64) ensures #[trigger] a.div_req(b) { admit(); }

// ---------------- extracted types ----------------
pub enum ValueInner {
    Undefined,
    None,
    Bool(bool),
    U64(u64),
    I64(i64),
    F64(f64),
    U128(Box<u128>),
    I128(Box<i128>),
    String(SmartString),
    Array(Arc<Vec<Value>>),
    Map(Arc<Map>),
    Bytes(Arc<Vec<u8>>),
}
pub struct Value { pub inner: ValueInner }
#[derive(Copy, Clone)]
pub enum Number { Integer(i128), Float(f64) }

// ---------------- spec vocabulary ----------------
pub open spec fn ival(v: &Value) -> Option<int> {
    match v.inner {
        ValueInner::U64(x) => Some(x as int),
        ValueInner::I64(x) => Some(x as int),
        ValueInner::U128(x) => Some(*x as int),
        ValueInner::I128(x) => Some(*x as int),
        _ => None,
    }
}
pub open spec fn fits(i: int) -> bool { i128::MIN <= i <= i128::MAX }
pub open spec fn is_f64(v: &Value) -> bool { v.inner is F64 }
pub open spec fn is_num(v: &Value) -> bool { ival(v).is_some() || is_f64(v) }
pub open spec fn usable_int(v: &Value) -> bool { ival(v).is_some() && fits(ival(v).unwrap()) }

impl From<i128> for Value {
    fn from(value: i128) -> (r: Self)
        ensures ival(&r) == Some(value as int), !is_f64(&r)
    {
        Value { inner: ValueInner::I128(Box::new(value)) }
    }
}
impl From<f64> for Value {
    fn from(value: f64) -> (r: Self)
        ensures r.inner == ValueInner::F64(value)
    {
        Value { inner: ValueInner::F64(value) }
    }
}

impl Number {
    pub fn is_float(&self) -> (r: bool) ensures r == (self is Float) {
        matches!(self, Number::Float(..))
    }
    pub(crate) fn into_float(self) -> (r: Self) ensures r is Float {
        match self {
            Number::Float(f) => Number::Float(f),
            Number::Integer(f) => Number::Float(f as f64),
        }
    }
}

impl Value {
    pub fn as_number(&self) -> (r: Option<Number>)
        ensures
            ival(self).is_some() ==> (if fits(ival(self).unwrap()) { r == Some(Number::Integer(ival(self).unwrap() as i128)) } else { r.is_none() }),
            is_f64(self) ==> r.is_some() && r.unwrap() is Float,
            !is_num(self) ==> r.is_none(),
    {
        match &self.inner {
            ValueInner::U64(v) => Some(Number::Integer(*v as i128)),
            ValueInner::I64(v) => Some(Number::Integer(*v as i128)),
            ValueInner::F64(v) => Some(Number::Float(*v)),
            ValueInner::U128(v) => i128::try_from(**v).ok().map(|x: i128| -> (r: Number) ensures r == Number::Integer(x) { Number::Integer(x) }),
            ValueInner::I128(v) => Some(Number::Integer(**v)),
            _ => None,
        }
    }
    pub fn is_number(&self) -> (r: bool) ensures r == is_num(self) {
        matches!(
            &self.inner,
            ValueInner::U64(..)
                | ValueInner::I64(..)
                | ValueInner::F64(..)
                | ValueInner::U128(..)
                | ValueInner::I128(..)
        )
    }
}

fn arg_error(val: &Value) -> Error {
    if val.is_number() {
        Error::message(vx_fmt())
    } else {
        Error::message(vx_fmt())
    }
}

pub(crate) fn mul(lhs: &Value, rhs: &Value) -> (res: TeraResult<Value>)
    ensures
        usable_int(lhs) && usable_int(rhs) ==> ({
            let p = ival(lhs).unwrap() * ival(rhs).unwrap();
            &&& fits(p) ==> res.is_ok() && ival(&res->Ok_0) == Some(p)
            &&& !fits(p) ==> res.is_err()
        }),
        (!is_num(lhs) || !is_num(rhs)) ==> res.is_err(),
        (ival(lhs).is_some() && !usable_int(lhs)) || (ival(rhs).is_some() && !usable_int(rhs)) ==> res.is_err(),
        is_num(lhs) && is_num(rhs) && (is_f64(lhs) || is_f64(rhs)) && !((ival(lhs).is_some() && !usable_int(lhs)) || (ival(rhs).is_some() && !usable_int(rhs))) ==> res.is_ok() && is_f64(&res->Ok_0),
{
    broadcast use axiom_f64_mul_req;
    match (lhs.as_number(), rhs.as_number()) {
        (Some(mut left), Some(mut right)) => {
            if left.is_float() || right.is_float() {
                left = left.into_float();
                right = right.into_float();
            }
            let val =
                match (left, right) {
                    (Number::Integer(a), Number::Integer(b)) =>
                        match a.checked_mul(b) {
                            Some(val) => Value::from(val),
                            None =>
                                return Err(Error::message(vx_fmt())),
                        },
                    (Number::Float(a), Number::Float(b)) => Value::from(a * b),
                    _ => vx_unreachable(),
                };
            Ok(val)
        }
        (None, _) => Err(arg_error(lhs)),
        (_, None) => Err(arg_error(rhs)),
    }
}

pub(crate) fn rem(lhs: &Value, rhs: &Value) -> (res: TeraResult<Value>)
    ensures
        usable_int(lhs) && usable_int(rhs) && ival(rhs).unwrap() != 0 ==> ({
            let a = ival(lhs).unwrap(); let b = ival(rhs).unwrap();
            res.is_ok() && ival(&res->Ok_0) == Some(a % b)
        }),
{
    match (lhs.as_number(), rhs.as_number()) {
        (Some(mut left), Some(mut right)) => {
            let val = match (left, right) {
                (Number::Integer(a), Number::Integer(b)) => { if b == 0 { return Err(Error::message(vx_fmt())); } match a.checked_rem_euclid(b) {
                    Some(val) => Value::from(val),
                    None => {
                        return Err(Error::message(vx_fmt()));
                    }
                } },
                _ => { return Err(Error::message(vx_fmt())); },
            };
            Ok(val)
        }
        (None, _) => Err(arg_error(lhs)),
        (_, None) => Err(arg_error(rhs)),
    }
}

} // verus!
fn main() {}
