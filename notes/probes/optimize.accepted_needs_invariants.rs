use vstd::prelude::*;
verus! {

#[verifier::external_body]
pub struct Value { _p: () }
#[verifier::external_body]
pub struct Span { _p: () }

pub const MAGICAL_DUMP_VAR: &'static str = "__tera_context";

pub enum Instruction {
    LoadConst(Value),
    LoadName(String),
    LoadAttr(String),
    LoadAttrOpt(String),
    BinarySubscript,
    WriteText(String),
    WriteTop,
    BuildMapWithSpreads(Vec<bool>),
    Jump(usize),
    PopJumpIfFalse(usize),
    JumpIfFalseOrPop(usize),
    JumpIfTrueOrPop(usize),
    Iterate(usize),
    Not,
    LoadPath(Vec<String>),
    WritePath(Vec<String>),
}

pub struct Chunk {
    pub instructions: Vec<(Instruction, Vec<Span>)>,
    pub name: String,
}

// R6 shim: body is literally the original expression
#[verifier::external_body]
fn vx_replace_at(v: &mut Vec<(Instruction, Vec<Span>)>, i: usize, p: &(Instruction, Vec<Span>)) -> (r: (Instruction, Vec<Span>))
    requires i < old(v).len()
    ensures r == old(v)[i as int], final(v)@ == old(v)@.update(i as int, *p)
{ unimplemented!() }

#[verifier::external_body]
fn vx_vec_extend(v: &mut Vec<Span>, w: Vec<Span>)
    ensures final(v)@ == old(v)@ + w@
{ unimplemented!() }

pub assume_specification<T: Default>[ core::mem::take::<T> ](dest: &mut T) -> (r: T)
    ensures r == *old(dest);

#[verifier::external_body]
pub fn vx_unreachable() -> ! requires false { unreachable!() }


pub open spec fn jt(ins: Instruction) -> Option<usize> {
    match ins {
        Instruction::Jump(t) => Some(t),
        Instruction::PopJumpIfFalse(t) => Some(t),
        Instruction::JumpIfFalseOrPop(t) => Some(t),
        Instruction::JumpIfTrueOrPop(t) => Some(t),
        Instruction::Iterate(t) => Some(t),
        _ => None,
    }
}
pub open spec fn targets_ok(s: Seq<(Instruction, Vec<Span>)>, bound: int) -> bool {
    forall|k: int| 0 <= k < s.len() ==> (#[trigger] jt(s[k].0)) is Some ==> jt(s[k].0)->Some_0 <= bound
}

impl Chunk {
    pub fn optimize(&mut self)
        requires targets_ok(old(self).instructions@, old(self).instructions@.len() as int), old(self).instructions@.len() < usize::MAX
        ensures final(self).instructions@.len() <= old(self).instructions@.len(),
                targets_ok(final(self).instructions@, final(self).instructions@.len() as int),
    {
        let mut old_instructions = std::mem::take(&mut self.instructions);
        let mut optimized = Vec::with_capacity(old_instructions.len());
        // Map from old instruction index to new instruction index
        // +1 to handle jumps that target one-past-the-end (i.e., chunk.len())
        let mut index_map: Vec<usize> = vec![0; old_instructions.len() + 1];

        let mut is_jump_target: Vec<bool> = vec![false; old_instructions.len()];
        let ghost old0 = old_instructions@;
        let ghost n = old0.len() as int;
        for (instr, _) in &old_instructions
            invariant is_jump_target.len() == n,
        {
            if let Instruction::Jump(t)
            | Instruction::PopJumpIfFalse(t)
            | Instruction::JumpIfFalseOrPop(t)
            | Instruction::JumpIfTrueOrPop(t)
            | Instruction::Iterate(t) = instr
            { if *t < is_jump_target.len()
            {
                is_jump_target[*t] = true;
            } }
        }

        let mut i = 0;

        // Placeholder for mem::replace - cheapest instruction (no heap allocation)
        let placeholder = (Instruction::WriteTop, Vec::new());

        while i < old_instructions.len()
            invariant
                n == old0.len(), n < usize::MAX,
                old_instructions.len() == n, index_map.len() == n + 1, is_jump_target.len() == n,
                i <= n, optimized.len() <= i,
                targets_ok(old0, n),
                forall|k: int| i <= k < n ==> old_instructions@[k] == old0[k],
                targets_ok(optimized@, n),
                forall|k: int| 0 <= k < i ==> #[trigger] index_map@[k] <= optimized.len(),
            decreases n - i,
        {
            // Record the mapping for this instruction
            index_map[i] = optimized.len();

            // Try to collect a path: LoadName followed by any number of LoadAttr except for the magic dump var
            if matches!(&old_instructions[i].0, Instruction::LoadName(n) if n.as_str() != MAGICAL_DUMP_VAR)
            {
                // Take ownership of the LoadName instruction
                let (instr, spans) =
                    vx_replace_at(&mut old_instructions, i, &placeholder);
                let name = match instr {
                    Instruction::LoadName(n) => n,
                    _ => vx_unreachable(),
                };
                let mut path = vec![name];
                let mut collected_spans = spans;
                let mut j = i + 1;

                // Collect consecutive LoadAttr instructions
                while j < old_instructions.len()
                    invariant
                        n == old0.len(), n < usize::MAX,
                        old_instructions.len() == n, index_map.len() == n + 1, is_jump_target.len() == n,
                        i < j <= n, optimized.len() <= i, path.len() >= 1,
                        forall|k: int| j <= k < n ==> old_instructions@[k] == old0[k],
                        forall|k: int| 0 <= k < j ==> #[trigger] index_map@[k] <= optimized.len(),
                    decreases n - j,
                {
                    // Don't absorb a jump target into the fusion
                    if is_jump_target[j] {
                        break;
                    }
                    if matches!(&old_instructions[j].0, Instruction::LoadAttr(_)) {
                        // Map the consumed LoadAttr to the same position as the first instruction
                        index_map[j] = optimized.len();
                        // Take ownership of the LoadAttr instruction
                        let (attr_instr, attr_spans) =
                            vx_replace_at(&mut old_instructions, j, &placeholder);
                        let attr = match attr_instr {
                            Instruction::LoadAttr(a) => a,
                            _ => vx_unreachable(),
                        };
                        path.push(attr);
                        vx_vec_extend(&mut collected_spans, attr_spans);
                        j += 1;
                    } else {
                        break;
                    }
                }

                let has_write = j < old_instructions.len()
                    && !is_jump_target[j]
                    && matches!(&old_instructions[j].0, Instruction::WriteTop);

                if has_write {
                    // Map the consumed WriteTop
                    index_map[j] = optimized.len();
                    // Fuse entire path + WriteTop into WritePath
                    optimized.push((Instruction::WritePath(path), collected_spans));
                    i = j + 1; // Skip past WriteTop
                    continue;
                } else if path.len() > 1 {
                    // Combine LoadName + LoadAttr* into LoadPath
                    optimized.push((Instruction::LoadPath(path), collected_spans));
                    i = j;
                    continue;
                }
                // Single LoadName with no attrs AND no WriteTop - reconstruct original
                optimized.push((Instruction::LoadName(path.pop().unwrap()), collected_spans));
                i += 1;
                continue;
            }

            // No pattern matched, move original
            optimized.push(vx_replace_at(&mut old_instructions, i, &placeholder));
            i += 1;
        }

        // Map the one-past-the-end index (for jumps that target chunk.len())
        index_map[old_instructions.len()] = optimized.len();

        // Now fix up all jump targets
        for (instr, _) in &mut optimized {
            match instr {
                Instruction::Jump(target) => {
                    *target = index_map[*target];
                }
                Instruction::PopJumpIfFalse(target) => {
                    *target = index_map[*target];
                }
                Instruction::JumpIfFalseOrPop(target) => {
                    *target = index_map[*target];
                }
                Instruction::JumpIfTrueOrPop(target) => {
                    *target = index_map[*target];
                }
                Instruction::Iterate(target) => {
                    *target = index_map[*target];
                }
                _ => {}
            }
        }

        self.instructions = optimized;
    }
}
}
fn main() {}
