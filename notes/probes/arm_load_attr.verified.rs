use vstd::prelude::*;
use std::ops::RangeInclusive;
verus! {

#[verifier::external_body]
pub struct Error { _p: () }
pub type TeraResult<T> = Result<T, Error>;
#[verifier::external_body]
pub fn vx_rendering_error() -> Error { unimplemented!() }

#[verifier::external_body]
pub struct Value { _p: () }
impl Clone for Value { #[verifier::external_body] fn clone(&self) -> (r: Value) ensures r == *self { unimplemented!() } }
impl Value {
    pub uninterp spec fn undefined_spec(&self) -> bool;
    pub uninterp spec fn none_spec(&self) -> bool;
    pub uninterp spec fn attr_spec(&self, attr: Seq<char>) -> Option<Value>;
    pub uninterp spec fn the_undefined() -> Value;
    #[verifier::external_body] pub fn is_undefined(&self) -> (r: bool) ensures r == self.undefined_spec() { unimplemented!() }
    #[verifier::external_body] pub fn is_none(&self) -> (r: bool) ensures r == self.none_spec() { unimplemented!() }
    #[verifier::external_body] pub fn undefined() -> (r: Value) ensures r == Self::the_undefined(), r.undefined_spec() { unimplemented!() }
    #[verifier::external_body]
    pub fn get_attr<'a>(&'a self, attr: &'a str) -> (r: Option<&'a Value>)
        ensures r.is_some() == self.attr_spec(attr@).is_some(), r.is_some() ==> *r.unwrap() == self.attr_spec(attr@)->Some_0
    { unimplemented!() }
}

pub type SpanRange = RangeInclusive<u32>;

pub struct Stack { pub values: Vec<(Value, SpanRange)> }
impl Stack {
    #[inline]
    pub fn push(&mut self, val: Value, span: SpanRange)
        ensures final(self).values@ == old(self).values@.push((val, span))
    {
        self.values.push((val, span));
    }
    #[inline]
    pub fn pop(&mut self) -> (r: (Value, SpanRange))
        requires old(self).values.len() > 0
        ensures r == old(self).values@.last(), final(self).values@ == old(self).values@.drop_last()
    {
        self.values.pop().expect("to have a value")
    }
}
pub struct State { pub stack: Stack }

pub enum Instruction { LoadAttr(String), LoadAttrOpt(String), Other }

// arm `Instruction::LoadAttr(attr) | Instruction::LoadAttrOpt(attr)` (R16; rendering_error! replaced by R18)
pub fn arm_load_attr(instr: &Instruction, attr: &String, state: &mut State, current_ip: u32) -> (r: TeraResult<()>)
    requires old(state).stack.values.len() > 0, *instr == Instruction::LoadAttr(*attr) || *instr == Instruction::LoadAttrOpt(*attr),
    ensures ({
        let a = old(state).stack.values@.last().0;
        let opt = *instr is LoadAttrOpt;
        let below = old(state).stack.values@.drop_last();
        // one level of undefined only
        &&& (!opt && a.undefined_spec()) ==> r.is_err()
        &&& r.is_ok() ==> final(state).stack.values@.len() == old(state).stack.values@.len()       // stack effect: pop 1, push 1
        &&& r.is_ok() ==> final(state).stack.values@.drop_last() == below
        &&& r.is_ok() ==> final(state).stack.values@.last().0 ==
                (if opt && (a.undefined_spec() || a.none_spec()) { Value::the_undefined() }
                 else { match a.attr_spec(attr@) { Some(v) => v, None => Value::the_undefined() } })
    })
{
    let is_optional = matches!(instr, Instruction::LoadAttrOpt(_));
    let (a, a_span) = state.stack.pop();
    if is_optional && (a.is_undefined() || a.is_none()) {
        state
            .stack
            .push(Value::undefined(), current_ip..=current_ip);
    } else {
        if a.is_undefined() {
            return Err(vx_rendering_error());
        }
        let next = a.get_attr(attr).cloned().unwrap_or_else(Value::undefined);
        state.stack.push(next, current_ip..=current_ip);
    }
    Ok(())
}
}
fn main() {}
