use vstd::prelude::*;
verus! {

#[verifier::external_body]
pub struct Error { _p: () }
pub enum ErrKind { Circular, Missing }
impl Error {
    pub uninterp spec fn kind(&self) -> ErrKind;
    #[verifier::external_body]
    pub fn circular_extend(tpl: &String, chain: Vec<String>) -> (r: Error) ensures r.kind() == ErrKind::Circular { unimplemented!() }
    #[verifier::external_body]
    pub fn missing_parent(cur: &String, parent: &String) -> (r: Error) ensures r.kind() == ErrKind::Missing { unimplemented!() }
}

#[verifier::external_body]
pub struct Tera { _p: () }
pub struct Template { pub name: String, pub extends: Option<String> }

pub type Name = Seq<char>;

impl Tera {
    pub uninterp spec fn names(&self) -> Set<Name>;
    /// what `resolve_template_name` returns (exact match, then prefixes) — its own contract is a separate obligation
    pub uninterp spec fn resolve_spec(&self, name: Name) -> Option<Name>;
    pub uninterp spec fn tpl_spec(&self, name: Name) -> Template;

    /// registry well-formedness (an invariant of `Tera.templates`: the map key is the template's name)
    pub open spec fn wf(&self) -> bool {
        &&& self.names().finite()
        &&& forall|nm: Name| #[trigger] self.names().contains(nm) ==> self.tpl_spec(nm).name@ == nm
        &&& forall|nm: Name| (#[trigger] self.resolve_spec(nm)) is Some ==> self.names().contains(self.resolve_spec(nm)->Some_0)
    }

    #[verifier::external_body]
    pub fn resolve_template_name(&self, name: &str) -> (r: Option<&str>)
        ensures r.is_some() == self.resolve_spec(name@).is_some(),
                r.is_some() ==> r.unwrap()@ == self.resolve_spec(name@)->Some_0,
    { unimplemented!() }

    #[verifier::external_body]
    pub fn get_tpl(&self, name: &str) -> (r: &Template)      // `&tera.templates[resolved]`
        requires self.names().contains(name@)
        ensures *r == self.tpl_spec(name@)
    { unimplemented!() }
}

#[verifier::external_body]
fn vx_contains(v: &Vec<String>, y: &str) -> (r: bool)
    ensures r == exists|i: int| 0 <= i < v.len() && #[trigger] v[i]@ == y@
{ unimplemented!() }
#[verifier::external_body]
fn vx_str_eq(a: &str, b: &String) -> (r: bool) ensures r == (a@ == b@) { unimplemented!() }
#[verifier::external_body]
fn vx_to_string(a: &str) -> (r: String) ensures r@ == a@ { unimplemented!() }
#[verifier::external_body]
fn vx_reverse(v: &mut Vec<String>) ensures final(v)@ == old(v)@.reverse() { unimplemented!() }
#[verifier::external_body]
fn vx_clone_string(s: &String) -> (r: String) ensures r@ == s@ { unimplemented!() }
#[verifier::external_body]
fn vx_clone_vec(v: &Vec<String>) -> (r: Vec<String>) ensures r@ == v@ { unimplemented!() }

// ---- specification: the extends chain ----
/// parent of template `nm` (resolved), if it extends something that resolves
pub open spec fn parent_of(tera: &Tera, nm: Name) -> Option<Name> {
    match tera.tpl_spec(nm).extends { Some(p) => tera.resolve_spec(p@), None => None }
}
pub open spec fn has_dangling(tera: &Tera, nm: Name) -> bool {
    tera.tpl_spec(nm).extends is Some && tera.resolve_spec(tera.tpl_spec(nm).extends->Some_0@) is None
}
pub open spec fn names_of(v: Seq<String>) -> Seq<Name> { v.map_values(|s: String| s@) }
/// `ps` (nearest first) is the chain of ancestors walked from `cur`: ps[0] = parent(cur), ps[k+1] = parent(ps[k])
pub open spec fn is_chain(tera: &Tera, cur0: Name, ps: Seq<Name>) -> bool {
    forall|k: int| 0 <= k < ps.len() ==> #[trigger] ps[k] == parent_of(tera, if k == 0 { cur0 } else { ps[k - 1] })->Some_0
        && parent_of(tera, if k == 0 { cur0 } else { ps[k - 1] }) is Some
}
pub open spec fn distinct(ps: Seq<Name>) -> bool { forall|i: int, j: int| 0 <= i < j < ps.len() ==> ps[i] != ps[j] }

pub fn find_parents(
    tera: &Tera,
    start: &Template,
    template: &Template,
    mut parents: Vec<String>,
) -> (res: Result<Vec<String>, Error>)
    requires
        tera.wf(),
        tera.names().contains(start.name@), *start == tera.tpl_spec(start.name@),
        tera.names().contains(template.name@), *template == tera.tpl_spec(template.name@),
        // walked so far: a duplicate-free chain from `start` that avoids `start`, ending at `template`
        is_chain(tera, start.name@, names_of(parents@)), distinct(names_of(parents@)),
        forall|i: int| 0 <= i < parents.len() ==> #[trigger] names_of(parents@)[i] != start.name@,
        template.name@ == (if parents.len() == 0 { start.name@ } else { names_of(parents@)[parents.len() - 1] }),
    ensures
        match res {
            Ok(ps) => {
                // the complete ancestor chain, root first, no repetition, ending in a template that extends nothing
                let near = names_of(ps@).reverse();
                &&& is_chain(tera, start.name@, near)
                &&& distinct(near)
                &&& tera.tpl_spec(if near.len() == 0 { start.name@ } else { near[near.len() - 1] }).extends is None
                &&& forall|i: int| 0 <= i < near.len() ==> #[trigger] near[i] != start.name@
            },
            Err(e) => true,
        }
    decreases tera.names().len() - parents.len(),
{
    match &template.extends {
        Some(p) => match tera.resolve_template_name(p.as_str()) {
            Some(resolved) => {
                if vx_str_eq(resolved, &start.name) || vx_contains(&parents, resolved) {
                    let mut chain = vx_clone_vec(&parents);
                    chain.push(vx_to_string(resolved));
                    return Err(Error::circular_extend(&start.name, chain));
                }
                let parent = tera.get_tpl(resolved);
                let ghost old_ps = names_of(parents@);
                parents.push(vx_clone_string(&parent.name));
                proof {
                    let nps = names_of(parents@);
                    assert(nps =~= old_ps.push(resolved@));
                    assert(parent_of(tera, template.name@) == Some(resolved@));
                    // distinctness of the extended chain
                    assert forall|i: int, j: int| 0 <= i < j < nps.len() implies nps[i] != nps[j] by {
                        if j == nps.len() - 1 {
                            if nps[i] == nps[j] { assert(parents@[i]@ == resolved@); }
                        }
                    }
                    // pigeonhole for termination: distinct registered names
                    lemma_distinct_bounded(tera, nps);
                }
                find_parents(tera, start, parent, parents)
            }
            None => Err(Error::missing_parent(&template.name, p)),
        },
        None => {
            let ghost near = names_of(parents@);
            vx_reverse(&mut parents);
            proof {
                assert(names_of(parents@).reverse() =~= near);
            }
            Ok(parents)
        }
    }
}

pub proof fn lemma_distinct_bounded(tera: &Tera, ps: Seq<Name>)
    requires tera.names().finite(), distinct(ps), forall|i: int| 0 <= i < ps.len() ==> tera.names().contains(#[trigger] ps[i])
    ensures ps.len() <= tera.names().len()
{
    admit();
}
}
fn main() {}
