use vstd::prelude::*;
verus! {

#[verifier::external_body]
pub struct Value { _p: () }
#[verifier::external_body]
pub struct Span { _p: () }

pub const MAGICAL_DUMP_VAR: &'static str = "__tera_context";

pub enum Instruction {
    LoadConst(Value),
    LoadName(String),
    LoadAttr(String),
    LoadAttrOpt(String),
    BinarySubscript,
    WriteText(String),
    WriteTop,
    BuildMapWithSpreads(Vec<bool>),
    Jump(usize),
    PopJumpIfFalse(usize),
    JumpIfFalseOrPop(usize),
    JumpIfTrueOrPop(usize),
    Iterate(usize),
    Not,
    LoadPath(Vec<String>),
    WritePath(Vec<String>),
}
pub type Ins = (Instruction, Vec<Span>);

pub struct Chunk {
    pub instructions: Vec<Ins>,
    pub name: String,
}

// ---- shims (R6, R11, R2) and std specs ----
#[verifier::external_body]
fn vx_replace_at(v: &mut Vec<Ins>, i: usize, p: &Ins) -> (r: Ins)
    requires i < old(v).len()
    ensures r == old(v)[i as int], final(v)@ == old(v)@.update(i as int, *p)
{ unimplemented!() }
#[verifier::external_body]
fn vx_vec_extend(v: &mut Vec<Span>, w: Vec<Span>)
    ensures final(v)@ == old(v)@ + w@
{ unimplemented!() }
pub assume_specification<T: Default>[ core::mem::take::<T> ](dest: &mut T) -> (r: T)
    ensures r == *old(dest);
#[verifier::external_body]
pub fn vx_unreachable() -> ! requires false { unreachable!() }

// ---- spec vocabulary ----
pub open spec fn jt(ins: Instruction) -> Option<usize> {
    match ins {
        Instruction::Jump(t) => Some(t),
        Instruction::PopJumpIfFalse(t) => Some(t),
        Instruction::JumpIfFalseOrPop(t) => Some(t),
        Instruction::JumpIfTrueOrPop(t) => Some(t),
        Instruction::Iterate(t) => Some(t),
        _ => None,
    }
}
pub open spec fn targets_ok(s: Seq<Ins>, bound: int) -> bool {
    forall|k: int| 0 <= k < s.len() ==> (#[trigger] jt(s[k].0)) is Some ==> jt(s[k].0)->Some_0 <= bound
}
/// j is the target of some jump of s (seen among the first p instructions)
pub open spec fn is_tgt_upto(s: Seq<Ins>, j: int, p: int) -> bool {
    exists|k: int| 0 <= k < p && #[trigger] jt(s[k].0) == Some(j as usize)
}
pub open spec fn is_tgt(s: Seq<Ins>, j: int) -> bool { is_tgt_upto(s, j, s.len() as int) }

/// same instruction with its jump target replaced
pub open spec fn retarget(ins: Instruction, t: usize) -> Instruction {
    match ins {
        Instruction::Jump(_) => Instruction::Jump(t),
        Instruction::PopJumpIfFalse(_) => Instruction::PopJumpIfFalse(t),
        Instruction::JumpIfFalseOrPop(_) => Instruction::JumpIfFalseOrPop(t),
        Instruction::JumpIfTrueOrPop(_) => Instruction::JumpIfTrueOrPop(t),
        Instruction::Iterate(_) => Instruction::Iterate(t),
        other => other,
    }
}

/// position k is absorbed into the instruction that position k-1 belongs to
pub open spec fn cont(im: Seq<usize>, k: int) -> bool { k > 0 && im[k] == im[k - 1] }
pub open spec fn step_ok(im: Seq<usize>, k: int) -> bool { im[k] == im[k - 1] || im[k] == im[k - 1] + 1 }
pub open spec fn single(im: Seq<usize>, k: int, i: int) -> bool { !cont(im, k) && (k + 1 == i || !cont(im, k + 1)) }
pub open spec fn in_range(im: Seq<usize>, k: int, m: int) -> bool { im[k] < m }
pub open spec fn head_ok(old0: Seq<Ins>, k: int) -> bool { old0[k].0 is LoadName && old0[k].0->LoadName_0@ != MAGICAL_DUMP_VAR@ }
pub open spec fn is_attr(old0: Seq<Ins>, k: int) -> bool { old0[k].0 is LoadAttr }
pub open spec fn absorbed_ok(old0: Seq<Ins>, k: int) -> bool { (old0[k].0 is LoadAttr || old0[k].0 is WriteTop) && !is_tgt(old0, k) }


pub open spec fn name_of(ins: Instruction) -> String { ins->LoadName_0 }
pub open spec fn attr_of(ins: Instruction) -> String { ins->LoadAttr_0 }
/// [name] ++ attrs of old0[a+1..e)
pub open spec fn path_of(old0: Seq<Ins>, a: int, e: int) -> Seq<String> decreases e - a {
    if e <= a + 1 { seq![name_of(old0[a].0)] } else { path_of(old0, a, e - 1).push(attr_of(old0[e - 1].0)) }
}
/// concatenation of the span lists of old0[a..e)
pub open spec fn spans_of(old0: Seq<Ins>, a: int, e: int) -> Seq<Span> decreases e - a {
    if e <= a { Seq::<Span>::empty() } else { spans_of(old0, a, e - 1) + old0[e - 1].1@ }
}
/// x is the fusion of the group old0[a..e)
pub open spec fn fused_rel(old0: Seq<Ins>, a: int, e: int, x: Ins) -> bool {
    if old0[e - 1].0 is WriteTop {
        x.0 is WritePath && x.0->WritePath_0@ == path_of(old0, a, e - 1) && x.1@ == spans_of(old0, a, e - 1)
    } else {
        x.0 is LoadPath && x.0->LoadPath_0@ == path_of(old0, a, e) && x.1@ == spans_of(old0, a, e)
    }
}
/// k is the last position of a merged group that starts at a
pub open spec fn group_end(im: Seq<usize>, a: int, k: int, i: int) -> bool {
    0 <= a < k && !cont(im, a) && im[a] == im[k] && cont(im, k) && (k + 1 == i || !cont(im, k + 1))
}
#[verifier::opaque]
pub open spec fn content_ok(old0: Seq<Ins>, im: Seq<usize>, opt: Seq<Ins>, i: int) -> bool {
    forall|k: int| 0 < k < i && #[trigger] cont(im, k) && (k + 1 == i || !cont(im, k + 1)) ==>
        exists|a: int| #[trigger] group_end(im, a, k, i) && fused_rel(old0, a, k + 1, opt[im[k] as int])
}

/// structural relation between the old code, the index map and the new code *before* retargeting
#[verifier::opaque]
pub open spec fn map_ok(old0: Seq<Ins>, im: Seq<usize>, opt: Seq<Ins>, i: int) -> bool {
    &&& 0 <= i <= old0.len()
    &&& im.len() == old0.len() + 1
    &&& (i > 0 ==> im[0] == 0 && im[i - 1] + 1 == opt.len())
    &&& (i == 0 ==> opt.len() == 0)
    &&& forall|k: int| 0 <= k < i ==> #[trigger] in_range(im, k, opt.len() as int)
    &&& targets_ok(opt, old0.len() as int)
    &&& forall|k: int| 0 < k < i ==> #[trigger] step_ok(im, k)
    &&& forall|k: int| 0 < k < i && #[trigger] cont(im, k) ==> absorbed_ok(old0, k) && jt(opt[im[k] as int].0) is None
    &&& forall|k: int| 0 <= k < i && #[trigger] single(im, k, i) ==> opt[im[k] as int] == old0[k]
    &&& forall|k: int| 0 < k < i && #[trigger] cont(im, k) && (k == 1 || im[k - 1] != im[k - 2]) ==> head_ok(old0, k - 1)
}


pub open spec fn retarget_im(ins: Instruction, im: Seq<usize>) -> Instruction {
    match jt(ins) { Some(t) => retarget(ins, im[t as int]), None => ins }
}

/// The postcondition of `optimize`, for a witness index map `im`
#[verifier::opaque]
pub open spec fn final_ok(old0: Seq<Ins>, im: Seq<usize>, new: Seq<Ins>) -> bool {
    let n = old0.len() as int;
    &&& im.len() == n + 1
    &&& im[n] == new.len()
    &&& (n > 0 ==> im[0] == 0 && im[n - 1] + 1 == new.len())
    &&& forall|k: int| 0 <= k < n ==> #[trigger] in_range(im, k, new.len() as int)
    // old positions map to the same or the next new position: order is kept, nothing is dropped or duplicated
    &&& forall|k: int| 0 < k < n ==> #[trigger] step_ok(im, k)
    // only LoadAttr / WriteTop are ever absorbed, and never one that some jump targets
    &&& forall|k: int| 0 < k < n && #[trigger] cont(im, k) ==> absorbed_ok(old0, k) && jt(new[im[k] as int].0) is None
    // every merged group starts with a LoadName
    &&& forall|k: int| 0 < k < n && #[trigger] cont(im, k) && (k == 1 || im[k - 1] != im[k - 2]) ==> head_ok(old0, k - 1)
    // everything that is not merged is the old instruction, with its jump target (if any) sent through the map
    &&& forall|k: int| 0 <= k < n && #[trigger] single(im, k, n) ==> new[im[k] as int] == (retarget_im(old0[k].0, im), old0[k].1)
}

/// consequence spelled out: a jump lands on the instruction it pointed to before
pub proof fn lemma_jump_lands(old0: Seq<Ins>, im: Seq<usize>, new: Seq<Ins>, k: int)
    requires final_ok(old0, im, new), 0 <= k < old0.len(), jt(old0[k].0) is Some, jt(old0[k].0)->Some_0 < old0.len(),
    ensures !cont(im, jt(old0[k].0)->Some_0 as int)   // the target position starts its own new instruction
{
    reveal(final_ok);
    let t = jt(old0[k].0)->Some_0 as int;
    assert(is_tgt_upto(old0, t, old0.len() as int));
    if cont(im, t) { assert(absorbed_ok(old0, t)); }
}

pub proof fn lemma_map_frame(old0: Seq<Ins>, im0: Seq<usize>, im1: Seq<usize>, opt: Seq<Ins>, i: int)
    requires map_ok(old0, im0, opt, i), im1.len() == im0.len(), forall|k: int| 0 <= k < i ==> #[trigger] im1[k] == im0[k]
    ensures map_ok(old0, im1, opt, i)
{
    reveal(map_ok);
    if i > 0 { assert(im1[0] == im0[0]); assert(im1[i - 1] == im0[i - 1]); }
    assert forall|k: int| 0 <= k < i implies #[trigger] in_range(im1, k, opt.len() as int) by { assert(im1[k] == im0[k]); assert(in_range(im0, k, opt.len() as int)); }
    assert forall|k: int| 0 < k < i implies #[trigger] step_ok(im1, k) by { assert(im1[k] == im0[k]); assert(im1[k-1] == im0[k-1]); assert(step_ok(im0, k)); }
    assert forall|k: int| 0 < k < i && #[trigger] cont(im1, k) implies absorbed_ok(old0, k) && jt(opt[im1[k] as int].0) is None by { assert(im1[k] == im0[k]); assert(im1[k-1] == im0[k-1]); assert(cont(im0, k)); }
    assert forall|k: int| 0 <= k < i && #[trigger] single(im1, k, i) implies opt[im1[k] as int] == old0[k] by {
        assert(im1[k] == im0[k]); if k > 0 { assert(im1[k-1] == im0[k-1]); } if k + 1 < i { assert(im1[k+1] == im0[k+1]); }
        assert(single(im0, k, i));
    }
    assert forall|k: int| 0 < k < i && #[trigger] cont(im1, k) && (k == 1 || im1[k - 1] != im1[k - 2]) implies head_ok(old0, k - 1) by {
        assert(im1[k] == im0[k]); assert(im1[k-1] == im0[k-1]); if k >= 2 { assert(im1[k-2] == im0[k-2]); } assert(cont(im0, k));
    }
}

pub proof fn lemma_final(old0: Seq<Ins>, im: Seq<usize>, optb: Seq<Ins>, new: Seq<Ins>)
    requires
        map_ok(old0, im, optb, old0.len() as int), im[old0.len() as int] == optb.len(),
        new.len() == optb.len(),
        forall|q: int| 0 <= q < new.len() ==> #[trigger] new[q] == (retarget_im(optb[q].0, im), optb[q].1),
    ensures final_ok(old0, im, new)
{
    reveal(map_ok); reveal(final_ok);
    let n = old0.len() as int;
    assert forall|k: int| 0 < k < n && #[trigger] cont(im, k) implies absorbed_ok(old0, k) && jt(new[im[k] as int].0) is None by {
        assert(in_range(im, k, optb.len() as int));
        let q = im[k] as int;
        assert(new[q] == (retarget_im(optb[q].0, im), optb[q].1));
    }
    assert forall|k: int| 0 <= k < n && #[trigger] single(im, k, n) implies new[im[k] as int] == (retarget_im(old0[k].0, im), old0[k].1) by {
        assert(in_range(im, k, optb.len() as int));
        let q = im[k] as int;
        assert(new[q] == (retarget_im(optb[q].0, im), optb[q].1));
        assert(optb[q] == old0[k]);
    }
}

pub proof fn lemma_map_init(old0: Seq<Ins>, im: Seq<usize>)
    requires im.len() == old0.len() + 1
    ensures map_ok(old0, im, Seq::<Ins>::empty(), 0)
{ reveal(map_ok); }

pub proof fn lemma_copy(old0: Seq<Ins>, im0: Seq<usize>, opt0: Seq<Ins>, i: int, im1: Seq<usize>, opt1: Seq<Ins>)
    requires
        map_ok(old0, im0, opt0, i), i < old0.len(), targets_ok(old0, old0.len() as int),
        im1 == im0.update(i, opt0.len() as usize), opt0.len() < usize::MAX,
        opt1 == opt0.push(old0[i]),
    ensures map_ok(old0, im1, opt1, i + 1)
{
    reveal(map_ok);
    assert forall|q: int| 0 <= q < opt1.len() && (#[trigger] jt(opt1[q].0)) is Some implies jt(opt1[q].0)->Some_0 <= old0.len() by {
        if q < opt0.len() { assert(opt1[q] == opt0[q]); } else { assert(opt1[q] == old0[i]); }
    }
    assert forall|k: int| 0 <= k < i + 1 implies #[trigger] in_range(im1, k, opt1.len() as int) by {
        if k < i { assert(in_range(im0, k, opt0.len() as int)); }
    }
    assert forall|k: int| 0 < k < i + 1 implies #[trigger] step_ok(im1, k) by {
        if k < i { assert(step_ok(im0, k)); }
    }
    assert forall|k: int| 0 < k < i + 1 && #[trigger] cont(im1, k) implies absorbed_ok(old0, k) && jt(opt1[im1[k] as int].0) is None by {
        if k < i { assert(cont(im0, k)); assert(in_range(im0, k, opt0.len() as int)); assert(opt1[im1[k] as int] == opt0[im0[k] as int]); }
    }
    assert forall|k: int| 0 <= k < i + 1 && #[trigger] single(im1, k, i + 1) implies opt1[im1[k] as int] == old0[k] by {
        if k < i {
            if k + 1 < i { assert(cont(im1, k + 1) == cont(im0, k + 1)); }
            assert(cont(im1, k) == cont(im0, k));
            assert(single(im0, k, i));
            assert(in_range(im0, k, opt0.len() as int));
            assert(opt1[im1[k] as int] == opt0[im0[k] as int]);
        }
    }
    assert forall|k: int| 0 < k < i + 1 && #[trigger] cont(im1, k) && (k == 1 || im1[k - 1] != im1[k - 2]) implies head_ok(old0, k - 1) by {
        if k < i { assert(cont(im0, k)); }
    }
}

pub proof fn lemma_fuse(old0: Seq<Ins>, im0: Seq<usize>, opt0: Seq<Ins>, i: int, e: int, im1: Seq<usize>, opt1: Seq<Ins>, x: Ins)
    requires
        map_ok(old0, im0, opt0, i), i < e <= old0.len(), e - i >= 2, opt0.len() < usize::MAX,
        head_ok(old0, i),
        forall|k: int| i < k < e ==> #[trigger] absorbed_ok(old0, k),
        im1.len() == im0.len(),
        forall|k: int| 0 <= k < i ==> #[trigger] im1[k] == im0[k],
        forall|k: int| i <= k < e ==> #[trigger] im1[k] == opt0.len(),
        opt1 == opt0.push(x), jt(x.0) is None,
    ensures map_ok(old0, im1, opt1, e)
{
    reveal(map_ok);
    assert forall|q: int| 0 <= q < opt1.len() && (#[trigger] jt(opt1[q].0)) is Some implies jt(opt1[q].0)->Some_0 <= old0.len() by {
        if q < opt0.len() { assert(opt1[q] == opt0[q]); } else { assert(opt1[q] == x); }
    }
    assert(im1[i] == opt0.len());
    assert(im1[e - 1] == opt0.len());
    if i > 0 { assert(im1[i - 1] == im0[i - 1]); assert(im1[0] == im0[0]); }
    assert forall|k: int| 0 <= k < e implies #[trigger] in_range(im1, k, opt1.len() as int) by {
        if k < i { assert(im1[k] == im0[k]); assert(in_range(im0, k, opt0.len() as int)); } else { assert(im1[k] == opt0.len()); }
    }
    assert forall|k: int| 0 < k < e implies #[trigger] step_ok(im1, k) by {
        if k < i { assert(step_ok(im0, k)); assert(im1[k] == im0[k]); assert(im1[k - 1] == im0[k - 1]); }
        else if k == i { assert(im1[k - 1] == im0[k - 1]); assert(im1[k] == opt0.len()); }
        else { assert(im1[k] == opt0.len()); assert(im1[k - 1] == opt0.len()); }
    }
    assert forall|k: int| 0 < k < e && #[trigger] cont(im1, k) implies absorbed_ok(old0, k) && jt(opt1[im1[k] as int].0) is None by {
        if k < i { assert(im1[k] == im0[k]); assert(im1[k - 1] == im0[k - 1]); assert(cont(im0, k)); assert(in_range(im0, k, opt0.len() as int)); assert(opt1[im1[k] as int] == opt0[im0[k] as int]); }
        else if k == i { assert(im1[k - 1] == im0[k - 1]); assert(im1[k] == opt0.len()); assert(in_range(im0, k - 1, opt0.len() as int)); assert(false); }
        else { assert(absorbed_ok(old0, k)); assert(im1[k] == opt0.len()); }
    }
    assert forall|k: int| 0 <= k < e && #[trigger] single(im1, k, e) implies opt1[im1[k] as int] == old0[k] by {
        if k < i {
            assert(im1[k] == im0[k]);
            if k > 0 { assert(im1[k - 1] == im0[k - 1]); }
            if k + 1 < i { assert(im1[k + 1] == im0[k + 1]); }
            if k + 1 == i { assert(im1[k + 1] == opt0.len()); }
            assert(single(im0, k, i));
            assert(in_range(im0, k, opt0.len() as int));
            assert(opt1[im1[k] as int] == opt0[im0[k] as int]);
        } else if k == i {
            assert(im1[k + 1] == opt0.len()); assert(im1[k] == opt0.len()); assert(cont(im1, k + 1));
        } else {
            assert(im1[k] == opt0.len()); assert(im1[k - 1] == opt0.len()); assert(cont(im1, k));
        }
    }
    assert forall|k: int| 0 < k < e && #[trigger] cont(im1, k) && (k == 1 || im1[k - 1] != im1[k - 2]) implies head_ok(old0, k - 1) by {
        if k < i { assert(im1[k] == im0[k]); assert(im1[k - 1] == im0[k - 1]); if k >= 2 { assert(im1[k - 2] == im0[k - 2]); } assert(cont(im0, k)); }
        else if k == i { assert(im1[k - 1] == im0[k - 1]); assert(im1[k] == opt0.len()); assert(in_range(im0, k - 1, opt0.len() as int)); assert(false); }
        else if k == i + 1 { }
        else { assert(im1[k - 1] == opt0.len()); assert(im1[k - 2] == opt0.len()); }
    }
}


pub proof fn lemma_content_init(old0: Seq<Ins>, im: Seq<usize>)
    ensures content_ok(old0, im, Seq::<Ins>::empty(), 0)
{ reveal(content_ok); }

pub proof fn lemma_content_copy(old0: Seq<Ins>, im0: Seq<usize>, opt0: Seq<Ins>, i: int, im1: Seq<usize>, opt1: Seq<Ins>, y: Ins)
    requires
        content_ok(old0, im0, opt0, i), map_ok(old0, im0, opt0, i), i < old0.len(),
        im1 == im0.update(i, opt0.len() as usize), opt0.len() < usize::MAX,
        opt1 == opt0.push(y),
    ensures content_ok(old0, im1, opt1, i + 1)
{
    reveal(content_ok); reveal(map_ok);
    assert forall|k: int| 0 < k < i + 1 && #[trigger] cont(im1, k) && (k + 1 == i + 1 || !cont(im1, k + 1)) implies
        exists|a: int| #[trigger] group_end(im1, a, k, i + 1) && fused_rel(old0, a, k + 1, opt1[im1[k] as int]) by {
        if k < i {
            assert(cont(im0, k));
            if k + 1 < i { assert(cont(im1, k + 1) == cont(im0, k + 1)); }
            let a = choose|a: int| #[trigger] group_end(im0, a, k, i) && fused_rel(old0, a, k + 1, opt0[im0[k] as int]);
            assert(in_range(im0, k, opt0.len() as int));
            assert(opt1[im1[k] as int] == opt0[im0[k] as int]);
            assert(cont(im1, a) == cont(im0, a));
            assert(group_end(im1, a, k, i + 1));
        } else {
            // k == i: im1[i] = |opt0| = im0[i-1] + 1, so position i is not absorbed
            assert(im1[k - 1] == im0[k - 1]);
            assert(false);
        }
    }
}

pub proof fn lemma_content_fuse(old0: Seq<Ins>, im0: Seq<usize>, opt0: Seq<Ins>, i: int, e: int, im1: Seq<usize>, opt1: Seq<Ins>, x: Ins)
    requires
        content_ok(old0, im0, opt0, i), map_ok(old0, im0, opt0, i), i < e <= old0.len(), e - i >= 2, opt0.len() < usize::MAX,
        im1.len() == im0.len(),
        forall|k: int| 0 <= k < i ==> #[trigger] im1[k] == im0[k],
        forall|k: int| i <= k < e ==> #[trigger] im1[k] == opt0.len(),
        opt1 == opt0.push(x), fused_rel(old0, i, e, x),
    ensures content_ok(old0, im1, opt1, e)
{
    reveal(content_ok); reveal(map_ok);
    assert(im1[i] == opt0.len());
    if i > 0 { assert(im1[i - 1] == im0[i - 1]); assert(in_range(im0, i - 1, opt0.len() as int)); }
    assert(!cont(im1, i));
    assert forall|k: int| 0 < k < e && #[trigger] cont(im1, k) && (k + 1 == e || !cont(im1, k + 1)) implies
        exists|a: int| #[trigger] group_end(im1, a, k, e) && fused_rel(old0, a, k + 1, opt1[im1[k] as int]) by {
        if k < i {
            assert(im1[k] == im0[k]); assert(im1[k - 1] == im0[k - 1]);
            assert(cont(im0, k));
            if k + 1 < i { assert(im1[k + 1] == im0[k + 1]); assert(cont(im1, k + 1) == cont(im0, k + 1)); }
            let a = choose|a: int| #[trigger] group_end(im0, a, k, i) && fused_rel(old0, a, k + 1, opt0[im0[k] as int]);
            assert(in_range(im0, k, opt0.len() as int));
            assert(opt1[im1[k] as int] == opt0[im0[k] as int]);
            assert(im1[a] == im0[a]); if a > 0 { assert(im1[a - 1] == im0[a - 1]); }
            assert(group_end(im1, a, k, e));
        } else if k == i {
            assert(false);
        } else {
            // inside the new group: only its last position qualifies
            assert(im1[k] == opt0.len()); assert(im1[k - 1] == opt0.len());
            if k + 1 < e { assert(im1[k + 1] == opt0.len()); assert(cont(im1, k + 1)); assert(false); }
            assert(k == e - 1);
            assert(group_end(im1, i, k, e));
            assert(opt1[im1[k] as int] == x);
        }
    }
}

pub proof fn lemma_content_frame(old0: Seq<Ins>, im0: Seq<usize>, im1: Seq<usize>, opt: Seq<Ins>, i: int)
    requires content_ok(old0, im0, opt, i), im1.len() == im0.len(), forall|k: int| 0 <= k < i ==> #[trigger] im1[k] == im0[k]
    ensures content_ok(old0, im1, opt, i)
{
    reveal(content_ok);
    assert forall|k: int| 0 < k < i && #[trigger] cont(im1, k) && (k + 1 == i || !cont(im1, k + 1)) implies
        exists|a: int| #[trigger] group_end(im1, a, k, i) && fused_rel(old0, a, k + 1, opt[im1[k] as int]) by {
        assert(im1[k] == im0[k]); assert(im1[k - 1] == im0[k - 1]); assert(cont(im0, k));
        if k + 1 < i { assert(im1[k + 1] == im0[k + 1]); }
        let a = choose|a: int| #[trigger] group_end(im0, a, k, i) && fused_rel(old0, a, k + 1, opt[im0[k] as int]);
        assert(im1[a] == im0[a]); if a > 0 { assert(im1[a - 1] == im0[a - 1]); }
        assert(group_end(im1, a, k, i));
    }
}

pub proof fn lemma_content_final(old0: Seq<Ins>, im: Seq<usize>, optb: Seq<Ins>, new: Seq<Ins>)
    requires
        content_ok(old0, im, optb, old0.len() as int), map_ok(old0, im, optb, old0.len() as int),
        new.len() == optb.len(),
        forall|q: int| 0 <= q < new.len() ==> #[trigger] new[q] == (retarget_im(optb[q].0, im), optb[q].1),
    ensures content_ok(old0, im, new, old0.len() as int)
{
    reveal(content_ok); reveal(map_ok);
    let n = old0.len() as int;
    assert forall|k: int| 0 < k < n && #[trigger] cont(im, k) && (k + 1 == n || !cont(im, k + 1)) implies
        exists|a: int| #[trigger] group_end(im, a, k, n) && fused_rel(old0, a, k + 1, new[im[k] as int]) by {
        let a = choose|a: int| #[trigger] group_end(im, a, k, n) && fused_rel(old0, a, k + 1, optb[im[k] as int]);
        assert(in_range(im, k, optb.len() as int));
        let q = im[k] as int;
        assert(new[q] == (retarget_im(optb[q].0, im), optb[q].1));
        assert(jt(optb[q].0) is None);
        assert(new[q] == optb[q]);
        assert(group_end(im, a, k, n));
    }
}

impl Chunk {
    pub fn optimize(&mut self)
        requires targets_ok(old(self).instructions@, old(self).instructions@.len() as int), old(self).instructions@.len() < usize::MAX
        ensures final(self).instructions@.len() <= old(self).instructions@.len(),
                exists|im: Seq<usize>| final_ok(old(self).instructions@, im, final(self).instructions@)
                    && content_ok(old(self).instructions@, im, final(self).instructions@, old(self).instructions@.len() as int),
    {
        let mut old_instructions = std::mem::take(&mut self.instructions);
        let mut optimized: Vec<Ins> = Vec::with_capacity(old_instructions.len());
        let mut index_map: Vec<usize> = vec![0; old_instructions.len() + 1];
        let mut is_jump_target: Vec<bool> = vec![false; old_instructions.len()];
        let ghost old0 = old_instructions@;
        let ghost n = old0.len() as int;
        for (instr, _) in it: &old_instructions
            invariant
                is_jump_target.len() == n, old_instructions@ == old0, n == old0.len(),
                forall|j: int| 0 <= j < n ==> #[trigger] is_jump_target@[j] == is_tgt_upto(old0, j, it.index@),
        {
            proof { assert(*instr == old0[it.index@].0); }
            let ghost before = is_jump_target@;
            if let Instruction::Jump(t)
            | Instruction::PopJumpIfFalse(t)
            | Instruction::JumpIfFalseOrPop(t)
            | Instruction::JumpIfTrueOrPop(t)
            | Instruction::Iterate(t) = instr
            { if *t < is_jump_target.len()
            {
                is_jump_target[*t] = true;
            } }
            proof {
                let p = it.index@;
                assert forall|j: int| 0 <= j < n implies #[trigger] is_jump_target@[j] == is_tgt_upto(old0, j, p + 1) by {
                    if is_tgt_upto(old0, j, p + 1) {
                        let k = choose|k: int| 0 <= k < p + 1 && #[trigger] jt(old0[k].0) == Some(j as usize);
                        if k < p { assert(is_tgt_upto(old0, j, p)); }
                    }
                    if is_tgt_upto(old0, j, p) {
                        let k = choose|k: int| 0 <= k < p && #[trigger] jt(old0[k].0) == Some(j as usize);
                        assert(0 <= k < p + 1);
                    }
                    if jt(old0[p].0) == Some(j as usize) { assert(is_tgt_upto(old0, j, p + 1)); }
                }
            }
        }

        let mut i = 0;
        let placeholder = (Instruction::WriteTop, Vec::new());
        proof {
            lemma_map_init(old0, index_map@);
            lemma_content_init(old0, index_map@);
            assert(optimized@ =~= Seq::<Ins>::empty());
            assert forall|j: int| 0 <= j < n implies #[trigger] is_jump_target@[j] == is_tgt(old0, j) by { }
        }

        while i < old_instructions.len()
            invariant
                n == old0.len(), n < usize::MAX,
                old_instructions.len() == n, index_map.len() == n + 1, is_jump_target.len() == n,
                i <= n, optimized.len() <= i,
                forall|k: int| i <= k < n ==> old_instructions@[k] == old0[k],
                forall|j: int| 0 <= j < n ==> #[trigger] is_jump_target@[j] == is_tgt(old0, j),
                map_ok(old0, index_map@, optimized@, i as int), targets_ok(old0, n),
                content_ok(old0, index_map@, optimized@, i as int),
            decreases n - i,
        {
            let ghost im_a = index_map@;
            let ghost opt_a = optimized@;
            index_map[i] = optimized.len();

            if matches!(&old_instructions[i].0, Instruction::LoadName(n) if n.as_str() != MAGICAL_DUMP_VAR)
            {
                let (instr, spans) =
                    vx_replace_at(&mut old_instructions, i, &placeholder);
                let name = match instr {
                    Instruction::LoadName(n) => n,
                    _ => vx_unreachable(),
                };
                let mut path = vec![name];
                let mut collected_spans = spans;
                let mut j = i + 1;
                let ghost im0 = index_map@;
                let ghost name0 = path@[0];
                let ghost spans0 = collected_spans;
                proof {
                    assert(old0[i as int] == (instr, spans0));
                    assert(instr == Instruction::LoadName(name0));
                    assert(name0@ != MAGICAL_DUMP_VAR@);
                    assert(head_ok(old0, i as int));
                    assert(path@ =~= path_of(old0, i as int, i as int + 1));
                    assert(spans_of(old0, i as int, i as int) =~= Seq::<Span>::empty());
                    assert(collected_spans@ =~= spans_of(old0, i as int, i as int + 1));
                }

                while j < old_instructions.len()
                    invariant
                        n == old0.len(), n < usize::MAX,
                        old_instructions.len() == n, index_map.len() == n + 1, is_jump_target.len() == n,
                        i < j <= n, optimized.len() <= i, path.len() == j - i,
                        head_ok(old0, i as int),
                        forall|k: int| j <= k < n ==> old_instructions@[k] == old0[k],
                        forall|jj: int| 0 <= jj < n ==> #[trigger] is_jump_target@[jj] == is_tgt(old0, jj),
                        index_map@[i as int] == optimized.len(),
                        forall|k: int| i < k < j ==> #[trigger] index_map@[k] == optimized.len(),
                        forall|k: int| i < k < j ==> #[trigger] absorbed_ok(old0, k),
                        forall|k: int| i < k < j ==> #[trigger] is_attr(old0, k),
                        forall|k: int| 0 <= k < i ==> #[trigger] index_map@[k] == im0[k],
                        path@[0] == name0, optimized@ == opt_a,
                        j == i + 1 ==> collected_spans == spans0,
                        path@ == path_of(old0, i as int, j as int), collected_spans@ == spans_of(old0, i as int, j as int),
                        index_map@.len() == im0.len(),
                        forall|k: int| j <= k <= n ==> #[trigger] index_map@[k] == im0[k],
                        im0 == im_a.update(i as int, opt_a.len() as usize),
                    decreases n - j,
                {
                    if is_jump_target[j] {
                        break;
                    }
                    if matches!(&old_instructions[j].0, Instruction::LoadAttr(_)) {
                        index_map[j] = optimized.len();
                        let (attr_instr, attr_spans) =
                            vx_replace_at(&mut old_instructions, j, &placeholder);
                        let attr = match attr_instr {
                            Instruction::LoadAttr(a) => a,
                            _ => vx_unreachable(),
                        };
                        proof {
                            assert(old0[j as int] == (attr_instr, attr_spans));
                            assert(attr_instr == Instruction::LoadAttr(attr));
                        }
                        path.push(attr);
                        vx_vec_extend(&mut collected_spans, attr_spans);
                        j += 1;
                    } else {
                        break;
                    }
                }

                let has_write = j < old_instructions.len()
                    && !is_jump_target[j]
                    && matches!(&old_instructions[j].0, Instruction::WriteTop);

                if has_write {
                    index_map[j] = optimized.len();
                    let ghost x = (Instruction::WritePath(path), collected_spans);
                    optimized.push((Instruction::WritePath(path), collected_spans));
                    proof {
                        lemma_fuse(old0, im_a, opt_a, i as int, j as int + 1, index_map@, optimized@, x);
                        lemma_content_fuse(old0, im_a, opt_a, i as int, j as int + 1, index_map@, optimized@, x);
                    }
                    i = j + 1;
                    continue;
                } else if path.len() > 1 {
                    let ghost x = (Instruction::LoadPath(path), collected_spans);
                    optimized.push((Instruction::LoadPath(path), collected_spans));
                    proof {
                        assert(is_attr(old0, j as int - 1));
                        lemma_fuse(old0, im_a, opt_a, i as int, j as int, index_map@, optimized@, x);
                        lemma_content_fuse(old0, im_a, opt_a, i as int, j as int, index_map@, optimized@, x);
                    }
                    i = j;
                    continue;
                }
                proof {
                    assert(j == i + 1);
                    assert(path@ =~= seq![name0]);
                }
                optimized.push((Instruction::LoadName(path.pop().unwrap()), collected_spans));
                proof {
                    assert(optimized@[optimized.len() - 1] == old0[i as int]);
                    assert(index_map@ =~= im_a.update(i as int, opt_a.len() as usize));
                    lemma_copy(old0, im_a, opt_a, i as int, index_map@, optimized@);
                    lemma_content_copy(old0, im_a, opt_a, i as int, index_map@, optimized@, old0[i as int]);
                }
                i += 1;
                continue;
            }

            optimized.push(vx_replace_at(&mut old_instructions, i, &placeholder));
            proof {
                lemma_copy(old0, im_a, opt_a, i as int, index_map@, optimized@);
                lemma_content_copy(old0, im_a, opt_a, i as int, index_map@, optimized@, old0[i as int]);
            }
            i += 1;
        }

        let ghost im_b = index_map@;
        index_map[old_instructions.len()] = optimized.len();
        proof { lemma_map_frame(old0, im_b, index_map@, optimized@, n); lemma_content_frame(old0, im_b, index_map@, optimized@, n); }
        let ghost optb = optimized@;
        let ghost im = index_map@;
        proof { assert(targets_ok(optb, n)) by { reveal(map_ok); } }

        // R12: `for (instr, _) in &mut optimized { match instr { .. } }`
        let mut k = 0;
        while k < optimized.len()
            invariant
                k <= optimized.len(), optimized.len() == optb.len(), index_map@ == im, im.len() == n + 1,
                targets_ok(optb, n),
                forall|q: int| 0 <= q < k ==> #[trigger] optimized@[q] == (retarget_im(optb[q].0, im), optb[q].1),
                forall|q: int| k <= q < optimized.len() ==> #[trigger] optimized@[q] == optb[q],
            decreases optimized.len() - k,
        {
            proof { assert(optimized@[k as int] == optb[k as int]); assert(jt(optb[k as int].0) is Some ==> jt(optb[k as int].0)->Some_0 <= n); }
            let ghost before = optimized@;
            let (instr, _) = &mut optimized[k];
            match instr {
                Instruction::Jump(target) => {
                    *target = index_map[*target];
                }
                Instruction::PopJumpIfFalse(target) => {
                    *target = index_map[*target];
                }
                Instruction::JumpIfFalseOrPop(target) => {
                    *target = index_map[*target];
                }
                Instruction::JumpIfTrueOrPop(target) => {
                    *target = index_map[*target];
                }
                Instruction::Iterate(target) => {
                    *target = index_map[*target];
                }
                _ => {}
            }
            proof {
                assert(optimized@[k as int] == (retarget_im(optb[k as int].0, im), optb[k as int].1));
                assert forall|q: int| 0 <= q < k implies #[trigger] optimized@[q] == (retarget_im(optb[q].0, im), optb[q].1) by { assert(optimized@[q] == before[q]); }
                assert forall|q: int| k < q < optimized.len() implies #[trigger] optimized@[q] == optb[q] by { assert(optimized@[q] == before[q]); }
            }
            k += 1;
        }
        proof {
            lemma_final(old0, im, optb, optimized@);
            lemma_content_final(old0, im, optb, optimized@);
        }
        self.instructions = optimized;
        proof {
            assert(old0 == old(self).instructions@);
            assert(final_ok(old0, im, self.instructions@));
            assert(content_ok(old0, im, self.instructions@, n));
        }
    }
}
}
fn main() {}
