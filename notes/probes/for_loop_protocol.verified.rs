use vstd::prelude::*;
verus! {

#[verifier::external_body]
pub struct Value { _p: () }
#[verifier::external_body]
pub struct CtxMap { _p: () }      // HashMap<String, Value>  (R15 projection keeps it opaque)
impl CtxMap {
    pub uninterp spec fn empty_spec(&self) -> bool;
    #[verifier::external_body] pub fn is_empty(&self) -> (r: bool) ensures r == self.empty_spec() { unimplemented!() }
    #[verifier::external_body] pub fn clear(&mut self) ensures final(self).empty_spec() { unimplemented!() }
    #[verifier::external_body] pub fn new() -> (r: Self) ensures r.empty_spec() { unimplemented!() }
}

/// ForLoopIterator abstracted to the sequence still to be yielded (its own variants are K obligations)
#[verifier::external_body]
pub struct ForLoopIterator { _p: () }
impl ForLoopIterator {
    pub uninterp spec fn rest(&self) -> Seq<(Option<Value>, Value)>;
    #[verifier::external_body]
    pub fn next(&mut self) -> (r: Option<(Option<Value>, Value)>)
        ensures old(self).rest().len() == 0 ==> r.is_none() && final(self).rest() == old(self).rest(),
                old(self).rest().len() > 0 ==> r == Some(old(self).rest()[0]) && final(self).rest() == old(self).rest().drop_first(),
    { unimplemented!() }
    #[verifier::external_body]
    pub fn size_hint(&self) -> (r: (usize, Option<usize>))
        ensures r.0 == self.rest().len(), r.1 == Some(self.rest().len() as usize)
    { unimplemented!() }
}

pub struct Loop {
    pub index0: usize,
    pub first: bool,
    pub last: bool,
    pub length: usize,
}

impl Loop {
    #[inline(always)]
    fn index(&self) -> (r: usize)
        requires self.index0 < usize::MAX
        ensures r == self.index0 + 1
    {
        self.index0 + 1
    }

    #[inline(always)]
    fn advance(&mut self)
        requires old(self).index0 + 1 < usize::MAX
        ensures final(self).index0 == old(self).index0 + 1, !final(self).first,
                final(self).last == (final(self).index0 + 1 == old(self).length), final(self).length == old(self).length
    {
        self.index0 += 1;
        self.first = false;
        self.last = self.index() == self.length;
    }
}

pub struct ForLoop {
    pub iterator: ForLoopIterator,
    pub loop_data: Loop,
    pub end_ip: usize,
    pub context: CtxMap,
    pub current_values: (Option<Value>, Value),
    pub iterated: bool,
    pub is_comprehension: bool,
}

/// abstract protocol state: `all` = every item of the container, `k` = number of advances done
pub open spec fn inv(fl: &ForLoop, all: Seq<(Option<Value>, Value)>, k: int) -> bool {
    &&& 0 <= k <= all.len()
    &&& all.len() < usize::MAX
    &&& fl.iterator.rest() == all.subrange(k, all.len() as int)
    &&& fl.loop_data.length == all.len()
    &&& fl.iterated == (k >= 1)
    &&& (k >= 1 ==> fl.current_values == all[k - 1])
    // loop.index0 / first / last as documented, for the iteration being rendered
    &&& (k <= 1 ==> fl.loop_data.index0 == 0 && fl.loop_data.first)
    &&& (k >= 1 ==> fl.loop_data.index0 == k - 1 && fl.loop_data.first == (k == 1) && fl.loop_data.last == (k == all.len()))
    &&& (k == 0 ==> fl.loop_data.last == (all.len() == 1))
    // interpreter convention: end_ip is 0 exactly until the first Iterate has run
    &&& (fl.end_ip == 0) == (k == 0)
}

impl ForLoop {
    #[inline(always)]
    pub fn advance(&mut self, Ghost(all): Ghost<Seq<(Option<Value>, Value)>>, Ghost(k): Ghost<int>)
        requires inv(old(self), all, k), k < all.len(), // `Iterate` calls advance only when !is_over()
        ensures
            // after the interpreter's `for_loop.end_ip = *end_ip` (non-zero) the invariant holds for k+1
            final(self).end_ip == old(self).end_ip,
            inv(&ForLoop { end_ip: 1, ..*final(self) }, all, k + 1),
            k >= 1 ==> final(self).context.empty_spec(),      // per-iteration assignments are gone
    {
        if let Some((key, value)) = self.iterator.next() {
            self.current_values = (key, value);
            self.iterated = true;
            if self.end_ip != 0 {
                self.loop_data.advance();
                if !self.context.is_empty() {
                    self.context.clear();
                }
            }
        }
        proof {
            assert(all.subrange(k, all.len() as int).drop_first() =~= all.subrange(k + 1, all.len() as int));
            assert(all.subrange(k, all.len() as int)[0] == all[k]);
        }
    }

    #[inline(always)]
    pub fn is_over(&self, Ghost(all): Ghost<Seq<(Option<Value>, Value)>>, Ghost(k): Ghost<int>) -> (r: bool)
        requires inv(self, all, k)
        ensures r == (k == all.len())
    {
        self.iterator.size_hint().0 == 0
    }
}
}
fn main() {}
