use vstd::prelude::*;
verus! {

#[verifier::external_body]
pub struct Error { _p: () }
pub type TeraResult<T> = Result<T, Error>;
impl Error {
    #[verifier::external_body]
    pub fn message(message: String) -> Error { unimplemented!() }
    #[verifier::external_body]
    pub fn message_str(message: &str) -> Error { unimplemented!() }
}
#[verifier::external_body]
pub fn vx_fmt() -> String { unimplemented!() }

pub assume_specification[ i128::checked_neg ](a: i128) -> (r: Option<i128>)
    ensures a != i128::MIN ==> r == Some((-a) as i128), a == i128::MIN ==> r.is_none();

pub const MAX_RANGE_LEN: usize = 100_000;
pub open spec fn at(start: int, step: int, i: int) -> int { start + i * step }


pub proof fn lemma_len_pos(span: int, step: int, len: int)
    requires span >= 0, step > 0, len == (span + step - 1) / step
    ensures len >= 0, (len - 1) * step < span <= len * step || (len == 0 && span == 0)
{
    vstd::arithmetic::div_mod::lemma_fundamental_div_mod(span + step - 1, step);
    vstd::arithmetic::div_mod::lemma_mod_bound(span + step - 1, step);
    let q = (span + step - 1) / step;
    let r = (span + step - 1) % step;
    assert(span + step - 1 == step * q + r);
    assert(0 <= r < step);
    assert(step * q == q * step) by (nonlinear_arith);
    assert((q - 1) * step == q * step - step) by (nonlinear_arith);
    if q < 0 { assert(step * q <= -step) by (nonlinear_arith) requires q <= -1, step > 0; }
}

pub proof fn lemma_within(start: int, end: int, step: int, len: int, i: int)
    requires step != 0, 0 <= i < len,
        step > 0 ==> start <= end && (len - 1) * step < end - start,
        step < 0 ==> start > end && (len - 1) * (-step) < start - end,
        i128::MIN <= start <= i128::MAX, i128::MIN <= end <= i128::MAX, i128::MIN <= step <= i128::MAX, len <= 100000,
        step > 0 ==> end - start <= i128::MAX, step < 0 ==> start - end <= i128::MAX,
    ensures i128::MIN <= i * step <= i128::MAX, i128::MIN <= start + i * step <= i128::MAX,
        step > 0 ==> start <= start + i * step < end,
        step < 0 ==> end < start + i * step <= start,
{
    if step > 0 {
        assert(i * step <= (len - 1) * step) by (nonlinear_arith) requires 0 <= i <= len - 1, step > 0;
        assert(i * step >= 0) by (nonlinear_arith) requires 0 <= i, step > 0;
    } else {
        assert(i * (-step) <= (len - 1) * (-step)) by (nonlinear_arith) requires 0 <= i <= len - 1, step < 0;
        assert(i * (-step) >= 0) by (nonlinear_arith) requires 0 <= i, step < 0;
        assert(i * (-step) == -(i * step)) by (nonlinear_arith);
    }
}

pub proof fn lemma_post(start: int, end: int, step: int, len: int)
    requires step != 0, len >= 0,
        step > 0 ==> (start <= end && (len - 1) * step < end - start <= len * step) || (len == 0 && start >= end),
        step < 0 && start > end ==> (len - 1) * (-step) < start - end <= len * (-step),
        step < 0 && start <= end ==> len == 0,
    ensures
        step > 0 ==> (forall|i: int| 0 <= i < len ==> #[trigger] at(start, step, i) < end) && at(start, step, len) >= end,
        step < 0 ==> (forall|i: int| 0 <= i < len ==> #[trigger] at(start, step, i) > end) && at(start, step, len) <= end,
{
    if step > 0 {
        assert forall|i: int| 0 <= i < len implies #[trigger] at(start, step, i) < end by {
            assert(i * step <= (len - 1) * step) by (nonlinear_arith) requires 0 <= i <= len - 1, step > 0;
        }
        if len == 0 { assert(0 * step == 0) by (nonlinear_arith); }
    } else {
        assert forall|i: int| 0 <= i < len implies #[trigger] at(start, step, i) > end by {
            assert(i * (-step) <= (len - 1) * (-step)) by (nonlinear_arith) requires 0 <= i <= len - 1, step < 0;
            assert(i * (-step) == -(i * step)) by (nonlinear_arith);
        }
        assert(len * (-step) == -(len * step)) by (nonlinear_arith);
        if len == 0 { assert(0 * step == 0) by (nonlinear_arith); }
    }
}

// kwargs extraction abstracted: the three lookups are parameters
pub fn range(start_kw: Option<i128>, end_kw: i128, step_kw: Option<i128>) -> (res: TeraResult<Vec<i128>>)
    ensures
        ({
            let start = match start_kw { Some(s) => s, None => 0i128 };
            let step = match step_kw { Some(s) => s, None => 1i128 };
            let end = end_kw;
            &&& step == 0 ==> res.is_err()
            &&& (start > end && step > 0) ==> res.is_err()
            &&& res.is_ok() ==> ({
                    let v = res->Ok_0@;
                    &&& v.len() <= MAX_RANGE_LEN
                    &&& forall|i: int| 0 <= i < v.len() ==> v[i] == at(start as int, step as int, i)
                    // every element is on the near side of `end`, and the next one would not be
                    &&& step > 0 ==> (forall|i: int| 0 <= i < v.len() ==> #[trigger] at(start as int, step as int, i) < end) && at(start as int, step as int, v.len() as int) >= end
                    &&& step < 0 ==> (forall|i: int| 0 <= i < v.len() ==> #[trigger] at(start as int, step as int, i) > end) && at(start as int, step as int, v.len() as int) <= end
                })
        })
{
    let start = match start_kw { Some(s) => s, None => 0 };   // kwargs.get::<i128>("start")?.unwrap_or_default()
    let end = end_kw;
    let step_by = match step_kw { Some(s) => s, None => 1 };
    if start > end && step_by > 0 {
        return Err(Error::message_str(
            "Function `range` was called with a `start` argument greater than the `end` one",
        ));
    }
    if step_by == 0 {
        return Err(Error::message_str(
            "Function `range` was called with a `step_by` argument of 0",
        ));
    }

    let len = if step_by > 0 {
        let span = match end.checked_sub(start) { Some(x) => x, None => return Err(Error::message_str("overflow")) };
        (match span.checked_add(step_by - 1) { Some(x) => x, None => return Err(Error::message_str("overflow")) }) / step_by
    } else if start <= end {
        0
    } else {
        let step = match step_by.checked_neg() { Some(x) => x, None => return Err(Error::message_str("overflow")) };
        let span = match start.checked_sub(end) { Some(x) => x, None => return Err(Error::message_str("overflow")) };
        (match span.checked_add(step - 1) { Some(x) => x, None => return Err(Error::message_str("overflow")) }) / step
    };
    if len > MAX_RANGE_LEN as i128 {
        return Err(Error::message(vx_fmt()));
    }

    let mut values = Vec::with_capacity(len as usize);
    proof {
        // facts about len
        if step_by > 0 {
            let span = (end - start) as int;
            lemma_len_pos(span, step_by as int, len as int);
        } else if start > end {
            let span = (start - end) as int;
            lemma_len_pos(span, -(step_by as int), len as int);
        }
    }
    for i in iter: 0..len
        invariant
            0 <= len <= MAX_RANGE_LEN,
            values.len() == i,
            step_by != 0,
            step_by > 0 ==> start <= end && (len - 1) * step_by < end - start <= len * step_by || len == 0 && start == end,
            step_by > 0 && len == 0 ==> start >= end,
            step_by < 0 && start > end ==> (len - 1) * (-step_by) < start - end <= len * (-step_by),
            step_by < 0 && start <= end ==> len == 0,
            step_by > 0 ==> end - start <= i128::MAX, step_by < 0 && start > end ==> start - end <= i128::MAX,
            forall|k: int| 0 <= k < values.len() ==> values@[k] == at(start as int, step_by as int, k),
    {
        proof {
            lemma_within(start as int, end as int, step_by as int, len as int, i as int);
        }
        values.push(start + i * step_by);
    }
    proof {
        lemma_post(start as int, end as int, step_by as int, len as int);
    }
    Ok(values)
}
}
fn main() {}
