use vstd::prelude::*;
verus! {

#[verifier::external_body]
pub struct Value { _p: () }
impl Clone for Value { #[verifier::external_body] fn clone(&self) -> (r: Value) ensures r == *self { unimplemented!() } }
impl Value {
    pub uninterp spec fn undefined_spec(&self) -> bool;
    pub uninterp spec fn the_undefined() -> Value;
    #[verifier::external_body] pub fn is_undefined(&self) -> (r: bool) ensures r == self.undefined_spec() { unimplemented!() }
    #[verifier::external_body] pub fn undefined() -> (r: Value) ensures r == Self::the_undefined(), r.undefined_spec() { unimplemented!() }
}
pub type Name = Seq<char>;

// opaque maps with a lookup view (BTreeMap<String,Value>, Context.data)
#[verifier::external_body]
pub struct VarMap { _p: () }
impl VarMap {
    pub uninterp spec fn get_spec(&self, name: Name) -> Option<Value>;
    #[verifier::external_body]
    pub fn get(&self, name: &str) -> (r: Option<&Value>)
        ensures r.is_some() == self.get_spec(name@).is_some(), r.is_some() ==> *r.unwrap() == self.get_spec(name@)->Some_0
    { unimplemented!() }
}
pub struct Context { pub data: VarMap }

#[verifier::external_body]
pub struct ForLoop { _p: () }
impl ForLoop {
    pub uninterp spec fn get_spec(&self, name: Name) -> Option<Value>;   // its own body: loop.* names, locals, value, key
    #[verifier::external_body]
    pub fn get(&self, name: &str) -> (r: Option<Value>) ensures r == self.get_spec(name@) { unimplemented!() }
}

pub struct State<'t> {
    pub for_loops: Vec<ForLoop>,
    pub set_variables: VarMap,
    pub context: &'t Context,
    pub global_context: Option<&'t Context>,
    pub include_parent: Option<&'t State<'t>>,
}

// ---- the documented resolution order, as a spec ----
pub open spec fn loops_lookup(loops: Seq<ForLoop>, name: Name, upto: int) -> Option<Value> decreases upto {
    // innermost (last) first among loops[0..upto)
    if upto <= 0 { None } else {
        match loops[upto - 1].get_spec(name) { Some(v) => Some(v), None => loops_lookup(loops, name, upto - 1) }
    }
}
pub open spec fn depth(s: &State) -> nat decreases s {
    match s.include_parent { Some(p) => 1 + depth(p), None => 0 }
}
pub open spec fn resolve(s: &State, name: Name) -> Value decreases s {
    match loops_lookup(s.for_loops@, name, s.for_loops.len() as int) {
        Some(v) => v,
        None => match s.set_variables.get_spec(name) {
            Some(v) => v,
            None => {
                let from_parent = match s.include_parent { Some(p) => resolve(p, name), None => Value::the_undefined() };
                if s.include_parent is Some && !from_parent.undefined_spec() { from_parent }
                else { match s.context.data.get_spec(name) {
                    Some(v) => v,
                    None => match s.global_context {
                        Some(g) => match g.data.get_spec(name) { Some(v) => v, None => Value::the_undefined() },
                        None => Value::the_undefined(),
                    }
                } }
            }
        }
    }
}

impl<'t> State<'t> {
    pub fn get_value(&self, name: &str) -> (r: Value)
        ensures r == resolve(self, name@)
        decreases self
    {
        // R21: `for forloop in self.for_loops.iter().rev() { .. }`
        let mut idx = self.for_loops.len();
        while idx > 0
            invariant idx <= self.for_loops.len(),
                loops_lookup(self.for_loops@, name@, self.for_loops.len() as int) == loops_lookup(self.for_loops@, name@, idx as int),
            decreases idx
        {
            idx -= 1;
            let forloop = &self.for_loops[idx];
            if let Some(v) = forloop.get(name) {
                return v;
            }
        }

        if let Some(val) = self.set_variables.get(name) {
            return val.clone();
        }

        if let Some(parent) = self.include_parent {
            let val = parent.get_value(name);
            if !val.is_undefined() {
                return val;
            }
        }

        if let Some(val) = self.context.data.get(name) {
            return val.clone();
        }

        if let Some(global) = self.global_context {
            if let Some(val) = global.data.get(name)
        {
            return val.clone();
        } }

        Value::undefined()
    }
}
}
fn main() {}
