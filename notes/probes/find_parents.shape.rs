use vstd::prelude::*;
verus! {

#[verifier::external_body]
pub struct Error { _p: () }
impl Error {
    #[verifier::external_body]
    pub fn circular_extend(tpl: &String, chain: Vec<String>) -> Error { unimplemented!() }
    #[verifier::external_body]
    pub fn missing_parent(cur: &String, parent: &String) -> Error { unimplemented!() }
}

// opaque registry with spec accessors (prelude)
#[verifier::external_body]
pub struct Tera { _p: () }
pub struct Template { pub name: String, pub extends: Option<String> }

impl Tera {
    /// names of registered templates
    pub uninterp spec fn names(&self) -> Set<Seq<char>>;
    /// resolution function (exact, then prefixes) as a spec map
    pub uninterp spec fn resolve_spec(&self, name: Seq<char>) -> Option<Seq<char>>;
    pub uninterp spec fn tpl_spec(&self, name: Seq<char>) -> Template;

    #[verifier::external_body]
    pub fn resolve_template_name(&self, name: &str) -> (r: Option<&str>)
        ensures
            r.is_some() == self.resolve_spec(name@).is_some(),
            r.is_some() ==> r.unwrap()@ == self.resolve_spec(name@).unwrap() && self.names().contains(r.unwrap()@),
    { unimplemented!() }

    #[verifier::external_body]
    pub fn get_tpl(&self, name: &str) -> (r: &Template)
        requires self.names().contains(name@)
        ensures *r == self.tpl_spec(name@), r.name@ == name@
    { unimplemented!() }
}

#[verifier::external_body]
fn vx_contains(v: &Vec<String>, y: &str) -> (r: bool)
    ensures r == exists|i: int| 0 <= i < v.len() && v[i]@ == y@
{ unimplemented!() }

#[verifier::external_body]
fn vx_str_eq(a: &str, b: &String) -> (r: bool) ensures r == (a@ == b@) { unimplemented!() }

pub fn find_parents(
    tera: &Tera,
    start: &Template,
    template: &Template,
    mut parents: Vec<String>,
) -> (res: Result<Vec<String>, Error>)
    requires
        tera.names().finite(),
        // parents so far are distinct registered names
        forall|i: int| 0 <= i < parents.len() ==> tera.names().contains(#[trigger] parents[i]@),
        forall|i: int, j: int| 0 <= i < j < parents.len() ==> parents[i]@ != parents[j]@,
    ensures
        res.is_ok() ==> forall|i: int, j: int| 0 <= i < j < res->Ok_0.len() ==> res->Ok_0[i]@ != res->Ok_0[j]@,
    decreases tera.names().len() - parents.len(),
{
    match &template.extends {
        Some(p) => match tera.resolve_template_name(p.as_str()) {
            Some(resolved) => {
                if vx_str_eq(resolved, &start.name) || vx_contains(&parents, resolved) {
                    let mut chain = parents.clone();
                    chain.push(resolved.to_string());
                    return Err(Error::circular_extend(&start.name, chain));
                }
                let parent = tera.get_tpl(resolved);
                parents.push(parent.name.clone());
                proof { admit(); }
                find_parents(tera, start, parent, parents)
            }
            None => Err(Error::missing_parent(&template.name, p)),
        },
        None => {
            parents.reverse();
            proof { admit(); }
            Ok(parents)
        }
    }
}
}
fn main() {}
