use vstd::prelude::*;
verus! {

#[verifier::external_body]
pub struct Error { _p: () }
impl Error {
    #[verifier::external_body]
    pub fn circular_include(tpl: &str, chain: Vec<String>) -> Error { unimplemented!() }
}
#[verifier::external_body]
pub struct Tera { _p: () }
pub type Name = Seq<char>;
pub struct Template { pub name: String, pub includes: IncludeKeys }

/// `current.include_calls.keys()` collected and sorted: opaque, with its view
#[verifier::external_body]
pub struct IncludeKeys { _p: () }
impl IncludeKeys {
    pub uninterp spec fn view_sorted(&self) -> Seq<Name>;
    #[verifier::external_body]
    pub fn sorted_names(&self) -> (r: Vec<String>)        // `let mut names: Vec<&String> = ….keys().collect(); names.sort();`
        ensures r@.map_values(|s: String| s@) == self.view_sorted()
    { unimplemented!() }
}

impl Tera {
    pub uninterp spec fn names(&self) -> Set<Name>;
    pub uninterp spec fn resolve_spec(&self, name: Name) -> Option<Name>;
    pub uninterp spec fn tpl_spec(&self, name: Name) -> Template;
    #[verifier::external_body]
    pub fn resolve_template_name(&self, name: &str) -> (r: Option<&str>)
        ensures r.is_some() == self.resolve_spec(name@).is_some(),
                r.is_some() ==> r.unwrap()@ == self.resolve_spec(name@)->Some_0 && self.names().contains(r.unwrap()@),
    { unimplemented!() }
    #[verifier::external_body]
    pub fn get_tpl(&self, name: &str) -> (r: &Template)
        requires self.names().contains(name@)
        ensures *r == self.tpl_spec(name@)
    { unimplemented!() }
}

#[verifier::external_body]
pub struct StrSet { _p: () }    // HashSet<String>
impl StrSet {
    pub uninterp spec fn view(&self) -> Set<Name>;
    #[verifier::external_body] pub fn new() -> (r: Self) ensures r.view() == Set::<Name>::empty() { unimplemented!() }
    #[verifier::external_body] pub fn contains(&self, s: &str) -> (r: bool) ensures r == self.view().contains(s@) { unimplemented!() }
    #[verifier::external_body] pub fn insert(&mut self, s: String) ensures final(self).view() == old(self).view().insert(s@) { unimplemented!() }
}
#[verifier::external_body]
fn vx_contains(v: &Vec<String>, y: &str) -> (r: bool) ensures r == exists|i: int| 0 <= i < v.len() && #[trigger] v[i]@ == y@ { unimplemented!() }
#[verifier::external_body]
fn vx_to_string(a: &str) -> (r: String) ensures r@ == a@ { unimplemented!() }
#[verifier::external_body]
fn vx_clone_vec(v: &Vec<String>) -> (r: Vec<String>) ensures r@ == v@ { unimplemented!() }

#[verifier::exec_allows_no_decreases_clause]
fn walk(
    tera: &Tera,
    current: &Template,
    stack: &mut Vec<String>,
    visited: &mut StrSet,
) -> (res: Result<(), Error>)
    ensures res.is_ok() ==> final(stack)@.len() == old(stack)@.len(),
{
    let names = current.includes.sorted_names();
    let mut ni = 0;
    while ni < names.len()
        invariant stack@.len() == old(stack)@.len(),
    {
        let include_name = &names[ni];
        ni += 1;
        let Some(resolved) = tera.resolve_template_name(include_name.as_str()) else {
            continue;
        };
        if vx_contains(stack, resolved) {
            let mut chain = vx_clone_vec(stack);
            chain.push(vx_to_string(resolved));
            return Err(Error::circular_include(resolved, chain));
        }
        if visited.contains(resolved) {
            continue;
        }
        stack.push(vx_to_string(resolved));
        walk(tera, tera.get_tpl(resolved), stack, visited)?;
        stack.pop();
        visited.insert(vx_to_string(resolved));
    }
    Ok(())
}
}
fn main() {}
