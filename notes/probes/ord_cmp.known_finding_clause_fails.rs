use vstd::prelude::*;
use std::cmp::Ordering;
verus! {

#[verifier::external_body]
pub struct SmartString { _p: () }
#[verifier::external_body]
pub struct Map { _p: () }
#[verifier::external_body]
pub struct ArrV { _p: () }   // Arc<Vec<Value>> kept opaque for this unit
#[verifier::external_body]
pub struct BytesV { _p: () }

pub enum ValueInner {
    Undefined, None, Bool(bool), U64(u64), I64(i64), F64(f64), U128(Box<u128>), I128(Box<i128>),
    String(SmartString), Array(ArrV), Map(Map), Bytes(BytesV),
}
pub struct Value { pub inner: ValueInner }

// abstract relations with the contracts proved elsewhere (K on scalars) / assumed from std (composites)
pub uninterp spec fn eq_spec(a: &Value, b: &Value) -> bool;
pub uninterp spec fn pcmp_spec(a: &Value, b: &Value) -> Option<Ordering>;
pub open spec fn rank(v: &ValueInner) -> int {
    match v {
        ValueInner::Bool(_) => 0,
        ValueInner::U64(_) | ValueInner::I64(_) | ValueInner::F64(_) | ValueInner::U128(_) | ValueInner::I128(_) => 1,
        ValueInner::String(_) => 2, ValueInner::Array(_) => 3, ValueInner::Map(_) => 4, ValueInner::Bytes(_) => 5,
        ValueInner::None => 6, ValueInner::Undefined => 7,
    }
}
pub open spec fn scalar(v: &ValueInner) -> bool { !(v is Array) && !(v is Map) }

// contracts of partial_cmp that engine K proves on scalars:
pub broadcast proof fn ax_pcmp_scalar(a: &Value, b: &Value)
    requires scalar(&a.inner), scalar(&b.inner)
    ensures
        (#[trigger] pcmp_spec(a, b)).is_some() == (rank(&a.inner) == rank(&b.inner)),
        pcmp_spec(a, b) == Some(Ordering::Equal) ==> eq_spec(a, b),
{ admit(); }
// what std gives for composites (nothing about incomparable elements!)
pub broadcast proof fn ax_pcmp_any(a: &Value, b: &Value)
    ensures (#[trigger] pcmp_spec(a, b)).is_some() ==> rank(&a.inner) == rank(&b.inner),
            pcmp_spec(a, b) == Some(Ordering::Equal) ==> eq_spec(a, b),
{ admit(); }
pub broadcast proof fn ax_eq_rank(a: &Value, b: &Value)
    ensures #[trigger] eq_spec(a, b) ==> rank(&a.inner) == rank(&b.inner)
{ admit(); }

#[verifier::external_body]
pub fn value_partial_cmp(a: &Value, b: &Value) -> (r: Option<Ordering>) ensures r == pcmp_spec(a, b) { unimplemented!() }

fn type_order(v: &ValueInner) -> (r: u8) ensures r as int == rank(v) {
    match v {
        ValueInner::Bool(_) => 0,
        ValueInner::U64(_)
        | ValueInner::I64(_)
        | ValueInner::F64(_)
        | ValueInner::U128(_)
        | ValueInner::I128(_) => 1,
        ValueInner::String(_) => 2,
        ValueInner::Array(_) => 3,
        ValueInner::Map(_) => 4,
        ValueInner::Bytes(_) => 5,
        ValueInner::None => 6,
        ValueInner::Undefined => 7,
    }
}

// <Value as Ord>::cmp lifted by R19; nested fn type_order hoisted
fn value_ord_cmp(self_: &Value, other: &Value) -> (r: Ordering)
    ensures
        // clause 1 (scalars): Equal only if ==
        scalar(&self_.inner) && scalar(&other.inner) ==> (r == Ordering::Equal ==> eq_spec(self_, other)),
        // clause 2 (all values): Equal only if ==        <-- expected to FAIL for Array/Map (D4)
        r == Ordering::Equal ==> eq_spec(self_, other),
{
    broadcast use ax_pcmp_scalar, ax_pcmp_any, ax_eq_rank;
    if let Some(res) = value_partial_cmp(self_, other) {
        return res;
    }
    type_order(&self_.inner).cmp(&type_order(&other.inner))
}
}
fn main() {}
