use vstd::prelude::*;
verus! {

pub assume_specification[ i128::saturating_add ](a: i128, b: i128) -> (r: i128)
    ensures
        i128::MIN <= a + b <= i128::MAX ==> r == a + b,
        a + b > i128::MAX ==> r == i128::MAX,
        a + b < i128::MIN ==> r == i128::MIN;

pub assume_specification[ <i128 as Ord>::clamp ](a: i128, lo: i128, hi: i128) -> (r: i128)
    ensures lo <= hi ==> r == if a < lo { lo } else if a > hi { hi } else { a };

// ---- Python slice semantics (spec), after CPython PySlice_AdjustIndices ----
pub open spec fn py_bound(param: Option<i128>, default: int, len: int, lo: int, hi: int) -> int {
    match param {
        None => default,
        Some(p) => {
            let q = if p < 0 { p + len } else { p as int };
            if q < lo { lo } else if q > hi { hi } else { q }
        }
    }
}
pub open spec fn py_start(start: Option<i128>, len: int, step: int) -> int {
    if step > 0 { py_bound(start, 0, len, 0, len) } else { py_bound(start, len - 1, len, -1, len - 1) }
}
pub open spec fn py_stop(end: Option<i128>, len: int, step: int) -> int {
    if step > 0 { py_bound(end, len, len, 0, len) } else { py_bound(end, -1, len, -1, len - 1) }
}
/// position k of the selection, and whether position k is selected
pub open spec fn py_pos(s: int, step: int, k: int) -> int { s + k * step }
pub open spec fn py_sel(s: int, e: int, step: int, k: int) -> bool {
    if step > 0 { py_pos(s, step, k) < e } else { py_pos(s, step, k) > e }
}

fn slice_items<T: Clone>(items: &[T], start: Option<i128>,
    end: Option<i128>, step: i128) -> (out: Vec<T>)
    requires step != 0, items.len() < i128::MAX,
    ensures
        ({
            let len = items.len() as int;
            let s = py_start(start, len, step as int);
            let e = py_stop(end, len, step as int);
            let n = out.len() as int;
            &&& forall|k: int| 0 <= k < n ==> py_sel(s, e, step as int, k)
            &&& !py_sel(s, e, step as int, n)
            &&& forall|k: int| 0 <= k < n ==> 0 <= #[trigger] py_pos(s, step as int, k) < len && cloned(items[py_pos(s, step as int, k)], out[k])
        })
{
    let len = items.len() as i128;
    let (lo, hi) =
        if step > 0 { (0, len) } else { (-1, len - 1) };
    let resolve =
        |param: Option<i128>, default: i128| -> (r: i128)
            requires lo <= hi, lo <= default <= hi,
            ensures r == py_bound(param, default as int, len as int, lo as int, hi as int)
            {
                match param {
                    None => default,
                    Some(p) => {
                        let p = if p < 0 { p.saturating_add(len) } else { p };
                        p.clamp(lo, hi)
                    }
                }
            };
    let s = resolve(start, if step > 0 { lo } else { hi });
    let e = resolve(end, if step > 0 { hi } else { lo });
    let mut out = Vec::new();
    let mut i = s;
    let ghost mut m: int = s as int;
    proof { assert(0 * (step as int) == 0) by (nonlinear_arith); }
    while if step > 0 { i < e } else { i > e }
        invariant
            step != 0, len == items.len(), len < i128::MAX,
            s == py_start(start, len as int, step as int),
            e == py_stop(end, len as int, step as int),
            step > 0 ==> 0 <= s <= len && 0 <= e <= len,
            step < 0 ==> -1 <= s <= len - 1 && -1 <= e <= len - 1,
            m == py_pos(s as int, step as int, out.len() as int),
            step > 0 ==> m >= s && i == (if m <= i128::MAX { m } else { i128::MAX as int }),
            step < 0 ==> m <= s && i == (if m >= i128::MIN { m } else { i128::MIN as int }),
            forall|k: int| 0 <= k < out.len() ==> py_sel(s as int, e as int, step as int, k),
            forall|k: int| 0 <= k < out.len() ==> 0 <= #[trigger] py_pos(s as int, step as int, k) < len && cloned(items[py_pos(s as int, step as int, k)], out[k]),
        decreases if step > 0 { if i < e { e - i } else { 0 } } else { if i > e { i - e } else { 0 } },
    {
        proof {
            if step > 0 { assert(i < e); assert(m == i); } else { assert(i > e); assert(m == i); }
            let n = out.len() as int;
            assert((n + 1) * (step as int) == n * (step as int) + step) by (nonlinear_arith);
        }
        out.push(items[i as usize].clone());
        i = i.saturating_add(step);
        proof {
            m = m + step;
        }
    }
    out
}

}
fn main() {}
