use vstd::prelude::*;
verus! {

#[verifier::external_body]
pub struct Error { _p: () }
pub type TeraResult<T> = Result<T, Error>;
#[verifier::external_body]
pub struct IoError { _p: () }
pub type IoResult<T> = Result<T, IoError>;
impl Error {
    #[verifier::external_body]
    pub fn from_io(e: IoError) -> Error { unimplemented!() }
    #[verifier::external_body]
    pub fn rendering(msg: String) -> Error { unimplemented!() }
}
#[verifier::external_body]
pub fn vx_fmt() -> String { unimplemented!() }

pub struct VxWriter { pub bytes: Vec<u8> }
impl VxWriter {
    #[verifier::external_body]
    pub fn write_all(&mut self, data: &[u8]) -> (r: IoResult<()>)
        ensures r.is_ok() ==> final(self).bytes@ == old(self).bytes@ + data@,
                r.is_err() ==> old(self).bytes@.is_prefix_of(final(self).bytes@),
    { unimplemented!() }
}

#[verifier::external_body]
pub struct Value { _p: () }
impl Value {
    pub uninterp spec fn undefined_spec(&self) -> bool;
    pub uninterp spec fn safe_spec(&self) -> bool;
    pub uninterp spec fn fmt_spec(&self) -> Seq<u8>;
    #[verifier::external_body]
    pub fn is_undefined(&self) -> (r: bool) ensures r == self.undefined_spec() { unimplemented!() }
    #[verifier::external_body]
    pub fn is_safe(&self) -> (r: bool) ensures r == self.safe_spec() { unimplemented!() }
    #[verifier::external_body]
    pub fn format(&self, f: &mut VxWriter) -> (r: IoResult<()>)
        ensures r.is_ok() ==> final(f).bytes@ == old(f).bytes@ + self.fmt_spec(),
                r.is_err() ==> old(f).bytes@.is_prefix_of(final(f).bytes@),
    { unimplemented!() }
}

pub uninterp spec fn escape_spec(s: Seq<u8>) -> Seq<u8>;
#[verifier::external_body]
pub fn call_escape_fn(input: &Vec<u8>, out: &mut VxWriter) -> (r: IoResult<()>)
    ensures r.is_ok() ==> final(out).bytes@ == old(out).bytes@ + escape_spec(input@),
            r.is_err() ==> old(out).bytes@.is_prefix_of(final(out).bytes@),
{ unimplemented!() }

pub struct State {
    pub stack: Vec<Value>,
    pub capture_buffers: Vec<VxWriter>,
    pub escape_buffer: VxWriter,
}

pub open spec fn sink_bytes(st: &State, out: &VxWriter) -> Seq<u8> {
    if st.capture_buffers.len() > 0 { st.capture_buffers@[st.capture_buffers.len() - 1].bytes@ } else { out.bytes@ }
}

// arm WriteTop, body pasted from interpret() with self.autoescape_enabled() as a parameter
pub fn arm_write_top(autoescape: bool, state: &mut State, output: &mut VxWriter) -> (r: TeraResult<()>)
    requires old(state).stack.len() > 0,
    ensures
        ({
            let top = old(state).stack@[old(state).stack.len() - 1];
            &&& top.undefined_spec() ==> r.is_err()
            &&& r.is_ok() ==> final(state).capture_buffers.len() == old(state).capture_buffers.len()
            &&& r.is_ok() ==> sink_bytes(final(state), final(output)) ==
                    sink_bytes(old(state), old(output)) + (if !autoescape || top.safe_spec() { top.fmt_spec() } else { escape_spec(top.fmt_spec()) })
        })
{
    let top = state.stack.pop().unwrap();
    if top.is_undefined() {
        return Err(Error::rendering(vx_fmt()));
    }

    if !autoescape || top.is_safe() {
        if let Some(captured) = state.capture_buffers.last_mut() {
            match top.format(captured) { Ok(v) => v, Err(e) => return Err(Error::from_io(e)) };
        } else {
            match top.format(output) { Ok(v) => v, Err(e) => return Err(Error::from_io(e)) };
        }
    } else {
        state.escape_buffer.bytes.clear();
        match top.format(&mut state.escape_buffer) { Ok(v) => v, Err(e) => return Err(Error::from_io(e)) };
        if let Some(captured) = state.capture_buffers.last_mut() {
            match call_escape_fn(&state.escape_buffer.bytes, captured) { Ok(v) => v, Err(e) => return Err(Error::from_io(e)) };
        } else {
            match call_escape_fn(&state.escape_buffer.bytes, output) { Ok(v) => v, Err(e) => return Err(Error::from_io(e)) };
        }
    }
    Ok(())
}
}
fn main() {}
