"""Engine F: frame audit of the safe mark (C01 item 2, DESIGN 4/C01).

The safe mark may be minted only at an audited set of sites.  Sites are found mechanically in
the macro-expanded source: per function, the number of occurrences of `mark_safe(`,
`safe_string(` and `StringKind::Safe`.  Two obligations:
  frame/mint/builtins   no unaudited mint site inside a built-in filter/test/function, a `From`
                        conversion into Value, or the serde bridge: there the property never
                        allows it ("the result of any filter, function ... goes through the
                        escape function unless ... the `safe` filter, or a filter/function
                        registered as safe") -> verdict false = violation, the site is named
  frame/mint/audited    the sites elsewhere (VM, registry) are exactly the audited ones
                        -> a difference is 'frame changed, re-audit' = undecided (exit 2)
"""
import json
import os
import re

from vx import VERIF

AUDIT = os.path.join(VERIF, "contracts", "mint_points.json")
PAT = re.compile(r"\bmark_safe\b|\bsafe_string\b|StringKind::Safe\b")
BUILTIN_PREFIXES = ("filters::", "functions::", "tests::", "args::", "value::ser::", "value::de::", "value::key::", "value::number::", "value::<Value as From", "context::", "components::")


def inventory(src):
    inv = {}
    for it in src.items:
        if it["kind"] != "fn" or "::tests::" in it["path"] or it["path"].startswith("snapshot_tests"):
            continue
        t = src.text(it["range"][0], it["range"][1])
        # nested fns are separate items: subtract them
        n = len(PAT.findall(t))
        for other in src.items:
            if other is not it and other["kind"] == "fn" and it["range"][0] <= other["range"][0] and other["range"][1] <= it["range"][1]:
                n -= len(PAT.findall(src.text(other["range"][0], other["range"][1])))
        if n > 0:
            inv[it["path"]] = n
    return inv


def run_for(prop, S, outdir, rebaseline=False):
    from driver import Result

    if prop not in ("C01", "ALL"):
        return [], []
    try:
        src = S("expanded")
    except Exception as e:
        return [Result("frame/mint/*", "F", "undecided", f"expansion failed: {e}")], []
    inv = inventory(src)
    if rebaseline or not os.path.exists(AUDIT):
        with open(AUDIT, "w") as f:
            json.dump(inv, f, indent=1, sort_keys=True)
    audited = json.load(open(AUDIT))
    meta = {"unit": "engine_f", "props": ["C01"], "what": "sites that mint the safe mark"}
    new_builtin = [(k, v) for k, v in inv.items() if any(k.startswith(p) for p in BUILTIN_PREFIXES) and v > audited.get(k, 0)]
    other_diff = [(k, inv.get(k, 0), audited.get(k, 0)) for k in set(inv) | set(audited) if inv.get(k, 0) != audited.get(k, 0) and not (any(k.startswith(p) for p in BUILTIN_PREFIXES) and inv.get(k, 0) > audited.get(k, 0))]
    results = []
    if new_builtin:
        results.append(Result("frame/mint/builtins", "F", "false", "unaudited mint site of the safe mark in: " + ", ".join(f"{k} ({audited.get(k, 0)} -> {v})" for k, v in new_builtin), 0, dict(meta, fn=new_builtin[0][0])))
    else:
        results.append(Result("frame/mint/builtins", "F", "verified", "", 0, meta))
    if other_diff:
        results.append(Result("frame/mint/audited", "F", "undecided", "frame changed, re-audit: " + ", ".join(f"{k}: {b} -> {a}" for k, a, b in other_diff), 0, meta))
    else:
        results.append(Result("frame/mint/audited", "F", "verified", "", 0, meta))
    info = {"unit": "engine_f", "engine": "frame audit (vx inventory)", "cmd": "inventory of mark_safe( / safe_string( / StringKind::Safe per function of the expanded source vs contracts/mint_points.json", "wall_s": 0.0, "smt_s": 0.0, "trusted": [], "functions": sorted(inv), "assumptions": ["engine F: the audited mint sites (contracts/mint_points.json) were judged by reading, not proved: " + ", ".join(sorted(audited))]}
    return results, [info]
