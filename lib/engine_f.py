"""Engine F: frame audit of the safe mark (C01 item 2, DESIGN 4/C01).

The safe mark may be minted only at an audited set of sites.  Sites are found mechanically in
the macro-expanded source: per function, the number of occurrences of `mark_safe(`,
`safe_string(` and `StringKind::Safe`.  Two obligations:
  frame/mint/builtins   no unaudited mint site inside a built-in filter/test/function, a `From`
                        conversion into Value, or the serde bridge: there the property never
                        allows it ("the result of any filter, function ... goes through the
                        escape function unless ... the `safe` filter, or a filter/function
                        registered as safe") -> verdict false = violation, the site is named
  frame/mint/audited    the sites elsewhere (VM, registry) are exactly the audited ones
                        -> a difference is 'frame changed, re-audit' = undecided (exit 2)
"""
import json
import os
import re

from vx import VERIF

AUDIT = os.path.join(VERIF, "contracts", "mint_points.json")
PAT = re.compile(r"\bmark_safe\b|\bsafe_string\b|StringKind::Safe\b")
BUILTIN_PREFIXES = ("filters::", "functions::", "tests::", "args::", "value::ser::", "value::de::", "value::key::", "value::number::", "value::<Value as From", "context::", "components::")


def inventory(src):
    inv = {}
    for it in src.items:
        if it["kind"] != "fn" or "::tests::" in it["path"] or it["path"].startswith("snapshot_tests"):
            continue
        t = src.text(it["range"][0], it["range"][1])
        # nested fns are separate items: subtract them
        n = len(PAT.findall(t))
        for other in src.items:
            if other is not it and other["kind"] == "fn" and it["range"][0] <= other["range"][0] and other["range"][1] <= it["range"][1]:
                n -= len(PAT.findall(src.text(other["range"][0], other["range"][1])))
        if n > 0:
            inv[it["path"]] = n
    return inv


SPAN_AUDIT = os.path.join(VERIF, "contracts", "span_points.json")
SPAN_PROPS = ["C07", "C12"]


def span_inventory(S):
    """(kinds whose VM arm uses the instruction's OWN span index, {kind: [functions emitting it with `None`]})
    both computed from the working tree: the arms of `interpret` in the expanded source that mention
    `current_ip`, and every `self.chunk.add(Instruction::K(..), None)` site of the compiler"""
    exp = S("expanded")
    it = exp.find("fn", "vm::interpreter::VirtualMachine::interpret")
    need = set()
    for a in it["nodes"]:
        if a["kind"] == "arm" and a["pat_text"].startswith("Instruction::") and "current_ip" in exp.text(*a["body"]):
            need |= set(re.findall(r"Instruction::(\w+)", a["pat_text"]))
    comp = S("tera/src/parsing/compiler.rs")
    none_sites = {}
    nsites = 0
    for f in comp.items:
        if f["kind"] != "fn":
            continue
        for m in f["nodes"]:
            if m["kind"] == "methodcall" and m["method"] == "add" and m["receiver_text"].endswith("chunk") and len(m["args"]) == 2:
                nsites += 1
                a0 = comp.text(*m["args"][0]["range"])
                a1 = comp.text(*m["args"][1]["range"]).strip()
                k = re.match(r"\s*Instruction::(\w+)", a0)
                if k and a1 == "None":
                    none_sites.setdefault(k.group(1), []).append(f["path"])
    return need, none_sites, nsites


def run_spans(prop, S, outdir, rebaseline=False):
    from driver import Result

    if prop not in SPAN_PROPS + ["ALL"]:
        return [], []
    meta = {"unit": "engine_f", "props": SPAN_PROPS, "what": "instructions whose VM arm uses their own span are never emitted without one"}
    try:
        need, none_sites, nsites = span_inventory(S)
    except Exception as e:  # noqa: BLE001
        return [Result("frame/spans/own_span_present", "F", "undecided", f"inventory failed: {e}", 0, meta)], []
    cur = {k: len(v) for k, v in none_sites.items() if k in need}
    if rebaseline or not os.path.exists(SPAN_AUDIT):
        with open(SPAN_AUDIT, "w") as f:
            json.dump(cur, f, indent=1, sort_keys=True)
    audited = json.load(open(SPAN_AUDIT))
    results = []
    if nsites < 20 or len(need) < 10:
        results.append(Result("frame/spans/own_span_present", "F", "undecided", f"vacuity guard: {nsites} emit sites, {len(need)} span-using arms found", 0, meta))
    else:
        new = [(k, n) for k, n in cur.items() if audited.get(k, 0) == 0]
        more = [(k, audited[k], n) for k, n in cur.items() if audited.get(k, 0) and n > audited[k]]
        if new:
            k0 = new[0][0]
            results.append(Result("frame/spans/own_span_present", "F", "false", "emitted with `None` although the VM arm uses the instruction's own span (rendering_error! does `expand_span(..).expect(\"to have a span for error\")` on it): " + ", ".join(f"Instruction::{k} in {sorted(set(none_sites[k]))}" for k, _ in new), 0, dict(meta, fn=none_sites[k0][0])))
        elif more:
            results.append(Result("frame/spans/own_span_present", "F", "undecided", "frame changed, re-audit: more span-less sites of an audited kind: " + ", ".join(f"{k}: {a} -> {n}" for k, a, n in more), 0, meta))
        else:
            results.append(Result("frame/spans/own_span_present", "F", "verified", "", 0, meta))
    info = {"unit": "engine_f_spans", "engine": "frame audit (vx inventory)", "cmd": "arms of interpret that mention current_ip (expanded source) vs `chunk.add(Instruction::K, None)` sites of parsing/compiler.rs vs contracts/span_points.json", "wall_s": 0.0, "smt_s": 0.0, "trusted": [], "functions": ["parsing::compiler::Compiler::*", "vm::interpreter::VirtualMachine::interpret"], "assumptions": ["engine F (spans): the audited span-less sites were judged by reading (their values are consumed by the instruction that follows and cannot reach a failing operation): " + json.dumps(audited, sort_keys=True) + "; sites whose span is a variable are not judged"]}
    return results, [info]


def run_for(prop, S, outdir, rebaseline=False):
    from driver import Result

    if prop not in ("C01", "ALL"):
        return [], []
    try:
        src = S("expanded")
    except Exception as e:
        return [Result("frame/mint/*", "F", "undecided", f"expansion failed: {e}")], []
    inv = inventory(src)
    if rebaseline or not os.path.exists(AUDIT):
        with open(AUDIT, "w") as f:
            json.dump(inv, f, indent=1, sort_keys=True)
    audited = json.load(open(AUDIT))
    meta = {"unit": "engine_f", "props": ["C01"], "what": "sites that mint the safe mark"}
    new_builtin = [(k, v) for k, v in inv.items() if any(k.startswith(p) for p in BUILTIN_PREFIXES) and v > audited.get(k, 0)]
    other_diff = [(k, inv.get(k, 0), audited.get(k, 0)) for k in set(inv) | set(audited) if inv.get(k, 0) != audited.get(k, 0) and not (any(k.startswith(p) for p in BUILTIN_PREFIXES) and inv.get(k, 0) > audited.get(k, 0))]
    results = []
    if new_builtin:
        results.append(Result("frame/mint/builtins", "F", "false", "unaudited mint site of the safe mark in: " + ", ".join(f"{k} ({audited.get(k, 0)} -> {v})" for k, v in new_builtin), 0, dict(meta, fn=new_builtin[0][0])))
    else:
        results.append(Result("frame/mint/builtins", "F", "verified", "", 0, meta))
    if other_diff:
        results.append(Result("frame/mint/audited", "F", "undecided", "frame changed, re-audit: " + ", ".join(f"{k}: {b} -> {a}" for k, a, b in other_diff), 0, meta))
    else:
        results.append(Result("frame/mint/audited", "F", "verified", "", 0, meta))
    info = {"unit": "engine_f", "engine": "frame audit (vx inventory)", "cmd": "inventory of mark_safe( / safe_string( / StringKind::Safe per function of the expanded source vs contracts/mint_points.json", "wall_s": 0.0, "smt_s": 0.0, "trusted": [], "functions": sorted(inv), "assumptions": ["engine F: the audited mint sites (contracts/mint_points.json) were judged by reading, not proved: " + ", ".join(sorted(audited))]}
    return results, [info]


PAIR = {"ApplyFilter": "filter_calls", "RunTest": "test_calls", "CallFunction": "function_calls", "Include": "include_calls", "RenderInlineComponent": "component_calls", "RenderBodyComponent": "component_calls"}
PAIR_PROPS = ["C07", "C11"]


def run_pairs(prop, S, outdir):
    """every site of the compiler that emits an instruction naming a filter / test / function / include /
    component also records that name in the call table registration-time validation reads: the match arm
    around the emit site mentions `self.<table>` itself or calls a Compiler method that does"""
    from driver import Result

    if prop not in PAIR_PROPS + ["ALL"]:
        return [], []
    meta = {"unit": "engine_f", "props": PAIR_PROPS, "what": "instructions that name a filter/test/function/include/component are emitted together with a record in the call table that validation reads"}
    ob = "frame/calls/recorded_where_emitted"
    try:
        comp = S("tera/src/parsing/compiler.rs")
        fns = [f for f in comp.items if f["kind"] == "fn"]
        helpers = {t: {f["path"].split("::")[-1] for f in fns if re.search(r"self\s*\.\s*" + t + r"\b", comp.text(*f["range"]))} for t in set(PAIR.values())}
        sites, bad = 0, []
        for f in fns:
            for m in f["nodes"]:
                if not (m["kind"] == "methodcall" and m["method"] == "add" and m["receiver_text"].endswith("chunk") and m["args"]):
                    continue
                k = re.match(r"\s*Instruction::(\w+)", comp.text(*m["args"][0]["range"]))
                if not k or k.group(1) not in PAIR:
                    continue
                sites += 1
                table = PAIR[k.group(1)]
                # nearest enclosing match arm (else the whole function)
                scope = f["range"]
                p = m["parent"]
                while p is not None and p >= 0:
                    pn = f["nodes"][p]
                    if pn["kind"] == "arm":
                        scope = pn["range"]
                        break
                    p = pn["parent"]
                txt = comp.text(*scope)
                ok = re.search(r"self\s*\.\s*" + table + r"\b", txt) or any(re.search(r"self\s*\.\s*" + h + r"\s*\(", txt) for h in helpers[table] if h != f["path"].split("::")[-1])
                if not ok:
                    bad.append((k.group(1), table, f["path"], comp.text(0, m["range"][0]).count("\n") + 1))
    except Exception as e:  # noqa: BLE001
        return [Result(ob, "F", "undecided", f"inventory failed: {e}", 0, meta)], []
    if sites < 5:
        res = Result(ob, "F", "undecided", f"vacuity guard: only {sites} emit sites found", 0, meta)
    elif bad:
        res = Result(ob, "F", "false", "emitted without a record in the call table (validation at registration cannot see this name; an unknown one reaches render time): " + ", ".join(f"Instruction::{k} without self.{t} in {fn} (line {ln})" for k, t, fn, ln in bad), 0, dict(meta, fn=bad[0][2]))
    else:
        res = Result(ob, "F", "verified", "", 0, meta)
    info = {"unit": "engine_f_pairs", "engine": "frame audit (vx inventory)", "cmd": f"{sites} emit sites of {sorted(PAIR)} in parsing/compiler.rs, each checked for a record in its call table within the enclosing match arm (directly or through a Compiler method that writes the table)", "wall_s": 0.0, "smt_s": 0.0, "trusted": [], "functions": ["parsing::compiler::Compiler::*"], "assumptions": ["engine F (calls): a syntactic pairing; that the recorded NAME is the emitted name, and what validation then does with the table, are not judged here (units tpl_merge, include_walk)"]}
    return [res], [info]


BUILTIN_AUDIT = os.path.join(VERIF, "contracts", "builtin_table.json")


def run_builtins(prop, S, outdir, rebaseline=False):
    """the registration table of built-ins (Tera::register_builtin_{filters,tests,functions}): every audited
    template-level name is still registered, and to the same function item"""
    from driver import Result

    if prop not in ("C17", "ALL"):
        return [], []
    ob = "frame/builtins/table"
    meta = {"unit": "engine_f", "props": ["C17"], "what": "every built-in filter/test/function name is registered to the function item it was audited with"}
    try:
        src = S("tera/src/tera.rs")
        cur = {}
        for f in src.items:
            if f["kind"] != "fn" or not f["path"].split("::")[-1].startswith("register_builtin_"):
                continue
            for m in f["nodes"]:
                if m["kind"] == "methodcall" and m["method"] in ("register_filter", "register_test", "register_function") and len(m["args"]) == 2:
                    name = src.text(*m["args"][0]["range"]).strip().strip('"')
                    target = re.sub(r"\s+", "", src.text(*m["args"][1]["range"]))
                    cur[m["method"].replace("register_", "") + ":" + name] = target
    except Exception as e:  # noqa: BLE001
        return [Result(ob, "F", "undecided", f"inventory failed: {e}", 0, meta)], []
    if rebaseline or not os.path.exists(BUILTIN_AUDIT):
        with open(BUILTIN_AUDIT, "w") as f:
            json.dump(cur, f, indent=1, sort_keys=True)
    audited = json.load(open(BUILTIN_AUDIT))
    if len(cur) < 10:
        res = Result(ob, "F", "undecided", f"vacuity guard: only {len(cur)} registrations found", 0, meta)
    else:
        wrong = [(k, audited[k], cur.get(k)) for k in sorted(audited) if cur.get(k) != audited[k]]
        if wrong:
            res = Result(ob, "F", "false", "built-in registered differently: " + ", ".join(f"`{k}` -> {c or 'not registered'} (audited: {a})" for k, a, c in wrong), 0, dict(meta, fn="tera::Tera::register_builtin_*"))
        else:
            res = Result(ob, "F", "verified", "", 0, meta)
    info = {"unit": "engine_f_builtins", "engine": "frame audit (vx inventory)", "cmd": f"{len(cur)} register_filter/register_test/register_function sites of Tera::register_builtin_* vs contracts/builtin_table.json", "wall_s": 0.0, "smt_s": 0.0, "trusted": [], "functions": ["tera::Tera::register_builtin_filters", "tera::Tera::register_builtin_tests", "tera::Tera::register_builtin_functions"], "assumptions": ["engine F (built-ins): the audited table pairs each template-level name with the function item of the same name (`str` -> as_str, `escape_html` -> escape, tests `x` -> is_x), judged by reading; added names are not judged"]}
    return [res], [info]


MAPITER_AUDIT = os.path.join(VERIF, "contracts", "map_iter_points.json")
MAPITER_FILES = ["tera/src/value/mod.rs", "tera/src/value/key.rs", "tera/src/value/ser.rs", "tera/src/value/de.rs", "tera/src/filters.rs", "tera/src/functions.rs", "tera/src/tests.rs", "tera/src/vm/for_loop.rs", "tera/src/vm/interpreter.rs", "tera/src/vm/state.rs", "tera/src/context.rs", "tera/src/args.rs", "tera/src/components.rs"]
MAPITER_METHODS = ("iter", "keys", "values", "into_iter", "iter_mut", "drain", "into_keys", "into_values", "values_mut")
SORT_UNDER_CFG = re.compile(r'cfg!\(not\(feature="preserve_order"\)\)\{[\w.]+\.sort')


def map_iter_inventory(S):
    """{fn path: {"sites": [receiver.method, ...], "sorted": bool}} for every non-test function of the value / filter /
    VM sources that iterates a `Map` (the engine's HashMap): receivers are the names the function binds to a map
    (a parameter typed Map, a `ValueInner::Map(x)` pattern, the closure parameter after `.as_map().map(|m| ..)`)"""
    inv = {}
    for label in MAPITER_FILES:
        try:
            src = S(label)
        except Exception:  # noqa: BLE001
            continue
        for f in src.items:
            if f["kind"] != "fn" or "::tests::" in f["path"] or f["path"].startswith("snapshot_tests"):
                continue
            t = src.text(*f["range"])
            names = set(re.findall(r"(\w+)\s*:\s*&?\s*(?:mut\s+)?(?:Arc<\s*)?Map\b", t))
            names |= set(re.findall(r"ValueInner::Map\(\s*(?:ref\s+)?(\w+)\s*\)", t))
            names |= set(re.findall(r"as_map\(\)\s*\.map\(\s*\|(\w+)\|", t))
            names -= {"_"}
            if not names:
                continue
            sites = []
            for m in f["nodes"]:
                if m["kind"] == "methodcall" and m["method"] in MAPITER_METHODS:
                    recv = re.sub(r"\s+", "", src.text(*m["receiver"]))
                    base = re.sub(r"^[&*(]+|\)+$", "", recv)
                    if base in names or re.fullmatch(r"(?:\*|&)*(%s)(?:\.as_ref\(\)|\.clone\(\))?" % "|".join(map(re.escape, names)), recv):
                        sites.append(f"{base}.{m['method']}")
            if sites:
                flat = re.sub(r"\s+", "", t)
                inv[f["path"]] = {"sites": sorted(sites), "sorted": bool(SORT_UNDER_CFG.search(flat))}
    return inv


def run_maporder(prop, S, outdir, rebaseline=False):
    """C18 (rendering is pure): a HashMap's iteration order is not a function of its content, so every place
    where the engine walks a `Map` either sorts what it collected (unless preserve_order) or was audited as
    order-free.  false = a function audited as `sorted` walks a map and no longer sorts; a changed set of
    walking sites elsewhere = frame changed, re-audit (undecided)."""
    from driver import Result

    if prop not in ("C18", "ALL"):
        return [], []
    ob = "frame/maps/iteration_order"
    meta = {"unit": "engine_f", "props": ["C18"], "what": "every function that walks a Map sorts the entries (unless preserve_order) or is audited as order-free"}
    try:
        cur = map_iter_inventory(S)
    except Exception as e:  # noqa: BLE001
        return [Result(ob, "F", "undecided", f"inventory failed: {e}", 0, meta)], []
    if rebaseline or not os.path.exists(MAPITER_AUDIT):
        old = json.load(open(MAPITER_AUDIT)) if os.path.exists(MAPITER_AUDIT) else {}
        new = {k: {"sites": v["sites"], "class": "sorted" if v["sorted"] else old.get(k, {}).get("class", "UNAUDITED"), "why": old.get(k, {}).get("why", "")} for k, v in cur.items()}
        with open(MAPITER_AUDIT, "w") as f:
            json.dump(new, f, indent=1, sort_keys=True)
    audited = json.load(open(MAPITER_AUDIT))
    if len(cur) < 3:
        res = Result(ob, "F", "undecided", f"vacuity guard: only {len(cur)} functions walking a Map found", 0, meta)
    else:
        unsorted = [k for k, a in sorted(audited.items()) if a["class"] == "sorted" and k in cur and not cur[k]["sorted"]]
        changed = [k for k in sorted(set(cur) | set(audited)) if (k not in audited) or (k in cur and cur[k]["sites"] != audited[k]["sites"]) or (k not in cur and audited[k]["class"] == "sorted")]
        unaud = [k for k, a in audited.items() if a["class"] not in ("sorted", "order-free")]
        if unsorted:
            res = Result(ob, "F", "false", "walks a Map in hash order (the sort under `cfg!(not(feature = \"preserve_order\"))` is gone): " + ", ".join(unsorted), 0, dict(meta, fn=unsorted[0]))
        elif changed or unaud:
            res = Result(ob, "F", "undecided", "frame changed, re-audit: the Map-walking sites differ from contracts/map_iter_points.json in " + ", ".join(changed + unaud), 0, meta)
        else:
            res = Result(ob, "F", "verified", "", 0, meta)
    info = {"unit": "engine_f_maporder", "engine": "frame audit (vx inventory)", "cmd": f"{sum(len(v['sites']) for v in cur.values())} Map-walking sites in {len(cur)} functions vs contracts/map_iter_points.json", "wall_s": 0.0, "smt_s": 0.0, "trusted": [], "functions": sorted(cur), "assumptions": ["engine F (map order): receivers are recognised by name (a parameter typed Map, a `ValueInner::Map(x)` binding, `.as_map().map(|m| ..)`); a walk through another alias is not seen", "engine F (map order): functions classed `order-free` were judged by reading (the walk feeds a sort, a set, a commutative fold, or another map)", "engine F (map order): with the `preserve_order` feature the Map is an IndexMap whose order is the insertion order - a function of how the value was built, not of a hash state; that configuration is not examined"]}
    return [res], [info]


ERRKIND_AUDIT = os.path.join(VERIF, "contracts", "parser_error_points.json")
SYNTAX_CTORS = ("syntax_error",)


def _norm(t):
    return re.sub(r"\s+", "", t)


def errkind_inventory(S):
    """Inductive check of "every error that leaves the parser is a SyntaxError" (Template::new answers anything
    else with `unreachable!`).  For every function of parsing::parser and parsing::lexer in the expanded source:
      bad      : `Error::<ctor>(` with a constructor other than syntax_error, or `ErrorKind::<K>` other than SyntaxError
      foreign  : `E?` where E is neither a call of a parser/lexer function (inductive hypothesis), nor a block made
                 of those and of syntax errors (expect_token!), nor converted by `.map_err(|_| Error::syntax_error(..))`
                 -> (callee text, the Error constructors of the callee if it can be found in the crate)
      values   : `Err(X)` / error-typed expressions whose X is none of: a syntax constructor, a parser method returning
                 `Error`, a variable bound by an `Err(x)` pattern over a lexer item"""
    src = S("expanded")
    fns = [f for f in src.items if f["kind"] == "fn" and (f["path"].startswith("parsing::parser::") or f["path"].startswith("parsing::lexer::")) and "::tests::" not in f["path"]]
    own = {f["path"].split("::")[-1] for f in fns}
    by_name = {}
    for f in src.items:
        if f["kind"] == "fn":
            by_name.setdefault(f["path"].split("::")[-1], []).append(f)
    bad, foreign, values = [], [], []
    for f in fns:
        t = src.text(*f["range"])
        short = f["path"].split("parsing::")[-1]
        for m in re.finditer(r"\bError::(\w+)\s*\(", t):
            if m.group(1) not in SYNTAX_CTORS + ("new",):
                bad.append(f"{short}: Error::{m.group(1)}")
        for m in re.finditer(r"\bErrorKind::(\w+)", t):
            if m.group(1) != "SyntaxError":
                bad.append(f"{short}: ErrorKind::{m.group(1)}")
        for n in f["nodes"]:
            if n["kind"] != "try":
                continue
            e = _norm(src.text(*n["inner"]))
            if re.match(r"self\.(\w+)\(", e) and re.match(r"self\.(\w+)\(", e).group(1) in own and e.endswith(")") and ".map(" not in e:
                continue
            if re.search(r"\.(map_err|ok_or_else|or_else)\(\|\w*\|Error::syntax_error\(", e) or re.search(r"\.ok_or_else\(\|\|self\.\w+\(", e):
                continue
            if e.startswith("{") or e.startswith("match"):
                # a block (expect_token! and friends): its own `?` sites are visited separately; its Err values below
                continue
            cal = re.match(r"((?:\w+::)*\w+)\(", e)
            name = cal.group(1) if cal else e[:60]
            last = name.split("::")[-1]
            if last in own and "::" not in name:
                continue
            ctors = None
            cands = [g for g in by_name.get(last, []) if "::" not in name or name.split("::")[-2] in g["path"]]
            if len(cands) == 1:
                ctors = sorted(set(re.findall(r"\bError::(\w+)\s*\(", src.text(*cands[0]["range"]))))
            foreign.append({"fn": short, "callee": name, "callee_ctors": ctors})
        for m in re.finditer(r"\bErr\s*\(", t):
            # the argument up to the matching parenthesis
            i, d = m.end(), 1
            while i < len(t) and d:
                d += {"(": 1, ")": -1}.get(t[i], 0)
                i += 1
            a = _norm(t[m.end():i - 1])
            if a.startswith("Error::syntax_error(") or a == "_" or re.fullmatch(r"\w+", a) or a.startswith("Error{kind:"):
                # `_` / a variable in a PATTERN, or an error re-raised from an `Err(x)` pattern (judged with the scrutinee below)
                continue
            mm = re.match(r"self\.(\w+)\(", a)
            if mm and mm.group(1) in own:
                continue
            values.append(f"{short}: Err({a[:60]})")
    return {"bad": sorted(set(bad)), "foreign": foreign, "values": sorted(set(values)), "functions": len(fns)}


def run_errkind(prop, S, outdir, rebaseline=False):
    from driver import Result

    if prop not in ("C06", "ALL"):
        return [], []
    ob = "frame/parser/errors_are_syntax_errors"
    meta = {"unit": "engine_f", "props": ["C06"], "what": "every error that leaves the parser is a SyntaxError, so the `unreachable!` of Template::new stays unreachable"}
    try:
        cur = errkind_inventory(S)
    except Exception as e:  # noqa: BLE001
        return [Result(ob, "F", "undecided", f"inventory failed: {e}", 0, meta)], []
    if rebaseline or not os.path.exists(ERRKIND_AUDIT):
        with open(ERRKIND_AUDIT, "w") as f:
            json.dump({"foreign": cur["foreign"], "values": cur["values"]}, f, indent=1, sort_keys=True)
    audited = json.load(open(ERRKIND_AUDIT))
    escaping = [x for x in cur["foreign"] if x["callee_ctors"] and any(c not in SYNTAX_CTORS + ("new",) for c in x["callee_ctors"]) and x not in audited["foreign"]]
    if cur["functions"] < 20:
        res = Result(ob, "F", "undecided", f"vacuity guard: only {cur['functions']} parser/lexer functions found", 0, meta)
    elif cur["bad"]:
        res = Result(ob, "F", "false", "the parser builds an error that is not a SyntaxError (Template::new answers it with unreachable!): " + ", ".join(cur["bad"]), 0, dict(meta, fn="parsing::" + cur["bad"][0].split(":")[0]))
    elif escaping:
        res = Result(ob, "F", "false", "an error of another kind leaves the parser unconverted (Template::new answers it with unreachable!): " + ", ".join(f"`{x['callee']}(..)?` in {x['fn']} (the callee builds Error::{'/'.join(x['callee_ctors'])})" for x in escaping), 0, dict(meta, fn="parsing::" + escaping[0]["fn"]))
    elif cur["foreign"] != audited["foreign"] or cur["values"] != audited["values"]:
        new = [x for x in cur["foreign"] if x not in audited["foreign"]] + [x for x in cur["values"] if x not in audited["values"]]
        res = Result(ob, "F", "undecided", "frame changed, re-audit: error sources of the parser that are not recognisably syntax errors: " + json.dumps(new)[:300], 0, meta)
    else:
        res = Result(ob, "F", "verified", "", 0, meta)
    info = {"unit": "engine_f_errkind", "engine": "frame audit (vx inventory)", "cmd": f"error constructors, `?` operands and Err(..) values of {cur['functions']} parser/lexer functions (expanded source) vs contracts/parser_error_points.json", "wall_s": 0.0, "smt_s": 0.0, "trusted": [], "functions": ["parsing::parser::Parser::*", "parsing::lexer::*", "template::Template::new (the unreachable! this keeps unreachable)"], "assumptions": ["engine F (error kind): an induction over the parser's functions by syntactic classes (calls of parser/lexer functions carry the hypothesis; expect_token! blocks; `.map_err(|e| Error::syntax_error(..))`); error values re-raised from an `Err(e)` pattern are taken to come from the lexer or the parser itself", "engine F (error kind): `Error::new(ErrorKind::SyntaxError(..))` and `Error::syntax_error(..)` are the syntax constructors; what they build is not examined"]}
    return [res], [info]


def run_b64consts(prop, S, outdir):
    """C20: the two decode engines tera-contrib defines itself are what the Verus unit `b64` assumes of them:
    STANDARD_DECODE = (standard alphabet, padding Indifferent), URL_SAFE_DECODE = (URL-safe alphabet, Indifferent)"""
    from driver import Result
    from sources import REPO

    if prop not in ("C20", "ALL"):
        return [], []
    ob = "frame/b64/decode_engines"
    meta = {"unit": "engine_f", "props": ["C20"], "what": "the decode engines defined in base64.rs have the alphabet their name says and accept padded and unpadded input"}
    try:
        t = re.sub(r"\s+", "", open(os.path.join(REPO, "tera-contrib/src/base64.rs")).read())
    except Exception as e:  # noqa: BLE001
        return [Result(ob, "F", "undecided", f"cannot read base64.rs: {e}", 0, meta)], []
    want = {"STANDARD_DECODE": "alphabet::STANDARD", "URL_SAFE_DECODE": "alphabet::URL_SAFE"}
    found = dict(re.findall(r"const(\w+_DECODE):[\w:]+=([^;]+);", t))
    used = set(re.findall(r"\b(\w+_DECODE)\.decode\(", t))
    bad = []
    for name in sorted(used | set(found)):
        d = found.get(name)
        if d is None:
            continue
        if name in want and (("&base64::" + want[name] + ",") not in d and ("&" + want[name] + ",") not in d):
            bad.append(f"{name} is not built on {want[name]}")
        if "DecodePaddingMode::Indifferent" not in d:
            bad.append(f"{name} does not decode with DecodePaddingMode::Indifferent")
    if not found:
        res = Result(ob, "F", "undecided", "frame changed, re-audit: no *_DECODE engine definition found in base64.rs", 0, meta)
    elif bad:
        res = Result(ob, "F", "false", "; ".join(bad), 0, dict(meta, fn="tera-contrib::base64"))
    elif set(found) - set(want):
        res = Result(ob, "F", "undecided", "frame changed, re-audit: unknown decode engine(s) " + ", ".join(sorted(set(found) - set(want))), 0, meta)
    else:
        res = Result(ob, "F", "verified", "", 0, meta)
    info = {"unit": "engine_f_b64", "engine": "frame audit (text)", "cmd": f"{len(found)} decode engine definitions of tera-contrib/src/base64.rs", "wall_s": 0.0, "smt_s": 0.0, "trusted": [], "functions": ["tera-contrib::base64::{STANDARD_DECODE, URL_SAFE_DECODE}"], "assumptions": ["engine F (b64): the definitions are compared as text (alphabet constant and DecodePaddingMode named in them)"]}
    return [res], [info]


def run_lexpos(prop, S, outdir):
    """C12: the lexer's position state (current_byte / current_line / current_col and the unread `rest`) moves only
    through the `advance!` step, whose expansions are what unit lex_raw verifies against `advance_fold`.  A
    second writer is not refuted by this audit - it is simply not under contract: frame changed, re-audit."""
    from driver import Result
    from sources import REPO

    if prop not in ("C12", "ALL"):
        return [], []
    ob = "frame/lexer/position_state"
    meta = {"unit": "engine_f", "props": ["C12"], "what": "current_byte / current_line / current_col / rest of basic_tokenize are written only inside `advance!`"}
    try:
        t = open(os.path.join(REPO, "tera/src/parsing/lexer.rs")).read()
        a = t.index("fn basic_tokenize(")
        m = re.search(r"(?m)^(?:pub(?:\([^)]*\))? )?fn \w+|^#\[cfg\(test\)\]|^impl ", t[a + 10:])
        body = t[a:a + 10 + m.start()] if m else t[a:]
        ma = body.index("macro_rules! advance")
        depth = 0
        k = body.index("{", ma)
        j = k
        while True:
            if body[j] == "{":
                depth += 1
            elif body[j] == "}":
                depth -= 1
                if depth == 0:
                    break
            j += 1
        macro = body[ma:j + 1]
        outside = body[:ma] + "\n" * macro.count("\n") + body[j + 1:]
    except Exception as e:  # noqa: BLE001
        return [Result(ob, "F", "undecided", f"inventory failed: {e}", 0, meta)], []
    inside = len(re.findall(r"\b(?:current_byte|current_line|current_col|rest)\s*(?:[-+*/]?=)(?!=)", macro))
    writers = []
    base = t[:a].count("\n") + 1
    for i, line in enumerate(outside.split("\n")):
        code = line.split("//")[0]
        for mm in re.finditer(r"\b(current_byte|current_line|current_col|rest)\s*(?:[-+*/]?=)(?!=)", code):
            if re.search(r"\blet\s+mut\s+" + mm.group(1) + r"\s*=", code):
                continue
            writers.append(f"{mm.group(1)} at lexer.rs:{base + i}")
        if re.search(r"&mut\s+(current_byte|current_line|current_col|rest)\b", code):
            writers.append(f"&mut borrow at lexer.rs:{base + i}")
    if inside < 4:
        res = Result(ob, "F", "undecided", f"vacuity guard: only {inside} position writes found inside `advance!`", 0, meta)
    elif writers:
        res = Result(ob, "F", "undecided", "frame changed, re-audit: the lexer's position state is written outside `advance!` (not under contract): " + ", ".join(writers[:6]), 0, meta)
    else:
        res = Result(ob, "F", "verified", "", 0, meta)
    info = {"unit": "engine_f_lexpos", "engine": "frame audit (text)", "cmd": f"writers of current_byte/current_line/current_col/rest in basic_tokenize: {inside} inside `advance!`, {len(writers)} outside", "wall_s": 0.0, "smt_s": 0.0, "trusted": [], "functions": ["parsing::lexer::basic_tokenize (position state)"], "assumptions": ["engine F (lexer position): writers are found as text (assignment operators and &mut borrows of the four variables); the step itself is verified in unit lex_raw at the sites extracted there, the other expansions are the same macro body"]}
    return [res], [info]


def run_cyclechecks(prop, S, outdir):
    """C11 (anchor "both run for every template on every finalize"): in finalize_templates the parent walk
    (find_parents) and the include-cycle check (check_include_cycles) are UNCONDITIONAL statements of a loop over the
    templates.  Either call gone = violation; a call that now sits under an `if` / `match` / closure is not refuted
    (the guard may be harmless) but is no longer what was audited: frame changed, re-audit."""
    from driver import Result
    import vx

    if prop not in ("C11", "ALL"):
        return [], []
    ob = "frame/finalize/cycle_checks_unconditional"
    meta = {"unit": "engine_f", "props": ["C11"], "what": "find_parents and check_include_cycles run for every template on every finalize"}
    try:
        src = S("expanded")
        fn = next(f for f in src.items if f["kind"] == "fn" and f["path"].endswith("Tera::finalize_templates"))
    except Exception as e:  # noqa: BLE001
        return [Result(ob, "F", "undecided", f"inventory failed: {e}", 0, meta)], []
    gone, guarded, seen = [], [], 0
    for name in ("find_parents", "check_include_cycles"):
        calls = [n for n in fn["nodes"] if n["kind"] == "call" and n["func"].split("::")[-1] == name]
        if not calls:
            gone.append(name)
            continue
        seen += len(calls)
        for c in calls:
            anc = [a["kind"] for a in vx.ancestors(fn, c)]
            if "loop" not in anc:
                guarded.append(f"{name}: not inside a loop over the templates")
            bad = [k for k in anc[: anc.index("loop")] if k in ("if", "match", "arm", "closure")] if "loop" in anc else []
            if bad:
                guarded.append(f"{name}: under {'/'.join(bad)}")
    if gone:
        res = Result(ob, "F", "false", "finalize_templates no longer calls " + ", ".join(gone), 0, dict(meta, fn="tera::Tera::finalize_templates"))
    elif guarded:
        res = Result(ob, "F", "undecided", "frame changed, re-audit: " + "; ".join(guarded), 0, meta)
    else:
        res = Result(ob, "F", "verified", "", 0, meta)
    info = {"unit": "engine_f_cyclechecks", "engine": "frame audit (vx inventory)", "cmd": f"{seen} calls of find_parents / check_include_cycles in finalize_templates and what they are nested in (expanded source)", "wall_s": 0.0, "smt_s": 0.0, "trusted": [], "functions": ["tera::Tera::finalize_templates (the two cycle checks)"], "assumptions": ["engine F (cycle checks): the audit sees that the two calls are unconditional statements of a loop; that the loop walks EVERY template is read from the code (`ordered_names` = all keys), not proved"]}
    return [res], [info]
