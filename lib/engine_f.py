"""Engine F: frame audit of the safe mark (C01 item 2, DESIGN 4/C01).

The safe mark may be minted only at an audited set of sites.  Sites are found mechanically in
the macro-expanded source: per function, the number of occurrences of `mark_safe(`,
`safe_string(` and `StringKind::Safe`.  Two obligations:
  frame/mint/builtins   no unaudited mint site inside a built-in filter/test/function, a `From`
                        conversion into Value, or the serde bridge: there the property never
                        allows it ("the result of any filter, function ... goes through the
                        escape function unless ... the `safe` filter, or a filter/function
                        registered as safe") -> verdict false = violation, the site is named
  frame/mint/audited    the sites elsewhere (VM, registry) are exactly the audited ones
                        -> a difference is 'frame changed, re-audit' = undecided (exit 2)
"""
import json
import os
import re

from vx import VERIF

AUDIT = os.path.join(VERIF, "contracts", "mint_points.json")
PAT = re.compile(r"\bmark_safe\b|\bsafe_string\b|StringKind::Safe\b")
BUILTIN_PREFIXES = ("filters::", "functions::", "tests::", "args::", "value::ser::", "value::de::", "value::key::", "value::number::", "value::<Value as From", "context::", "components::")


def inventory(src):
    inv = {}
    for it in src.items:
        if it["kind"] != "fn" or "::tests::" in it["path"] or it["path"].startswith("snapshot_tests"):
            continue
        t = src.text(it["range"][0], it["range"][1])
        # nested fns are separate items: subtract them
        n = len(PAT.findall(t))
        for other in src.items:
            if other is not it and other["kind"] == "fn" and it["range"][0] <= other["range"][0] and other["range"][1] <= it["range"][1]:
                n -= len(PAT.findall(src.text(other["range"][0], other["range"][1])))
        if n > 0:
            inv[it["path"]] = n
    return inv


SPAN_AUDIT = os.path.join(VERIF, "contracts", "span_points.json")
SPAN_PROPS = ["C07", "C12"]


def span_inventory(S):
    """(kinds whose VM arm uses the instruction's OWN span index, {kind: [functions emitting it with `None`]})
    both computed from the working tree: the arms of `interpret` in the expanded source that mention
    `current_ip`, and every `self.chunk.add(Instruction::K(..), None)` site of the compiler"""
    exp = S("expanded")
    it = exp.find("fn", "vm::interpreter::VirtualMachine::interpret")
    need = set()
    for a in it["nodes"]:
        if a["kind"] == "arm" and a["pat_text"].startswith("Instruction::") and "current_ip" in exp.text(*a["body"]):
            need |= set(re.findall(r"Instruction::(\w+)", a["pat_text"]))
    comp = S("tera/src/parsing/compiler.rs")
    none_sites = {}
    nsites = 0
    for f in comp.items:
        if f["kind"] != "fn":
            continue
        for m in f["nodes"]:
            if m["kind"] == "methodcall" and m["method"] == "add" and m["receiver_text"].endswith("chunk") and len(m["args"]) == 2:
                nsites += 1
                a0 = comp.text(*m["args"][0]["range"])
                a1 = comp.text(*m["args"][1]["range"]).strip()
                k = re.match(r"\s*Instruction::(\w+)", a0)
                if k and a1 == "None":
                    none_sites.setdefault(k.group(1), []).append(f["path"])
    return need, none_sites, nsites


def run_spans(prop, S, outdir, rebaseline=False):
    from driver import Result

    if prop not in SPAN_PROPS + ["ALL"]:
        return [], []
    meta = {"unit": "engine_f", "props": SPAN_PROPS, "what": "instructions whose VM arm uses their own span are never emitted without one"}
    try:
        need, none_sites, nsites = span_inventory(S)
    except Exception as e:  # noqa: BLE001
        return [Result("frame/spans/own_span_present", "F", "undecided", f"inventory failed: {e}", 0, meta)], []
    cur = {k: len(v) for k, v in none_sites.items() if k in need}
    if rebaseline or not os.path.exists(SPAN_AUDIT):
        with open(SPAN_AUDIT, "w") as f:
            json.dump(cur, f, indent=1, sort_keys=True)
    audited = json.load(open(SPAN_AUDIT))
    results = []
    if nsites < 20 or len(need) < 10:
        results.append(Result("frame/spans/own_span_present", "F", "undecided", f"vacuity guard: {nsites} emit sites, {len(need)} span-using arms found", 0, meta))
    else:
        new = [(k, n) for k, n in cur.items() if audited.get(k, 0) == 0]
        more = [(k, audited[k], n) for k, n in cur.items() if audited.get(k, 0) and n > audited[k]]
        if new:
            k0 = new[0][0]
            results.append(Result("frame/spans/own_span_present", "F", "false", "emitted with `None` although the VM arm uses the instruction's own span (rendering_error! does `expand_span(..).expect(\"to have a span for error\")` on it): " + ", ".join(f"Instruction::{k} in {sorted(set(none_sites[k]))}" for k, _ in new), 0, dict(meta, fn=none_sites[k0][0])))
        elif more:
            results.append(Result("frame/spans/own_span_present", "F", "undecided", "frame changed, re-audit: more span-less sites of an audited kind: " + ", ".join(f"{k}: {a} -> {n}" for k, a, n in more), 0, meta))
        else:
            results.append(Result("frame/spans/own_span_present", "F", "verified", "", 0, meta))
    info = {"unit": "engine_f_spans", "engine": "frame audit (vx inventory)", "cmd": "arms of interpret that mention current_ip (expanded source) vs `chunk.add(Instruction::K, None)` sites of parsing/compiler.rs vs contracts/span_points.json", "wall_s": 0.0, "smt_s": 0.0, "trusted": [], "functions": ["parsing::compiler::Compiler::*", "vm::interpreter::VirtualMachine::interpret"], "assumptions": ["engine F (spans): the audited span-less sites were judged by reading (their values are consumed by the instruction that follows and cannot reach a failing operation): " + json.dumps(audited, sort_keys=True) + "; sites whose span is a variable are not judged"]}
    return results, [info]


def run_for(prop, S, outdir, rebaseline=False):
    from driver import Result

    if prop not in ("C01", "ALL"):
        return [], []
    try:
        src = S("expanded")
    except Exception as e:
        return [Result("frame/mint/*", "F", "undecided", f"expansion failed: {e}")], []
    inv = inventory(src)
    if rebaseline or not os.path.exists(AUDIT):
        with open(AUDIT, "w") as f:
            json.dump(inv, f, indent=1, sort_keys=True)
    audited = json.load(open(AUDIT))
    meta = {"unit": "engine_f", "props": ["C01"], "what": "sites that mint the safe mark"}
    new_builtin = [(k, v) for k, v in inv.items() if any(k.startswith(p) for p in BUILTIN_PREFIXES) and v > audited.get(k, 0)]
    other_diff = [(k, inv.get(k, 0), audited.get(k, 0)) for k in set(inv) | set(audited) if inv.get(k, 0) != audited.get(k, 0) and not (any(k.startswith(p) for p in BUILTIN_PREFIXES) and inv.get(k, 0) > audited.get(k, 0))]
    results = []
    if new_builtin:
        results.append(Result("frame/mint/builtins", "F", "false", "unaudited mint site of the safe mark in: " + ", ".join(f"{k} ({audited.get(k, 0)} -> {v})" for k, v in new_builtin), 0, dict(meta, fn=new_builtin[0][0])))
    else:
        results.append(Result("frame/mint/builtins", "F", "verified", "", 0, meta))
    if other_diff:
        results.append(Result("frame/mint/audited", "F", "undecided", "frame changed, re-audit: " + ", ".join(f"{k}: {b} -> {a}" for k, a, b in other_diff), 0, meta))
    else:
        results.append(Result("frame/mint/audited", "F", "verified", "", 0, meta))
    info = {"unit": "engine_f", "engine": "frame audit (vx inventory)", "cmd": "inventory of mark_safe( / safe_string( / StringKind::Safe per function of the expanded source vs contracts/mint_points.json", "wall_s": 0.0, "smt_s": 0.0, "trusted": [], "functions": sorted(inv), "assumptions": ["engine F: the audited mint sites (contracts/mint_points.json) were judged by reading, not proved: " + ", ".join(sorted(audited))]}
    return results, [info]


PAIR = {"ApplyFilter": "filter_calls", "RunTest": "test_calls", "CallFunction": "function_calls", "Include": "include_calls", "RenderInlineComponent": "component_calls", "RenderBodyComponent": "component_calls"}
PAIR_PROPS = ["C07", "C11"]


def run_pairs(prop, S, outdir):
    """every site of the compiler that emits an instruction naming a filter / test / function / include /
    component also records that name in the call table registration-time validation reads: the match arm
    around the emit site mentions `self.<table>` itself or calls a Compiler method that does"""
    from driver import Result

    if prop not in PAIR_PROPS + ["ALL"]:
        return [], []
    meta = {"unit": "engine_f", "props": PAIR_PROPS, "what": "instructions that name a filter/test/function/include/component are emitted together with a record in the call table that validation reads"}
    ob = "frame/calls/recorded_where_emitted"
    try:
        comp = S("tera/src/parsing/compiler.rs")
        fns = [f for f in comp.items if f["kind"] == "fn"]
        helpers = {t: {f["path"].split("::")[-1] for f in fns if re.search(r"self\s*\.\s*" + t + r"\b", comp.text(*f["range"]))} for t in set(PAIR.values())}
        sites, bad = 0, []
        for f in fns:
            for m in f["nodes"]:
                if not (m["kind"] == "methodcall" and m["method"] == "add" and m["receiver_text"].endswith("chunk") and m["args"]):
                    continue
                k = re.match(r"\s*Instruction::(\w+)", comp.text(*m["args"][0]["range"]))
                if not k or k.group(1) not in PAIR:
                    continue
                sites += 1
                table = PAIR[k.group(1)]
                # nearest enclosing match arm (else the whole function)
                scope = f["range"]
                p = m["parent"]
                while p is not None and p >= 0:
                    pn = f["nodes"][p]
                    if pn["kind"] == "arm":
                        scope = pn["range"]
                        break
                    p = pn["parent"]
                txt = comp.text(*scope)
                ok = re.search(r"self\s*\.\s*" + table + r"\b", txt) or any(re.search(r"self\s*\.\s*" + h + r"\s*\(", txt) for h in helpers[table] if h != f["path"].split("::")[-1])
                if not ok:
                    bad.append((k.group(1), table, f["path"], comp.text(0, m["range"][0]).count("\n") + 1))
    except Exception as e:  # noqa: BLE001
        return [Result(ob, "F", "undecided", f"inventory failed: {e}", 0, meta)], []
    if sites < 5:
        res = Result(ob, "F", "undecided", f"vacuity guard: only {sites} emit sites found", 0, meta)
    elif bad:
        res = Result(ob, "F", "false", "emitted without a record in the call table (validation at registration cannot see this name; an unknown one reaches render time): " + ", ".join(f"Instruction::{k} without self.{t} in {fn} (line {ln})" for k, t, fn, ln in bad), 0, dict(meta, fn=bad[0][2]))
    else:
        res = Result(ob, "F", "verified", "", 0, meta)
    info = {"unit": "engine_f_pairs", "engine": "frame audit (vx inventory)", "cmd": f"{sites} emit sites of {sorted(PAIR)} in parsing/compiler.rs, each checked for a record in its call table within the enclosing match arm (directly or through a Compiler method that writes the table)", "wall_s": 0.0, "smt_s": 0.0, "trusted": [], "functions": ["parsing::compiler::Compiler::*"], "assumptions": ["engine F (calls): a syntactic pairing; that the recorded NAME is the emitted name, and what validation then does with the table, are not judged here (units tpl_merge, include_walk)"]}
    return [res], [info]


BUILTIN_AUDIT = os.path.join(VERIF, "contracts", "builtin_table.json")


def run_builtins(prop, S, outdir, rebaseline=False):
    """the registration table of built-ins (Tera::register_builtin_{filters,tests,functions}): every audited
    template-level name is still registered, and to the same function item"""
    from driver import Result

    if prop not in ("C17", "ALL"):
        return [], []
    ob = "frame/builtins/table"
    meta = {"unit": "engine_f", "props": ["C17"], "what": "every built-in filter/test/function name is registered to the function item it was audited with"}
    try:
        src = S("tera/src/tera.rs")
        cur = {}
        for f in src.items:
            if f["kind"] != "fn" or not f["path"].split("::")[-1].startswith("register_builtin_"):
                continue
            for m in f["nodes"]:
                if m["kind"] == "methodcall" and m["method"] in ("register_filter", "register_test", "register_function") and len(m["args"]) == 2:
                    name = src.text(*m["args"][0]["range"]).strip().strip('"')
                    target = re.sub(r"\s+", "", src.text(*m["args"][1]["range"]))
                    cur[m["method"].replace("register_", "") + ":" + name] = target
    except Exception as e:  # noqa: BLE001
        return [Result(ob, "F", "undecided", f"inventory failed: {e}", 0, meta)], []
    if rebaseline or not os.path.exists(BUILTIN_AUDIT):
        with open(BUILTIN_AUDIT, "w") as f:
            json.dump(cur, f, indent=1, sort_keys=True)
    audited = json.load(open(BUILTIN_AUDIT))
    if len(cur) < 10:
        res = Result(ob, "F", "undecided", f"vacuity guard: only {len(cur)} registrations found", 0, meta)
    else:
        wrong = [(k, audited[k], cur.get(k)) for k in sorted(audited) if cur.get(k) != audited[k]]
        if wrong:
            res = Result(ob, "F", "false", "built-in registered differently: " + ", ".join(f"`{k}` -> {c or 'not registered'} (audited: {a})" for k, a, c in wrong), 0, dict(meta, fn="tera::Tera::register_builtin_*"))
        else:
            res = Result(ob, "F", "verified", "", 0, meta)
    info = {"unit": "engine_f_builtins", "engine": "frame audit (vx inventory)", "cmd": f"{len(cur)} register_filter/register_test/register_function sites of Tera::register_builtin_* vs contracts/builtin_table.json", "wall_s": 0.0, "smt_s": 0.0, "trusted": [], "functions": ["tera::Tera::register_builtin_filters", "tera::Tera::register_builtin_tests", "tera::Tera::register_builtin_functions"], "assumptions": ["engine F (built-ins): the audited table pairs each template-level name with the function item of the same name (`str` -> as_str, `escape_html` -> escape, tests `x` -> is_x), judged by reading; added names are not judged"]}
    return [res], [info]
