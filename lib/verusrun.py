"""Assemble a Verus file for one unit from its sidecar + the current /repo sources, run Verus,
parse per-function results (engine V)."""
import hashlib
import json
import os
import re
import subprocess
import time

from vx import (
    VERIF,
    LostAnchor,
    Src,
    Undecided,
    Unsupported,
    extract_arm,
    extract_closure,
    extract_fn,
    extract_type,
    impl_header,
    load_sidecar,
    norm_tokens,
)

CONTRACTS = os.path.join(VERIF, "contracts")

FALSE_VERDICTS = (
    "postcondition not satisfied",
    "precondition not satisfied",
    "assertion failed",
    "invariant not satisfied",
    "possible arithmetic underflow/overflow",
    "possible division by zero",
    "possible bit shift underflow/overflow",
    "decreases not satisfied",
    "could not prove termination",
    "loop invariant not satisfied",
    "unreachable",  # call of vx_unreachable => "precondition not satisfied" normally
    "index out of bounds",
    "recommendation not met",
    "fails to satisfy `callee.requires",
    "unable to prove post-condition of closure",
    "may fail to meet its declared type invariant",
    "loop ensures not satisfied",
)
RLIMIT_MARKERS = ("rlimit exceeded", "Resource limit", "resource limit", "timed out")


class Chunk:
    def __init__(self, label, text, ob=None, kind="text", meta=None):
        self.label = label
        self.text = text if text.endswith("\n") else text + "\n"
        self.ob = ob
        self.kind = kind
        self.meta = meta or {}
        self.l0 = self.l1 = 0


class Unit:
    def __init__(self, name):
        self.name = name
        self.chunks = []
        self.fns = []  # dict(ob, verus_names, chunk)
        self.counts = {}
        self.sidecar = None
        self.functions_under_contract = []
        self.text = ""
        self.props = []
        self.skipped = {}  # obligation -> reason (lost anchor / unsupported construct in that function only)

    def add(self, chunk):
        self.chunks.append(chunk)
        return chunk

    def render(self):
        out = []
        line = 1
        for c in self.chunks:
            c.l0 = line
            n = c.text.count("\n")
            line += n
            c.l1 = line - 1
            out.append(c.text)
        self.text = "".join(out)
        return self.text

    def chunk_at(self, line):
        for c in self.chunks:
            if c.l0 <= line <= c.l1:
                return c
        return None


def read_rel(p):
    with open(os.path.join(CONTRACTS, p), "r") as f:
        return f.read()


LOOP_ISO = re.compile(r"^([ \t]*)((?:pub(?:\([a-z]+\))?\s+)?(?:const\s+)?fn\s)", re.M)


def no_loop_isolation(body, spec, unit):
    """every extracted function is verified with `#[verifier::loop_isolation(false)]`: what is known before a loop
    about variables the loop does not modify stays known inside it, so a local hoisted out of a loop (an alias, a
    cached length, a flag) needs no invariant of its own.  Invariants are still required for what the loop changes.
    (`loop_isolation = true` in a sidecar entry or unit restores Verus' default for that function.)"""
    if spec.get("loop_isolation") or unit.get("loop_isolation"):
        return body
    return LOOP_ISO.sub(lambda m: m.group(1) + "#[verifier::loop_isolation(false)]\n" + m.group(1) + "#[verifier::allow_complex_invariants]\n" + m.group(1) + m.group(2), body, count=1)


def build_unit(sidecar_path, sources, variant=None):
    """sources: callable label -> Src  ('expanded' or a repo-relative path)."""
    sc = load_sidecar(sidecar_path)
    u = Unit(sc["unit"])
    u.sidecar = sc
    u.props = sc.get("properties", [])
    # R4 (let-chains -> nested ifs) applies everywhere: a no-op where there is no chain
    rules = list(sc.get("rewrites", []))
    if "R4" not in rules:
        rules.append("R4")
    if "R44" not in rules:
        rules.append("R44")
    if "R45" not in rules:
        rules.append("R45")
    default_src = sc.get("source", "expanded")
    if sc.get("compose"):
        for f in sc.get("fn", []) + sc.get("arm", []) + sc.get("closure_fn", []):
            f.setdefault("compose", True)

    head = ["use vstd::prelude::*;"] + sc.get("uses", [])
    u.add(Chunk("uses", "#![allow(unused_imports, unused_variables, unused_mut, dead_code, unused_parens, unused_braces, unreachable_code, non_snake_case, unused_assignments, unreachable_patterns)]\n" + "\n".join(head) + "\nverus! {\n"))
    for p in sc.get("prelude", []):
        u.add(Chunk("prelude:" + p, f"// ---- trusted prelude: {p}\n" + read_rel(p), kind="prelude"))
    # extracted types
    for t in sc.get("type", []):
        src = sources(t.get("source", default_src))
        ex = extract_type(src, t, rules)
        for k, v in ex["counts"].items():
            u.counts[k] = u.counts.get(k, 0) + v
        u.add(Chunk("type:" + t["path"], f"// ---- extracted type {t['path']} from {src.label} bytes {ex['item']['range']}\n" + ex["text"] + ("\n" + t["after"] if t.get("after") else ""), kind="type", meta={"hash": ex["hash"], "raw": ex["raw"]}))
    for p in sc.get("specs", []):
        u.add(Chunk("spec:" + p, f"// ---- specification vocabulary and lemmas: {p}\n" + read_rel(p), kind="spec"))

    # extracted functions, grouped by enclosing impl
    groups = []  # (impl_key, header, [chunks])
    for f in sc.get("fn", []):
        if variant is not None and f.get("only_variant") not in (None, variant):
            continue
        src = sources(f.get("source", default_src))
        decl = False
        try:
            ex = extract_fn(src, f, rules)
        except Undecided as e:
            # isolate: this obligation is undecided; the rest of the unit is still built, with this function as a
            # DECLARATION (signature + contract, no body) where that much can still be extracted, so that its
            # callers in the unit are judged against the contract as for any callee
            u.skipped[f"{u.name}/{f.get('ob', f.get('as_free') or f['path'].split('::')[-1])}"] = f"{e.reason}: {e.detail}"
            try:
                ex = extract_fn(src, dict(f, vx_decl_only=True), rules)
                decl = True
            except Exception:  # noqa: BLE001
                continue
        for k, v in ex["counts"].items():
            u.counts[k] = u.counts.get(k, 0) + v
        item = ex["item"]
        enc = src.enclosing_impl(item)
        nested = False
        # a fn nested in another fn is lifted to the top level (R23)
        for it in src.items:
            if it["kind"] == "fn" and it is not item and it["range"][0] <= item["range"][0] and item["range"][1] <= it["range"][1]:
                nested = True
        name = f.get("as_free") or item["name"]
        ob = f"{u.name}/{f.get('ob', name)}"
        hdr = None
        key = None
        tyname = None
        if enc is not None and not nested and not f.get("as_free"):
            hdr = impl_header(src, item, rules)
            if f.get("impl_header"):
                hdr = f["impl_header"]
            key = (src.label, tuple(enc["range"]))
            if " as " in enc["path"]:
                tyname = enc["path"][enc["path"].index("<") + 1 : enc["path"].index(" as ")].lstrip("&")
            else:
                tyname = enc["path"].split("::")[-1]
        vnames = []
        if tyname:
            vnames.append(f"{u.name}::{tyname}::{name}")
        else:
            vnames.append(f"{u.name}::{name}")
        body = f"// ---- extracted fn {f['path']} from {src.label} bytes {item['range']}  obligation {ob}\n" + ex["text"]
        body = no_loop_isolation(body, f, sc)
        ch = Chunk("fn:" + f["path"], body, ob=(None if decl else ob), kind=("decl" if decl else "fn"), meta={"hash": ex["hash"], "raw": ex["raw"], "vnames": vnames, "spec": f, "unannotated": ex.get("unannotated", []), "trait_impl": bool(enc is not None and " as " in enc["path"])})
        if not decl:
            u.functions_under_contract.append(f["path"])
        if key is None:
            groups.append((None, None, [ch]))
        else:
            for g in groups:
                if g[0] == key:
                    g[2].append(ch)
                    break
            else:
                groups.append((key, hdr, [ch]))
        if not decl:
            u.fns.append(ch)
        if f.get("after"):
            groups.append((None, None, [Chunk("after:" + f["path"], f["after"], kind="spec")]))
    # R31 closure conversion
    for a in sc.get("closure_fn", []):
        src = sources(a.get("source", default_src))
        try:
            ex = extract_closure(src, a, rules)
        except Undecided as e:
            u.skipped[f"{u.name}/{a.get('ob', a['name'])}"] = f"{e.reason}: {e.detail}"
            continue
        for k, v in ex["counts"].items():
            u.counts[k] = u.counts.get(k, 0) + v
        ob = f"{u.name}/{a.get('ob', a['name'])}"
        body = f"// ---- closure #{a.get('n', 0)} of {a['path']} converted to a method (R31) from {src.label} bytes {ex['item']['range']}  obligation {ob}\n" + ex["text"]
        tyname = a.get("impl_type")
        vn = f"{u.name}::{tyname}::{a['name']}" if tyname else f"{u.name}::{a['name']}"
        body = no_loop_isolation(body, a, sc)
        ch = Chunk("closure:" + a["name"], body, ob=ob, kind="fn", meta={"hash": ex["hash"], "raw": ex["raw"], "vnames": [vn], "spec": dict(a, path=a["path"] + " closure #" + str(a.get("n", 0))), "unannotated": ex.get("unannotated", []), "trait_impl": False})
        u.functions_under_contract.append(a["path"] + " :: closure #" + str(a.get("n", 0)))
        u.fns.append(ch)
        if a.get("impl_header"):
            groups.append((("closure", a["name"]), a["impl_header"], [ch]))
        else:
            groups.append((None, None, [ch]))
    # R16 arm extraction
    for a in sc.get("arm", []):
        src = sources(a.get("source", default_src))
        try:
            ex = extract_arm(src, a, rules)
        except Undecided as e:
            u.skipped[f"{u.name}/{a.get('ob', a['name'])}"] = f"{e.reason}: {e.detail}"
            continue
        for k, v in ex["counts"].items():
            u.counts[k] = u.counts.get(k, 0) + v
        ob = f"{u.name}/{a.get('ob', a['name'])}"
        body = f"// ---- extracted arm `{a['arm']}` of {a['path']} from {src.label} bytes {ex['item']['range']}  obligation {ob}\n" + ex["text"]
        hdr = a.get("impl_header")
        tyname = a.get("impl_type")
        vn = f"{u.name}::{tyname}::{a['name']}" if tyname else f"{u.name}::{a['name']}"
        body = no_loop_isolation(body, a, sc)
        ch = Chunk("arm:" + a["name"], body, ob=ob, kind="fn", meta={"hash": ex["hash"], "raw": ex["raw"], "vnames": [vn], "spec": dict(a, path=a["path"] + " arm " + a["arm"]), "unannotated": ex.get("unannotated", []), "trait_impl": False})
        u.functions_under_contract.append(a["path"] + " :: arm " + a["arm"])
        u.fns.append(ch)
        if hdr:
            groups.append((("arm", a["name"]), hdr, [ch]))
        else:
            groups.append((None, None, [ch]))
    for key, hdr, chs in groups:
        if key is None:
            for c in chs:
                u.add(c)
        else:
            u.add(Chunk("implhdr", hdr + " {\n"))
            for c in chs:
                u.add(c)
            u.add(Chunk("implend", "}\n"))
    for p in sc.get("lemmas", []):
        u.add(Chunk("spec:" + p, f"// ---- lemmas: {p}\n" + read_rel(p), kind="spec"))
    u.add(Chunk("tail", "} // verus!\nfn main() {}\n"))
    u.render()
    return u


TRUST_PATTERNS = [
    (re.compile(r"#\[verifier::external_body\]\s*(?:pub\s+)?(?:(?:proof|exec|spec|uninterp)\s+)*(?:fn|struct|enum)\s+(\w+)"), "external_body"),
    (re.compile(r"assume_specification\s*(?:<[^>]*>)?\s*\[\s*([^\]]+?)\s*\]"), "assume_specification"),
    (re.compile(r"uninterp\s+spec\s+fn\s+(\w+)"), "uninterpreted spec fn"),
    (re.compile(r"\badmit\(\)"), "admit"),
    (re.compile(r"\bassume\(([^;]{0,60})"), "assume"),
    (re.compile(r"#\[verifier::external_type_specification\]"), "external_type_specification"),
    (re.compile(r"#\[verifier::external\]"), "external"),
]


def scan_trusted(text):
    out = []
    lines = text.split("\n")
    # associate admit() with its enclosing proof fn name (nearest preceding `fn`)
    fn_re = re.compile(r"\bfn\s+(\w+)")
    cur = ""
    for ln in lines:
        s = ln.split("//")[0]
        m = fn_re.search(s)
        if m:
            cur = m.group(1)
        for pat, kind in TRUST_PATTERNS:
            for mm in pat.finditer(s):
                name = mm.group(1) if mm.groups() else ""
                if kind in ("admit", "assume"):
                    out.append(f"{kind} in {cur}" + (f": {name.strip()}" if kind == "assume" else ""))
                elif kind == "external_body":
                    out.append(f"external_body {name}")
                else:
                    out.append(f"{kind} {name}".strip())
    # external_body attribute on one line, item on the next
    joined = re.sub(r"\s+", " ", text)
    for mm in TRUST_PATTERNS[0][0].finditer(joined):
        t = f"external_body {mm.group(1)}"
        if t not in out:
            out.append(t)
    seen = []
    for o in out:
        if o not in seen:
            seen.append(o)
    return seen


def run_verus(u, outdir, extra_args=None, seed=None, timeout=600):
    os.makedirs(outdir, exist_ok=True)
    path = os.path.join(outdir, u.name + ".rs")
    with open(path, "w") as f:
        f.write(u.text)
    args = ["verus", "--edition", "2024", path, "--output-json", "--time-expanded", "--multiple-errors", "5"]
    args += u.sidecar.get("verus_args", [])
    if extra_args:
        args += extra_args
    if seed is not None:
        args += ["--smt-option", f"smt.random_seed={seed}"]
    t0 = time.time()
    try:
        p = subprocess.run(args, capture_output=True, timeout=timeout, cwd=outdir)
    except subprocess.TimeoutExpired:
        raise Undecided("verus-timeout", u.name)
    wall = time.time() - t0
    stdout = p.stdout.decode(errors="replace")
    stderr = p.stderr.decode(errors="replace")
    try:
        js = json.loads(stdout)
    except Exception:
        js = None
    return {"cmd": " ".join(args), "rc": p.returncode, "json": js, "stderr": stderr, "wall": wall, "path": path}


ERR_RE = re.compile(r"^(error|warning)(?:\[[A-Z0-9]+\])?: (.*)$")
LOC_RE = re.compile(r"^\s*--> (.+?):(\d+):(\d+)")


def parse_errors(stderr):
    """list of dict(level, msg, line, block)"""
    errs = []
    cur = None
    for ln in stderr.split("\n"):
        m = ERR_RE.match(ln)
        if m:
            if cur:
                errs.append(cur)
            cur = {"level": m.group(1), "msg": m.group(2), "line": None, "block": [ln]}
            continue
        if cur is not None:
            cur["block"].append(ln)
            if cur["line"] is None:
                lm = LOC_RE.match(ln)
                if lm:
                    cur["line"] = int(lm.group(2))
    if cur:
        errs.append(cur)
    return errs


def classify(msg):
    for m in RLIMIT_MARKERS:
        if m in msg:
            return "rlimit"
    for m in FALSE_VERDICTS:
        if m in msg:
            return "false"
    if msg.startswith("aborting due to") or msg.startswith("could not compile"):
        return "summary"
    return "tool"


def analyse(u, res):
    """-> dict(obligations={ob: {status, time_ms, rlimit, msgs}}, unit_error=None|str, smt_ms)"""
    obs = {}
    js = res["json"]
    errs = [e for e in parse_errors(res["stderr"]) if e["level"] == "error"]
    unit_error = None
    if js is None:
        return {"obligations": {}, "unit_error": "verus produced no JSON: " + res["stderr"][-800:], "smt_ms": 0, "errors": errs}
    vr = js.get("verification-results", {})
    breakdown = []
    for m in js.get("times-ms", {}).get("smt", {}).get("smt-run-module-times", []):
        breakdown += m.get("function-breakdown", [])
    smt_ms = js.get("times-ms", {}).get("smt", {}).get("smt-run", 0)
    # tool-level errors (type errors, unsupported constructs): whole unit undecided
    tool = [e for e in errs if classify(e["msg"]) == "tool"]
    if vr.get("encountered-vir-error") or (tool and not breakdown) or (not vr.get("success") and not breakdown and not errs):
        unit_error = "; ".join(e["msg"] for e in tool[:3]) or "verus reported an error without diagnostics"
        return {"obligations": {}, "unit_error": unit_error, "smt_ms": smt_ms, "errors": errs}
    if tool:
        unit_error = "; ".join(e["msg"] for e in tool[:3])
        return {"obligations": {}, "unit_error": unit_error, "smt_ms": smt_ms, "errors": errs}

    used = set()
    for ch in u.fns:
        ent = None
        for b in breakdown:
            fn = b["function"]
            if id(b) in used:
                continue
            for vn in ch.meta["vnames"]:
                if fn == vn:
                    ent = b
                    break
            if ent:
                break
        if ent is not None:
            used.add(id(ent))
        msgs = []
        status = None
        for e in errs:
            if e["line"] is not None and ch.l0 <= e["line"] <= ch.l1:
                msgs.append(e)
        kinds = [classify(e["msg"]) for e in msgs]
        if "false" in kinds:
            status = "false"
        elif "rlimit" in kinds:
            status = "rlimit"
        elif ent is not None and not ent.get("success", False):
            # failure attributed elsewhere (e.g. error span in a spec file): treat as false only
            # if some error names this function
            status = "failed-unlocated"
        elif ent is not None:
            status = "verified"
        else:
            status = "verified-trivially" if ch.meta["spec"].get("trivial_ok") else "no-query"
        obs[ch.ob] = {
            "status": status,
            "time_ms": ent.get("time", 0) if ent else 0,
            "rlimit": ent.get("rlimit", 0) if ent else 0,
            "msgs": ["\n".join(e["block"]).rstrip() for e in msgs],
            "fn": ch.meta["spec"]["path"],
            "kind": "fn",
        }
    # lemmas / spec-side proof functions: everything else in the breakdown
    for b in breakdown:
        if id(b) in used:
            continue
        nm = b["function"].split("::", 1)[1] if "::" in b["function"] else b["function"]
        ob = f"{u.name}/lemma/{nm}"
        status = "verified" if b.get("success") else "false"
        msgs = []
        if status != "verified":
            for e in errs:
                c = u.chunk_at(e["line"]) if e["line"] else None
                if c is not None and c.kind in ("spec", "prelude") and re.search(r"\b" + re.escape(nm.split("::")[-1]) + r"\b", "\n".join(e["block"])):
                    msgs.append(e)
            kinds = [classify(e["msg"]) for e in msgs]
            if "rlimit" in kinds and "false" not in kinds:
                status = "rlimit"
        obs[ob] = {"status": status, "time_ms": b.get("time", 0), "rlimit": b.get("rlimit", 0), "msgs": ["\n".join(e["block"]).rstrip() for e in msgs], "fn": nm, "kind": "lemma"}
    # errors not attributed to any fn chunk
    unattributed = []
    for e in errs:
        if classify(e["msg"]) in ("summary",):
            continue
        c = u.chunk_at(e["line"]) if e["line"] else None
        if c is None or c.kind != "fn":
            unattributed.append(e)
    return {"obligations": obs, "unit_error": None, "smt_ms": smt_ms, "errors": errs, "unattributed": unattributed, "verified": vr.get("verified"), "nerrors": vr.get("errors")}


def isolate_rejected(u, an):
    """When Verus rejects the unit (type error, unsupported construct) and every such diagnostic lies inside the
    text of extracted functions, those functions are turned into `external_body` declarations carrying the same
    signature and contract (their callers in the unit are then judged against the contract, as for any callee) and
    the obligations they stand for are reported undecided; the rest of the unit is decided by a second run.
    -> {ob: reason} of the functions set aside, or None when the rejection cannot be attributed"""
    errs = [e for e in an.get("errors", []) if classify(e["msg"]) == "tool"]
    if not errs:
        return None
    hit = {}
    for e in errs:
        if e["line"] is None:
            return None
        ch = None
        for c in u.fns:
            if c.l0 <= e["line"] <= c.l1:
                ch = c
                break
        if ch is None:
            return None
        hit.setdefault(id(ch), (ch, []))[1].append(e["msg"])
    out = {}
    for ch, msgs in hit.values():
        t = ch.text
        m = re.search(r"\n\{[ \t]*\n", t)
        sig = re.search(r"^[ \t]*(pub(\([a-z]+\))?\s+)?(const\s+)?fn\s", t, re.M)
        if not m or not sig or sig.start() > m.start():
            return None
        ch.text = t[:sig.start()] + "#[verifier::external_body]\n" + t[sig.start():m.start()] + "\n{ unimplemented!() }\n"
        out[ch.ob] = "verus rejected this function (the rest of the unit is decided with it as a declaration): " + "; ".join(msgs[:2])[:400]
    u.render()
    return out


def unit_hash(u):
    h = hashlib.sha256()
    for c in u.chunks:
        if c.kind in ("fn", "type"):
            h.update(norm_tokens(c.meta["raw"]).encode())
    return h.hexdigest()[:16]
