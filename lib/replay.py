"""Counterexample search and replay on the real code (DESIGN 2.7) — filled in below."""


def find_input_for(prop, result, scratch):
    return None


def run(path):
    print("replay not available for", path)
    return 2
