"""Counterexample search and replay on the real code (DESIGN 2.7).

* Kani failure: re-run the harness with `--concrete-playback=print`, parse the byte vectors Kani
  prints (one per `kani::any()` of a primitive, in call order, little-endian) and the values it
  shows in comments; then replay them NATIVELY: the same harness text is compiled as ordinary
  Rust into the overlay copy (cfg `verif_replay`, `kani::` attributes stripped, `kani::any()`
  served from the recorded vectors by a 60-line shim, stubs gone so the real functions run) and
  executed by a `#[test]` entry.  A panic of the harness assertion = the violation reproduced on
  the real code.
* Verus failure: if the sidecar names Kani twins for the function, they are run on the working
  tree; a failing twin yields the input as above.  Otherwise: no-failing-input-found.
"""
import json
import os
import re
import shutil
import subprocess

import kanirun
from vx import VERIF, Undecided

REPO = os.environ.get("VERIF_REPO", "/repo")

SHIM = r'''
#[cfg(verif_replay)]
#[allow(unused, dead_code, missing_docs)]
pub(crate) mod verif_replay_kani {
    //! serves `kani::any()` from the byte vectors of a Kani counterexample
    use std::cell::RefCell;
    use std::collections::VecDeque;
    thread_local! { pub static VALS: RefCell<VecDeque<Vec<u8>>> = RefCell::new(VecDeque::new()); }
    fn next(n: usize) -> Vec<u8> {
        let mut v = VALS.with(|q| q.borrow_mut().pop_front()).unwrap_or_default();
        v.resize(n, 0);
        v
    }
    pub trait Arb: Sized { fn arb() -> Self; }
    macro_rules! prim { ($($t:ty),*) => { $( impl Arb for $t { fn arb() -> Self { let v = next(std::mem::size_of::<$t>()); let mut a = [0u8; std::mem::size_of::<$t>()]; a.copy_from_slice(&v); <$t>::from_le_bytes(a) } } )* } }
    prim!(u8, u16, u32, u64, u128, usize, i8, i16, i32, i64, i128, isize, f32, f64);
    impl Arb for bool { fn arb() -> Self { next(1)[0] != 0 } }
    impl Arb for char { fn arb() -> Self { let v = next(4); char::from_u32(u32::from_le_bytes([v[0], v[1], v[2], v[3]])).unwrap_or('\u{0}') } }
    impl Arb for () { fn arb() -> Self {} }
    impl<T: Arb, const N: usize> Arb for [T; N] { fn arb() -> Self { std::array::from_fn(|_| T::arb()) } }
    impl<T: Arb> Arb for Option<T> { fn arb() -> Self { if bool::arb() { Some(T::arb()) } else { None } } }
    impl<A: Arb, B: Arb> Arb for (A, B) { fn arb() -> Self { let a = A::arb(); let b = B::arb(); (a, b) } }
    pub fn any<T: Arb>() -> T { T::arb() }
    pub fn any_where<T: Arb, F: FnOnce(&T) -> bool>(f: F) -> T { let v = T::arb(); assume(f(&v)); v }
    pub fn assume(c: bool) { if !c { println!("VERIF_REPLAY_OUTCOME assumption-violated"); std::process::exit(0); } }
    pub fn cover(_c: bool) {}
}
'''


def parse_playback(raw):
    """-> list of dict(bytes=[..], shown=str)"""
    vals = []
    m = re.search(r"let concrete_vals: Vec<Vec<u8>> = vec!\[(.*?)\];", raw, re.S)
    if not m:
        return None
    shown = None
    for ln in m.group(1).split("\n"):
        ln = ln.strip()
        if ln.startswith("//"):
            shown = ln[2:].strip()
        mm = re.match(r"vec!\[([0-9, ]*)\],?", ln)
        if mm:
            b = [int(x) for x in mm.group(1).split(",") if x.strip()]
            vals.append({"bytes": b, "shown": shown})
            shown = None
    return vals


def kani_counterexample(prop, harness_names, scratch, outdir):
    """run the named harnesses with concrete playback on the working tree; -> (harness, group, vals, raw) of
    the first failing one, or None"""
    rs, infos = kanirun.run_for("ALL", "thorough", os.path.join(scratch, "cex"), outdir, only_harnesses=set(harness_names), playback=True)
    raw = "\n".join(i.get("raw", "") for i in infos)
    for r in rs:
        if r.status == "false":
            # isolate this harness's block
            name = r.meta["harness"].split("::")[-1]
            blocks = re.split(r"(?m)^(?:Thread \d+: )?Checking harness ", raw)
            blk = next((b for b in blocks if b.startswith(r.meta["harness"]) or ("::" + name + "...") in b.split("\n")[0]), raw)
            vals = parse_playback(blk) or parse_playback(raw)
            return r, vals, blk[-4000:]
    return None


def native_replay(group_name, harness, vals, scratch):
    """-> dict(reproduced=bool|None, output=str)"""
    groups = [g for g in kanirun.load_groups() if g["group"] == group_name]
    if not groups:
        return {"reproduced": None, "output": f"group {group_name} not found"}
    g = groups[0]
    crate = g.get("crate", "tera")
    root = os.path.join(scratch, "replay-src")
    kanirun.copy_repo(root)
    shutil.copy(os.path.join(REPO, "Cargo.lock"), os.path.join(root, "Cargo.lock"))
    body = open(os.path.join(kanirun.KANI_DIR, g["module"])).read()
    body = "\n".join(ln for ln in body.split("\n") if not re.match(r"^\s*#\[kani::[^\]]*\]\s*$", ln) and not re.match(r"^\s*#\[kani::.*\)\]\s*$", ln))
    names = [h["name"] for h in g.get("harness", [])]
    dispatch = "\n".join(f'            "{n}" => {{ {n}(); true }}' for n in names if re.search(r"\bfn\s+" + re.escape(n) + r"\s*\(", body) or re.search(r"\b" + re.escape(n) + r"\b", body))
    mod = (
        f"\n#[cfg(verif_replay)]\n#[allow(unused, clippy::all)]\npub(crate) mod verif_kani_{g['group']} {{\n"
        f"    use crate::verif_replay_kani as kani;\n{body}\n"
        f"    pub(crate) fn __verif_replay(name: &str) -> bool {{\n        match name {{\n{dispatch}\n            _ => false,\n        }}\n    }}\n}}\n"
    )
    with open(os.path.join(root, g["append_to"]), "a") as f:
        f.write(mod)
    modpath = kanirun.mod_path_of(g)
    libpath = os.path.join(root, g["append_to"].split("/src/")[0], "src", "lib.rs")
    entry = SHIM + f'''
#[cfg(verif_replay)]
#[cfg(test)]
mod verif_replay_entry_mod {{
    #[test]
    fn verif_replay_entry() {{
        let name = std::env::var("VERIF_REPLAY_HARNESS").unwrap();
        let vals: Vec<Vec<u8>> = std::env::var("VERIF_REPLAY_VALS").unwrap().split(';').filter(|s| !s.is_empty())
            .map(|s| s.split(',').filter(|x| !x.is_empty()).map(|x| x.parse::<u8>().unwrap()).collect()).collect();
        crate::verif_replay_kani::VALS.with(|q| *q.borrow_mut() = vals.into_iter().collect());
        let r = std::panic::catch_unwind(|| crate::{modpath}::__verif_replay(&name));
        match r {{
            Ok(true) => println!("VERIF_REPLAY_OUTCOME no-panic"),
            Ok(false) => println!("VERIF_REPLAY_OUTCOME unknown-harness"),
            Err(e) => {{
                let msg = e.downcast_ref::<String>().cloned().or_else(|| e.downcast_ref::<&str>().map(|s| s.to_string())).unwrap_or_default();
                println!("VERIF_REPLAY_OUTCOME panicked: {{msg}}");
            }}
        }}
    }}
}}
'''
    with open(libpath, "a") as f:
        f.write(entry)
    env = dict(os.environ)
    env["CARGO_NET_OFFLINE"] = "true"
    env["CARGO_TARGET_DIR"] = os.path.join(VERIF, "build", "replay-target")
    env["RUSTFLAGS"] = "--cfg verif_replay -A unexpected_cfgs"
    env["VERIF_REPLAY_HARNESS"] = harness
    env["VERIF_REPLAY_VALS"] = ";".join(",".join(str(b) for b in v["bytes"]) for v in (vals or []))
    cmd = ["cargo", "test", "--offline", "-p", crate, "--lib"]
    if g.get("features"):
        cmd += ["--features", g["features"]]
    cmd += ["verif_replay_entry", "--", "--nocapture", "--test-threads", "1"]
    try:
        p = subprocess.run(cmd, cwd=root, env=env, capture_output=True, timeout=1200)
    except subprocess.TimeoutExpired:
        return {"reproduced": None, "output": "native replay timed out"}
    out = p.stdout.decode(errors="replace") + p.stderr.decode(errors="replace")
    m = re.search(r"VERIF_REPLAY_OUTCOME ((?:panicked|no-panic|unknown-harness|assumption-violated)[^\n]*)", out)
    if not m:
        return {"reproduced": None, "output": "native replay build/run failed: " + out[-1500:]}
    oc = m.group(1).strip()
    return {"reproduced": oc.startswith("panicked"), "outcome": oc, "output": out[-800:], "cmd": "RUSTFLAGS='--cfg verif_replay' " + " ".join(cmd)}


def twins_of(r):
    """Kani twin harness names for a Verus obligation (sidecar key `twin`)"""
    import glob
    import tomllib

    for p in glob.glob(os.path.join(VERIF, "contracts", "*.toml")):
        with open(p, "rb") as f:
            sc = tomllib.load(f)
        if "unit" not in sc:
            continue
        for f_ in sc.get("fn", []) + sc.get("arm", []):
            ob = f"{sc['unit']}/{f_.get('ob', f_.get('name', f_['path'].split('::')[-1]))}"
            if ob == r.ob and f_.get("twin"):
                return f_["twin"] if isinstance(f_["twin"], list) else [f_["twin"]]
    return []


def find_input_for(prop, r, scratch):
    outdir = os.path.join(VERIF, "out", prop)
    os.makedirs(outdir, exist_ok=True)
    if r.engine == "K":
        names = [r.meta["harness"].split("::")[-1]]
    elif r.engine == "V":
        names = twins_of(r)
        if not names:
            return None
    else:
        return None
    got = kani_counterexample(prop, names, scratch, outdir)
    if not got:
        return {"kani_twins_run": names, "failing_input": None}
    kr, vals, raw = got
    hname = kr.meta["harness"].split("::")[-1]
    group = None
    for g in kanirun.load_groups():
        if any(h["name"] == hname for h in g.get("harness", [])) and kanirun.mod_path_of(g) + "::" + hname == kr.meta["harness"]:
            group = g["group"]
    extra = {"kani_harness": kr.meta["harness"], "kani_failed_checks": kr.detail[:1500], "failing_input": vals, "kani_output_tail": raw[-1500:], "replay_group": group}
    if vals is not None and group:
        extra["replayed_on_real_code"] = native_replay(group, hname, vals, scratch)
    return extra


def run(path):
    with open(path) as f:
        doc = json.load(f)
    print(f"replay of {doc.get('obligation')} ({doc.get('engine')})")
    if doc.get("failing_input") is None or not doc.get("replay_group"):
        print("no failing input recorded for this obligation (verifier output follows)")
        print((doc.get("verifier_output") or "")[:3000])
        return 2
    scratch = os.environ.get("VERIF_SCRATCH") or f"/var/tmp/verif-replay-{os.getpid()}"
    os.makedirs(scratch, exist_ok=True)
    try:
        res = native_replay(doc["replay_group"], doc["kani_harness"].split("::")[-1], doc["failing_input"], scratch)
    finally:
        shutil.rmtree(scratch, ignore_errors=True)
    for v in doc["failing_input"]:
        print("  input:", v.get("shown"), v["bytes"])
    print("outcome on the current working tree:", res.get("outcome") or res.get("output"))
    if res.get("reproduced"):
        print(f"VIOLATION property={doc.get('property')} replay={path}")
        return 1
    return 0 if res.get("reproduced") is False else 2
