"""check driver: runs the engines that serve one property, decides, writes evidence.

exit 0  every obligation that is discharged on the pristine tree is discharged now
exit 1  + `VIOLATION property=<id> replay=<path>`: an obligation discharged on the pristine tree
        now gets the verdict *false* from the verifier, on text that differs from the pristine text
exit 2  + `UNDECIDED property=<id> reason=...`: lost anchor, unsupported construct, rlimit, tool
        trouble, vacuity guard.  Never a VIOLATION line.
"""
import argparse
import atexit
import concurrent.futures as cf
import glob
import hashlib
import json
import os
import re
import shutil
import sys
import time

from vx import VERIF, Undecided, load_sidecar
from sources import Sources, REPO
import verusrun

BASELINE = os.path.join(VERIF, "contracts", "baseline.json")
KNOWN = os.path.join(VERIF, "known_findings.txt")
EVIDENCE = os.path.join(VERIF, "evidence")
REPLAYS = os.path.join(VERIF, "replays")
OUT = os.path.join(VERIF, "out")


def load_baseline():
    if os.path.exists(BASELINE):
        with open(BASELINE) as f:
            return json.load(f)
    return {"obligations": {}, "units": {}}


def load_known():
    finds = []
    if os.path.exists(KNOWN):
        for ln in open(KNOWN):
            ln = ln.strip()
            if ln.startswith("finding:"):
                m = re.match(r"finding:\s+property=(\S+)\s+obligation=(\S+)\s+(?:sig=(\S+)\s+)?witness=(.*?)\s+what=(.*)$", ln)
                if m:
                    finds.append({"property": m.group(1), "obligation": m.group(2), "sig": m.group(3), "witness": m.group(4), "what": m.group(5)})
    return finds


class Result:
    """one obligation's outcome"""

    def __init__(self, ob, engine, status, detail="", time_s=0.0, meta=None):
        self.ob = ob
        self.engine = engine
        self.status = status  # verified | false | undecided | bounded-verified
        self.detail = detail
        self.time_s = time_s
        self.meta = meta or {}


def unit_files_for(prop):
    r = []
    for p in sorted(glob.glob(os.path.join(VERIF, "contracts", "*.toml"))):
        sc = load_sidecar(p)
        allp = set(sc.get("properties", []))
        for v in sc.get("lemma_props", {}).values():
            allp.update(v)
        for f in sc.get("fn", []) + sc.get("arm", []) + sc.get("closure_fn", []):
            allp.update(f.get("props", []))
        if prop in allp or prop == "ALL":
            r.append((p, sc))
    return r


def ob_props(sc, fnspec):
    return fnspec.get("props") or sc.get("properties", [])


def run_v_unit(path, sc, S, outdir, prop, tier, seed, baseline):
    """returns (results, info)"""
    name = sc["unit"]
    info = {"unit": name, "engine": "verus", "rewrites": {}, "trusted": [], "functions": [], "cmd": "", "smt_s": 0.0, "wall_s": 0.0, "hash": None}
    try:
        u = verusrun.build_unit(path, S)
    except Undecided as e:
        return [Result(f"{name}/*", "V", "undecided", f"{e.reason}: {e.detail}")], info
    info["rewrites"] = u.counts
    info["trusted"] = verusrun.scan_trusted(u.text)
    info["functions"] = list(u.functions_under_contract)
    info["hash"] = verusrun.unit_hash(u)
    extra = []
    if tier == "thorough" and seed:
        extra = []
    try:
        res = verusrun.run_verus(u, outdir, extra_args=extra, seed=(seed if tier == "thorough" and seed else None))
    except Undecided as e:
        return [Result(f"{name}/*", "V", "undecided", f"{e.reason}: {e.detail}")], info
    info["cmd"] = res["cmd"]
    info["wall_s"] = res["wall"]
    an = verusrun.analyse(u, res)
    info["smt_s"] = an.get("smt_ms", 0) / 1000.0
    if an["unit_error"]:
        # a rejection that lies inside extracted functions only: set those aside, decide the rest
        aside = verusrun.isolate_rejected(u, an)
        if aside:
            try:
                res = verusrun.run_verus(u, outdir + "-isolated", extra_args=extra, seed=(seed if tier == "thorough" and seed else None))
                an2 = verusrun.analyse(u, res)
            except Undecided:
                an2 = None
            if an2 is not None and not an2["unit_error"]:
                info["wall_s"] += res["wall"]
                info["smt_s"] += an2.get("smt_ms", 0) / 1000.0
                an = an2
                for ob, why in aside.items():
                    u.skipped[ob] = why
                    an["obligations"].pop(ob, None)
    if an["unit_error"]:
        return [Result(f"{name}/*", "V", "undecided", "verus rejected the unit: " + an["unit_error"][:600] + ("; skipped before: " + "; ".join(f"{k}: {v}" for k, v in u.skipped.items()) if u.skipped else ""))], info
    # which obligations serve this property
    fn_props = {}
    for ch in u.fns:
        fn_props[ch.ob] = ob_props(sc, ch.meta["spec"])
    out = []
    retry = []
    for ob, why in u.skipped.items():
        out.append(Result(ob, "V", "undecided", why, 0, {"unit": name, "props": sc.get("properties", [])}))
    for ob, r in an["obligations"].items():
        if r["fn"].split("::")[-1].startswith("axiom_"):
            continue
        props = fn_props.get(ob) or sc.get("lemma_props", {}).get(r["fn"].split("::")[-1]) or sc.get("properties", [])
        if prop != "ALL" and prop not in props:
            continue
        st = r["status"]
        meta = {"fn": r["fn"], "kind": r["kind"], "rlimit": r["rlimit"], "unit": name, "props": props}
        if r["kind"] == "fn":
            for ch in u.fns:
                if ch.ob == ob:
                    meta["contract"] = {k: ch.meta["spec"][k] for k in ("requires", "ensures") if k in ch.meta["spec"]}
                    meta["text"] = ch.text
        if st in ("verified", "verified-trivially"):
            out.append(Result(ob, "V", "verified", "", r["time_ms"] / 1000.0, meta))
        elif st == "false":
            una = []
            for ch in u.fns:
                if ch.ob == ob:
                    una = ch.meta.get("unannotated", [])
            if una:
                # the text has a loop without an invariant / a closure without a contract: the verifier knows nothing
                # of what it does, so a proof that fails says nothing about the code
                out.append(Result(ob, "V", "undecided", "not judged: " + "; ".join(una[:3]) + " (the sidecar says nothing about it, a failed proof would mean nothing) - " + "\n".join(r["msgs"])[:400], r["time_ms"] / 1000.0, meta))
            else:
                out.append(Result(ob, "V", "false", "\n".join(r["msgs"]), r["time_ms"] / 1000.0, meta))
                retry.append(ob)
        elif st == "no-query":
            out.append(Result(ob, "V", "undecided", "vacuity guard: Verus generated no query for this function", 0, meta))
        else:
            out.append(Result(ob, "V", "undecided", st + ": " + "\n".join(r["msgs"])[:800], r["time_ms"] / 1000.0, meta))
    for e in an.get("unattributed", []):
        if verusrun.classify(e["msg"]) in ("false", "rlimit"):
            # an error whose span is in a spec/prelude chunk: make it visible, as undecided
            out.append(Result(f"{name}/unattributed", "V", "undecided", "\n".join(e["block"])[:800]))
    # flakiness guard: re-run once with a doubled rlimit before calling anything false
    if retry:
        rl = 10.0
        va = sc.get("verus_args", [])
        if "--rlimit" in va:
            rl = float(va[va.index("--rlimit") + 1])
        try:
            res2 = verusrun.run_verus(u, outdir + "-retry", extra_args=["--rlimit", str(rl * 2)])
            an2 = verusrun.analyse(u, res2)
            if not an2["unit_error"]:
                for r0 in out:
                    if r0.ob in retry and r0.status == "false":
                        st2 = an2["obligations"].get(r0.ob, {}).get("status")
                        if st2 in ("verified", "verified-trivially"):
                            r0.status = "undecided"
                            r0.detail = "unstable: failed at rlimit %s, verified at %s" % (rl, rl * 2)
        except Undecided:
            pass
    return out, info


def decide(prop, results, infos, baseline, known, tier, engines=("V", "K", "T", "S", "F")):
    """applies baseline / known-finding rules; returns (violations, undecided, known_hits, discharged)"""
    violations, undecided, known_hits, discharged, bounded = [], [], [], [], []
    bl_ob = baseline.get("obligations", {})
    bl_units = baseline.get("units", {})
    unit_hash = {i["unit"]: i.get("hash") for i in infos}
    for r in results:
        if r.status == "verified":
            discharged.append(r)
        elif r.status == "bounded-verified":
            bounded.append(r)
        elif r.status == "false":
            # a finding is identified by obligation AND (where the engine gives one) the signature of
            # what fails, so that a different violation of the same obligation is still reported
            kf = [k for k in known if k["obligation"] == r.ob and (k.get("sig") is None or k["sig"] == r.meta.get("sig"))]
            if kf:
                known_hits.append((r, kf[0]))
                continue
            unit = r.meta.get("unit")
            was = bl_ob.get(r.ob, {}).get("status")
            if r.engine == "T" and any(k.startswith("engine_t/") for k in bl_ob):
                # engine T's pristine verdict for a function that is not listed is "not on any call
                # cycle": a new guard-free cycle is a violation even though the id is new
                violations.append(r)
            elif was not in ("verified", "bounded-verified"):
                r.detail = "not recorded as discharged on the pristine tree; " + r.detail
                undecided.append(r)
            elif r.engine == "V" and unit in bl_units and bl_units[unit] == unit_hash.get(unit):
                r.detail = "extracted text identical to the pristine text: solver instability, not a violation; " + r.detail
                undecided.append(r)
            else:
                violations.append(r)
        else:
            undecided.append(r)
    # obligations of the baseline that did not show up at all
    seen = {r.ob for r in results}
    for ob, b in bl_ob.items():
        if prop in b.get("props", []) and ob not in seen and b.get("tier", "quick") in ("quick", tier) and b.get("engine", "V") in engines:
            if not any(r.ob.endswith("/*") and ob.startswith(r.ob[:-1]) for r in results):
                undecided.append(Result(ob, b.get("engine", "?"), "undecided", "obligation of the pristine tree was not generated in this run"))
    return violations, undecided, known_hits, discharged, bounded


def write_replay(prop, r, extra=None):
    os.makedirs(REPLAYS, exist_ok=True)
    h = hashlib.sha256((r.ob + r.detail).encode()).hexdigest()[:10]
    path = os.path.join(REPLAYS, f"{prop}-{r.ob.replace('/', '_')}-{h}.json")
    doc = {
        "property": prop,
        "obligation": r.ob,
        "engine": {"V": "verus", "K": "kani", "T": "recursion-measure (z3)", "S": "rustc"}.get(r.engine, r.engine),
        "function": r.meta.get("fn"),
        "contract": r.meta.get("contract"),
        "verifier_output": r.detail,
        "failing_input": None,
        "replayed_on_real_code": None,
    }
    if extra:
        doc.update(extra)
    with open(path, "w") as f:
        json.dump(doc, f, indent=1)
    return path


def main(argv=None):
    ap = argparse.ArgumentParser()
    ap.add_argument("prop")
    ap.add_argument("--tier", default=os.environ.get("VERIF_TIER", "quick"), choices=["quick", "thorough"])
    ap.add_argument("--replay")
    ap.add_argument("--rebaseline", action="store_true")
    ap.add_argument("--keep", action="store_true")
    ap.add_argument("--only", help="comma-separated engines (V,K,T,S)", default="V,K,T,S,F")
    args = ap.parse_args(argv)
    prop = args.prop
    seed = int(os.environ.get("VERIF_SEED", "0") or 0)
    t0 = time.time()

    if args.replay:
        import replay

        sys.exit(replay.run(args.replay))

    scratch = os.environ.get("VERIF_SCRATCH") or f"/var/tmp/verif-{os.getpid()}"
    os.makedirs(scratch, exist_ok=True)
    if not args.keep:
        atexit.register(lambda: shutil.rmtree(scratch, ignore_errors=True))
    S = Sources(scratch)
    baseline = load_baseline()
    known = load_known()
    engines = args.only.split(",")

    results, infos = [], []
    outdir = os.path.join(OUT, prop)
    os.makedirs(outdir, exist_ok=True)

    # ---- engine V
    units = unit_files_for(prop) if "V" in engines else []
    if units:
        # expansion once, up front (shared by all units)
        need_exp = any(sc.get("source", "expanded") == "expanded" or any(f.get("source") == "expanded" for f in sc.get("fn", [])) for _, sc in units)
        try:
            if need_exp:
                S("expanded")
            for _, sc in units:
                for lab in {sc.get("source", "expanded")} | {f.get("source") for f in sc.get("fn", []) if f.get("source")} | {t.get("source") for t in sc.get("type", []) if t.get("source")}:
                    S(lab)
        except Undecided as e:
            results.append(Result("V/*", "V", "undecided", f"{e.reason}: {e.detail}"))
            units = []
        with cf.ThreadPoolExecutor(max_workers=8) as ex:
            futs = [ex.submit(run_v_unit, p, sc, S, outdir, prop, args.tier, seed, baseline) for p, sc in units]
            for f in futs:
                rs, info = f.result()
                results += rs
                infos.append(info)

    # ---- engine K
    if "K" in engines:
        import kanirun

        rs, info = kanirun.run_for(prop, args.tier, scratch, outdir)
        results += rs
        infos += info

    # ---- engines T and S
    if "T" in engines:
        import engine_t

        rs, info = engine_t.run_for(prop, S, outdir)
        results += rs
        infos += info
    if "F" in engines:
        import engine_f

        rs, info = engine_f.run_for(prop, S, outdir, rebaseline=False)
        results += rs
        infos += info
        rs, info = engine_f.run_spans(prop, S, outdir, rebaseline=False)
        results += rs
        infos += info
        rs, info = engine_f.run_pairs(prop, S, outdir)
        results += rs
        infos += info
        rs, info = engine_f.run_builtins(prop, S, outdir)
        results += rs
        infos += info
        rs, info = engine_f.run_errkind(prop, S, outdir)
        results += rs
        infos += info
        rs, info = engine_f.run_maporder(prop, S, outdir)
        results += rs
        infos += info
        rs, info = engine_f.run_b64consts(prop, S, outdir)
        results += rs
        infos += info
        rs, info = engine_f.run_lexpos(prop, S, outdir)
        results += rs
        infos += info
        rs, info = engine_f.run_cyclechecks(prop, S, outdir)
        results += rs
        infos += info
    if "S" in engines:
        import engine_s

        rs, info = engine_s.run_for(prop, scratch, outdir)
        results += rs
        infos += info
        rs, info = engine_s.run_frames(prop, scratch, outdir)
        results += rs
        infos += info

    if args.rebaseline:
        bl = load_baseline()
        for r in results:
            if r.status in ("verified", "bounded-verified"):
                bl["obligations"][r.ob] = {"status": r.status, "engine": r.engine, "props": r.meta.get("props", [prop]), "tier": r.meta.get("tier", "quick")}
            elif r.ob in bl["obligations"]:
                del bl["obligations"][r.ob]
        for i in infos:
            if i.get("hash"):
                bl["units"][i["unit"]] = i["hash"]
        with open(BASELINE, "w") as f:
            json.dump(bl, f, indent=1, sort_keys=True)
        print(f"baseline updated: {len(bl['obligations'])} obligations")

    violations, undecided, known_hits, discharged, bounded = decide(prop, results, infos, baseline if not args.rebaseline else load_baseline(), known, args.tier, engines)

    # a Verus failure may have a Kani twin that yields a concrete input
    lines = []
    for r in violations:
        extra = None
        tail = " no-failing-input-found"
        try:
            import replay

            extra = replay.find_input_for(prop, r, scratch)
            if extra and extra.get("failing_input") is not None and extra.get("replayed_on_real_code", {}).get("reproduced"):
                tail = ""
        except Exception as e:  # replay is best effort
            extra = {"replay_error": repr(e)}
        path = write_replay(prop, r, extra)
        lines.append(f"VIOLATION property={prop} replay={path}{tail}")
    for (r, k) in known_hits:
        print(f"KNOWN-FINDING: property={prop} {r.ob}: {k['what']} (witness {k['witness']})")
    for r in undecided:
        print(f"UNDECIDED property={prop} obligation={r.ob} reason={r.detail[:300].replace(chr(10), ' | ')}")
    for ln in lines:
        print(ln)

    wall = time.time() - t0
    write_evidence(prop, args.tier, seed, results, infos, violations, undecided, known_hits, discharged, bounded, wall, S, engines)
    n_ob = len(discharged) + len(violations) + len(undecided)
    print(f"{prop} [{args.tier}]: {len(discharged)}/{n_ob} obligations discharged, {len(bounded)} bounded, {len(known_hits)} known findings, {len(violations)} violations, {len(undecided)} undecided, {wall:.1f}s")
    if violations:
        sys.exit(1)
    if undecided:
        sys.exit(2)
    if not discharged and not bounded:
        print(f"UNDECIDED property={prop} reason=vacuity guard: no obligation was generated")
        sys.exit(2)
    sys.exit(0)


def write_evidence(prop, tier, seed, results, infos, violations, undecided, known_hits, discharged, bounded, wall, S, engines=("V", "K", "T", "S", "F")):
    os.makedirs(EVIDENCE, exist_ok=True)
    trusted = []
    for i in infos:
        for t in i.get("trusted", []):
            tt = f"[{i['unit']}] {t}"
            if tt not in trusted:
                trusted.append(tt)
    by_backend = {}
    for r in discharged:
        k = {"V": "verus+z3", "K": "kani+cbmc", "T": "z3 (recursion measures)", "S": "rustc (auto traits)", "F": "frame audit (inventory)"}.get(r.engine, r.engine)
        by_backend[k] = by_backend.get(k, 0) + 1
    rewrites = {}
    for i in infos:
        for k, v in i.get("rewrites", {}).items():
            rewrites[k] = rewrites.get(k, 0) + v
    samples = []
    for r in discharged[:400]:
        if r.meta.get("contract") and len(samples) < 4:
            samples.append({"obligation": r.ob, "engine": r.engine, "function": r.meta.get("fn"), "contract": r.meta["contract"]})
    for r in discharged:
        if r.engine != "V" and len(samples) < 8:
            samples.append({"obligation": r.ob, "engine": r.engine, "what": r.meta.get("what", r.detail)[:300]})
    if not samples:
        samples = [{"obligation": r.ob, "engine": r.engine} for r in (discharged + bounded)[:5]]
    functions = []
    for i in infos:
        for f in i.get("functions", []):
            if f not in functions:
                functions.append(f)
    cmds = [i["cmd"] for i in infos if i.get("cmd")]
    n_ob = len(discharged) + len(violations) + len(undecided)
    assumptions = list(STANDING_ASSUMPTIONS)
    for i in infos:
        for a in i.get("assumptions", []):
            if a not in assumptions:
                assumptions.append(a)
    und_parts = UNDECIDED_PARTS.get(prop, [])
    doc = {
        "property_id": prop,
        "tier": tier,
        "seed": seed,
        "level": "proof",
        "coverage": {
            "obligations": n_ob,
            "discharged": len(discharged),
            "checker_cmd": " ; ".join(cmds)[:4000] if cmds else "none",
            "trusted_base": trusted,
            "samples": samples,
            "by_backend": by_backend,
            "functions_under_contract": functions,
            "solver_time_s": round(sum(i.get("smt_s", 0) for i in infos), 2),
            "engine_wall_s": {i["unit"]: round(i.get("wall_s", 0), 2) for i in infos},
            "bounded": [{"obligation": r.ob, "bound": r.meta.get("bound", "")} for r in bounded],
            "bounded_discharged": len(bounded),
            "rewrites_applied": rewrites,
            "known_findings": [{"obligation": r.ob, "what": k["what"], "witness": k["witness"]} for (r, k) in known_hits],
            "undecided_parts": und_parts,
            "undecided_obligations": [{"obligation": r.ob, "reason": r.detail[:300]} for r in undecided],
            "violated_obligations": [r.ob for r in violations],
            "source_expansion_s": round(S.expand_s, 1),
            "obligation_list": sorted(r.ob for r in discharged),
            "exhaustive": False,
        },
        "assumptions": assumptions + ["undecided part of the property: " + p for p in und_parts],
        "wall_s": round(wall, 2),
        "violations": len(violations),
    }
    # a partial run (engine filter, scratch copy of the repository, a subset of Kani groups) is a developer
    # run: its record goes to out/, never over the evidence file of the registered command
    partial = set(engines) != {"V", "K", "T", "S", "F"} or os.environ.get("VERIF_REPO", "/repo") != "/repo" or bool(os.environ.get("VERIF_KANI_GROUPS")) or bool(os.environ.get("VERIF_EVAL_RUN"))
    dest = os.path.join(VERIF, "out", prop, "evidence_partial.json") if partial else os.path.join(EVIDENCE, prop + ".json")
    os.makedirs(os.path.dirname(dest), exist_ok=True)
    with open(dest, "w") as f:
        json.dump(doc, f, indent=1)


STANDING_ASSUMPTIONS = [
    "soundness of Verus 0.2026.09.13 + Z3, Kani 0.68 + CBMC 6.11, rustc",
    "the extractor (tools/vx + lib/vx.py) copies source byte ranges verbatim and changes executable text only by the rewrite rules counted in coverage.rewrites_applied (DESIGN 2.2)",
    "only the default feature set of tera is verified",
    "composition of the proved function contracts into the whole-template property is an argument in DESIGN.md, not a proof",
]

UNDECIDED_PARTS = {}
try:
    with open(os.path.join(VERIF, "contracts", "undecided_parts.json")) as _f:
        UNDECIDED_PARTS = json.load(_f)
except Exception:
    pass
