"""Where the verified text comes from: /repo's current working tree.

`expanded`: the compiler's own macro expansion of the `tera` crate
(`cargo +nightly rustc --lib --profile=check -- -Zunpretty=expanded`), produced on every run
from /repo as it is now; cfg attributes are resolved for the default feature set and
crate-local macros (`math!`, `rendering_error!`, ...) are expanded by rustc, not by hand.
Any other label is a path relative to /repo, read as is.
"""
import os
import shutil
import subprocess
import time

from vx import Src, Undecided, VERIF

REPO = os.environ.get("VERIF_REPO", "/repo")
CACHE = os.path.join(VERIF, "build")


class Sources:
    def __init__(self, scratch):
        self.scratch = scratch
        self.cache = {}
        self.expand_s = 0.0

    def expanded_path(self, crate="tera"):
        out = os.path.join(self.scratch, f"expanded_{crate}.rs")
        if os.path.exists(out):
            return out
        pre = os.environ.get("VX_EXPANDED_" + crate.upper().replace("-", "_"))
        if pre and os.path.exists(pre):
            return pre
        tdir = os.path.join(CACHE, "expand-target")
        os.makedirs(tdir, exist_ok=True)
        env = dict(os.environ)
        env["CARGO_TARGET_DIR"] = tdir
        env["CARGO_NET_OFFLINE"] = "true"
        t0 = time.time()
        cmd = ["cargo", "+nightly", "rustc", "--offline", "-p", crate, "--lib", "--profile=check"]
        if crate == "tera-contrib":
            cmd += ["--features", "base64,urlencode,json,slug"]
        cmd += ["--", "-Zunpretty=expanded"]
        p = subprocess.run(cmd, cwd=REPO, env=env, capture_output=True)
        self.expand_s += time.time() - t0
        if p.returncode != 0:
            raise Undecided("expand-failed", p.stderr.decode(errors="replace")[-1500:])
        with open(out, "wb") as f:
            f.write(p.stdout)
        return out

    def __call__(self, label):
        if label in self.cache:
            return self.cache[label]
        if label == "expanded":
            s = Src(self.expanded_path("tera"), "expanded(tera)")
        elif label == "expanded-contrib":
            s = Src(self.expanded_path("tera-contrib"), "expanded(tera-contrib)")
        else:
            s = Src(os.path.join(REPO, label), label)
        self.cache[label] = s
        return s
