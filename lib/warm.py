"""warm the dependency caches (best effort; checks work without it, only slower)"""
import os, sys, shutil, subprocess, tempfile
sys.path.insert(0, os.path.dirname(os.path.abspath(__file__)))
from sources import Sources
import kanirun

scratch = f"/var/tmp/verif-warm-{os.getpid()}"
os.makedirs(scratch, exist_ok=True)
try:
    S = Sources(scratch)
    S.expanded_path("tera")
    print("expansion cache warm")
    root = os.path.join(scratch, "kani-src")
    kanirun.copy_repo(root)
    env = dict(os.environ); env["CARGO_NET_OFFLINE"] = "true"
    for crate, feats in (("tera", None), ("tera-contrib", "base64,urlencode,json,slug")):
        tdir = os.path.join(kanirun.CACHE, "kani-target-" + crate)
        cmd = ["cargo", "kani", "-p", crate, "--target-dir", tdir, "--only-codegen"]
        if feats: cmd += ["--features", feats]
        p = subprocess.run(cmd, cwd=root, env=env, capture_output=True, timeout=1200)
        print("kani warm", crate, p.returncode)
finally:
    shutil.rmtree(scratch, ignore_errors=True)
