"""What is claimed per property (source of MANIFEST.json; see tools/mkmanifest.py)."""

CLAIMS = {
    "C13": {
        "engine": "V+K",
        "technique": "Verus postconditions on the extracted real arithmetic functions against mathematical-integer specs; Kani full-domain loop-free harnesses for float/int comparison against a bit-level oracle",
        "text": "Proof for all inputs: every integer operator (+ - * // % ** and negation) of tera/src/value/number.rs returns the mathematically exact result when it fits i128 and Err otherwise (Verus, unbounded, on the compiler-expanded real text); equality/ordering of every pair of the five numeric encodings equals the exact mathematical order (Kani, full machine domain, 25 representation pairs, comparators proved against an IEEE bit-level oracle).",
        "note": "Assumed: vstd's specs of checked_{add,sub,mul,div_euclid,rem_euclid}; assume_specification for checked_neg/checked_pow/i128::try_from(u128); float arithmetic results uninterpreted in Verus (IEEE result taken as the definition); routing of the VM operator arms to these functions is read, not proved.",
        "design_ref": "DESIGN.md section 4, C13",
    },
    "C09": {
        "engine": "V",
        "technique": "Verus loop invariants and lemmas on the extracted real text of Chunk::optimize (structural + content postcondition for all instruction sequences); Verus contracts on the fused LoadPath/WritePath arms of interpret plus lemmas that they equal the composition of the unfused arms' contracts",
        "text": "Proof, unbounded: for every instruction sequence whose jump targets are in range, Chunk::optimize (real text, 60-variant Instruction enum) returns a sequence related to the input by an index map such that order is kept, only LoadAttr/WriteTop that no jump targets are absorbed, groups start with a LoadName other than the dump variable, un-merged instructions are verbatim with jump targets sent through the map (so every jump lands on the instruction it pointed to), and each fused LoadPath/WritePath carries exactly the name, attributes and spans of its group (WritePath iff the group ends in WriteTop). Index accesses and both unreachable!() are proved safe. Semantic half, at the level of arm contracts: the real LoadPath arm computes lp_walk and the real WritePath arm computes write_path_result (proved on the lifted arm bodies), and lemmas prove lp_walk == LoadName;LoadAttr* run one after the other and write_path_result == LoadPath;WriteTop (same success/failure, same value written).",
        "note": "Undecided: the glue between arms inside interpret (the dispatch loop, ip arithmetic), error message/position equality, spans pushed with values; the precondition 'jump targets <= len' is established by the compiler (read, not proved); value_facts (undefined() is undefined, an undefined value has no attributes) is assumed. Assumed std contracts: mem::take, mem::replace+Clone on a vector element (R6), Vec::extend (R11).",
        "design_ref": "DESIGN.md section 4 C09, Appendix A.5",
    },
    "C14": {
        "engine": "V+K",
        "technique": "Verus proof of the real slice_items against a CPython-slice spec (unbounded); Kani full-domain harness on resolve_index",
        "text": "Proof for all lengths and all Option<i128> start/stop and all non-zero i128 steps: Value::slice::slice_items returns exactly the elements Python's slice selects, in order, with every index in bounds and the loop terminating (saturation at the ends of i128 handled); index normalisation resolve_index proved over all i128/u128 indices and all lengths.",
        "note": "The Slice/SliceOpt and BinarySubscript arms of interpret are under contract too (operand validation, optional variants). Character-wise string handling: iteration over a string (the String arm of ForLoopIterator::next) is under a Verus contract over the character-sequence model of str: each call yields exactly the next CHARACTER, the position stays on a character boundary (the slice preconditions are proved) and `remaining` counts what is left; Value::len bounded (<= 3 bytes); string reverse did not finish in CBMC and is NOT decided (truncate: unit strfilters, C17). Assumed: i128::saturating_add and Ord::clamp contracts.",
        "design_ref": "DESIGN.md section 4 C14, Appendix A.1",
    },
    "C15": {
        "engine": "K+V",
        "technique": "Kani full-domain loop-free harnesses on KeyNumber / Key Eq-Ord-Hash (recording hasher) and on Value comparison of scalars against a mathematical oracle; Verus units use the order only through its laws",
        "text": "Proof over the full machine domain: KeyNumber eq is equality of mathematical values and cmp their order across signed/unsigned representations, equal numbers feed an identical byte stream to the hasher; Key eq/cmp over all Bool/U64/I64/U128/I128 pairs is the (rank, value) order, antisymmetric, Equal iff ==, equal keys hash identically across widths; every pair of the five numeric Value encodings compares by exact mathematical value (group numcmp); a float never equals / is never ordered against a non-number; Value::as_key maps each scalar kind to the same-representation Key.",
        "note": "Strings are bounded (<= 2 bytes). Nested arrays/maps: the structural fallback added by fix fb33f23 (cmp Equal only for ==) is NOT under contract yet — it is exercised only through the C16 unit's assumption; HashMap::get is std's contract; the get_attr scan/hash cutoff equivalence was not reached.",
        "design_ref": "DESIGN.md section 4 C15",
    },
    "C16": {
        "engine": "V",
        "technique": "Verus on the extracted real sort / unique / first / last / nth against specifications over an abstract order (C15's laws assumed): loop invariant with a ghost position map for unique, std's stable-sort contract at the named sort_by sites",
        "text": "Proof, unbounded, given a lawful order: unique returns, in first-occurrence order, exactly the first member of every class of equal elements (well-ordering lemma proved); sort returns a permutation of its input that is non-decreasing and keeps equal keys in input order, both plainly and by attribute (every element must have the attribute), and accepts only sequences whose adjacent non-none keys are comparable; first/last/nth agree with indexing and yield none out of range.",
        "note": "Assumed: Ord for Value is total/transitive with Equal only for == (C15: engine K on scalars, fix fb33f23 for arrays/maps), std's contracts of sort_by (stable) / BTreeSet / to_vec; ensure_comparable's own body (it takes impl Iterator: not extractable) and get_from_path are trusted declarations; group_by, join/split, reverse/length are not decided.",
        "design_ref": "DESIGN.md section 4 C16",
    },
    "C17": {
        "engine": "V+K+F",
        "technique": "Verus proof of the real functions::range (exact progression, overflow freedom, cap); Verus contracts on twelve real string/map filters against a character-sequence model of str in which byte offsets are meaningful only on character boundaries (slicing and split_at carry that precondition); Kani full-domain harnesses on numeric tests, conversions, abs/int/round/default and typed argument extraction",
        "text": "Proof, unbounded: range() returns Err for step 0 and for start > end with positive step, otherwise exactly the arithmetic progression start + i*step strictly on the near side of end, at most 100000 elements, with start + i*step_by never overflowing. String filters, for all texts and all keyword arguments: capitalize = first CHARACTER upper-cased + rest lower-cased; truncate keeps exactly the first `length` characters plus the end marker (default the ellipsis) and returns a text of at most `length` characters unchanged, its slice offset proved to be a character boundary; trim/trim_start/trim_end use the pattern forms iff `pat` is given, on the right ends; replace(from, to) in that order; pluralize: singular suffix iff the integer is 1 or -1, error for non-integers, documented defaults; upper/lower; escape_xml = character-wise the five XML entities, output free of < > \" '; title = the documented word-wise fold (apostrophe does not start a word); get = entry, else default, else error; length = Value::len or error. A missing or mistyped keyword argument surfaces as the extraction error.",
        "note": "Kwargs::get/must_get are trusted declarations with uninterpreted results (typed extraction itself: engine K group builtins_args); str::trim*/replace/to_uppercase/to_lowercase/char_indices/chars and String::push* are std contracts over the character sequence (ASSUMED, named per site); indent, newlines_to_br, wordcount, join, split, reverse, group_by, date filters are not decided; the registration table of built-ins is an audited inventory (engine F), not a proof; i128::checked_neg assumed.",
        "design_ref": "DESIGN.md section 4 C17",
    },
    "C01": {
        "engine": "V+K+F",
        "technique": "Verus on the extracted real escape_html (all strings) and on the WriteTop/WritePath arms of interpret lifted mechanically into functions (arm extraction); Kani table for the safe mark",
        "text": "Proof: (1) the default escaper writes exactly esc(input) for every string, esc containing none of < > \" ' (unbounded); (2) the two sink arms of the VM write, to the current sink and nowhere else, fmt(v) if autoescape is off or v is safe and escape_fn(fmt(v)) otherwise, an undefined value being an error (for all states); (3) autoescape_enabled is the per-call override if present else the template flag; the unsafe from_utf8_unchecked precondition at both sinks is discharged.",
        "note": "Assumed: Value::format writes fmt_spec (valid UTF-8) or fails leaving a prefix; the escape function pointer behaves as its spec; data flow through the other arms and the mint points of the safe mark are read, not proved.",
        "design_ref": "DESIGN.md section 4 C01",
    },
    "C02": {
        "engine": "V+K",
        "technique": "Verus contracts on 19 arms of interpret lifted mechanically (arm extraction): undefined rules, operand checks, stack effects; Kani exhaustive check of the binding-power table against the documented table",
        "text": "Proof for all VM states: LoadAttr/LoadAttrOpt, BinarySubscript(Opt), Slice(Opt), WritePath tolerate exactly one level of undefined (`?.`/`?[` turn none/undefined bases into undefined; a missing last field is undefined; an undefined base is an error); arithmetic arms reject non-numbers and push exactly number::<op>'s result; ordering arms error on incomparable kinds; Equal/NotEqual/Not/In push exactly the value-level result. Each arm's stack effect (pops/pushes, everything below untouched) is part of its contract.",
        "note": "Value-level functions are trusted declarations inside the arm unit (their bodies are proved in units number/slice and engine-K groups); control transfer (the enclosing loop, ip += 1) is dropped by arm extraction; the Pratt loop and jump patching are not decided.",
        "design_ref": "DESIGN.md section 4 C02, 2.2.1",
    },
    "C03": {
        "engine": "V",
        "technique": "Verus on the extracted real ForLoop/Loop methods against the loop.* protocol invariant, and on State::get_value against the documented scope order",
        "text": "Proof, unbounded: ForLoop::new/advance/is_over and Loop::advance maintain the protocol invariant (index0, first, last, length, current value, per-iteration locals cleared on every advance but the first, is_over exactly at the end) for every container; State::get_value returns exactly the documented resolution: innermost loop first, then set variables, then the includer's chain if it yields something defined, then the context, then the global context, else undefined (recursion through include_parent included).",
        "note": "ForLoopIterator is abstracted to the sequence still to be yielded; maps are opaque with a lookup view; compilation of if/for/break/continue and the capture/set arms are not decided.",
        "design_ref": "DESIGN.md section 4 C03",
    },
    "C04": {
        "engine": "V",
        "technique": "Verus contracts on two loop regions of finalize_templates lifted mechanically into functions (R34 region extraction) against recursive specifications of block lineage, with lemmas; Verus contracts and in-body obligations on the RenderBlock and CallFunction(super) arms of interpret lifted mechanically (arm extraction; the re-entry into interpret is a trusted declaration carrying the inductive hypothesis), on render_to, and on find_parents",
        "text": "Proof of the DISPATCH half for all VM states: RenderBlock runs lineage[0] (the most-derived definition) with the block pushed at level 0 and recorded as current, is an error when the block has no lineage, restores chunk/current block/block stack and lets a failing body surface; super() looks up the TOPMOST entry of the current block, is an error outside a block or at the last level, runs lineage[level + 1] with level + 1 recorded and the capture stack set aside, restores everything and yields the parent's text minted safe; render_to starts from the chunk of parents[0] and find_parents returns the chain root-first. CONSTRUCTION half, unbounded, for all templates, chains and map iteration orders: (a) the lineage loop gives every block a template defines its own chunk followed, only if that calls super(), by the same block of its ancestors nearest first, skipping ancestors that do not define it and stopping after the first that does not call super(); (b) the inheritance pass leaves in every template exactly the blocks that it or an ancestor defines, each with the template's own lineage if it has one and otherwise that of the NEAREST ancestor that has one (whatever order the unordered maps are visited in).",
        "note": "NOT decided: the glue between the regions inside finalize_templates (that (a) feeds (b), read), 'child blocks must exist in some ancestor', single-block capture. Region (b) assumes what find_parents' contract provides: every ancestor is a registered template whose own chain is the part of the chain above it. HashMap get/insert/entry/iteration are std contracts over abstract map views; `get_mut(..).unwrap()` + `entry(..).or_insert(..)` are modelled jointly as an insert-if-absent through a handle. The nested interpret call is assumed to leave the block bookkeeping as it found it (inductive hypothesis); the VM invariants about the block stack are arm preconditions.",
        "design_ref": "DESIGN.md section 0 and section 3 (C04)",
    },
    "C05": {
        "engine": "V+T+K",
        "technique": "Verus on the extracted real ComponentDefinition::build_context (two loops, closure parameter, ghost lookup function), render_component / render_include (depth guard), engine T on the VM call graph, Kani table for type matching",
        "text": "Proof for all definitions, argument sets and lookup functions: build_context rejects undeclared arguments when no rest parameter is declared, rejects a value that does not match the declared/inferred type and a missing required argument, and on success returns a context that binds every declared parameter to the caller's value else the default, holds the rest map (exactly the undeclared arguments with their values) under the rest name and the body under `body`, and NOTHING else (isolation); the internal unreachable!() is proved unreachable. render_component returns Err before rendering once depth + 1 exceeds the limit and runs the nested VM at depth + 1 with the same autoescape override; render_include passes depth and override through; every VM call cycle through render_component passes that guard.",
        "note": "The type table (type_matches) is a trusted declaration in the Verus unit and proved by Kani group types; the component! macro arm of interpret (lookup priority, minting the result safe), the priority table in finalize_templates and API/template equivalence are not decided.",
        "design_ref": "DESIGN.md section 0.3, section 4 C05",
    },
    "C06": {
        "engine": "V+T+K",
        "technique": "recursion-measure obligations generated from the call graph of the real parser/compiler (z3), Verus on the two depth guards, Kani on delimiter validation and byte-window helpers",
        "text": "Proof: every call cycle among the parser's functions passes a depth-counting guard except the ones listed as known findings (elif chains; the compiler's recursion over the AST); the guards inner_parse_expression and parse_until reject at MAX_RECURSION_DEPTH without calling their body and restore the counter on every path.",
        "note": "Known findings D1/D2 (stack overflow at registration) are reported, not claimed; the tokenizer is not decided; the guards' callees are assumed to restore the counter (inductive hypothesis).",
        "design_ref": "DESIGN.md section 4 C06, 2.4",
    },
    "C07": {
        "engine": "V+K+F",
        "technique": "Verus: Stack push/pop/peek contracts (expect => precondition), per-arm stack effects with 'pops <= |stack|' as precondition, unsafe from_utf8_unchecked preconditions at the sinks; Kani bounded on SmartString",
        "text": "Proof: Stack::pop/peek panic only on an empty stack (their precondition), every extracted arm pops no more than its stated precondition provides and leaves everything below untouched; both from_utf8_unchecked sites in interpret are preceded by Value::format filling the buffer (obligation discharged given format writes UTF-8).",
        "note": "The bulk of the property (stack balance of compiled code, reference collection completeness, span presence) is not decidable by contracts within reach and is listed as undecided.",
        "design_ref": "DESIGN.md section 4 C07",
    },
    "C11": {
        "engine": "V+T+F",
        "technique": "Verus on the extracted real find_parents (recursive, with termination measure and pigeonhole lemma); engine T on the VM call graph",
        "text": "Proof, unbounded over all registries: find_parents returns Ok(ps) iff the extends chain from start is complete, duplicate-free and ends in a template that extends nothing, ps being that chain root-first; Err(MissingParent) implies a dangling link on the chain, Err(CircularExtend) implies the chain revisits a template; it terminates (decreases |names| - |parents|).",
        "note": "Tera is opaque (names, resolution function, stored template); check_include_cycles is not decided; runtime termination has known finding D3.",
        "design_ref": "DESIGN.md section 4 C11",
    },
    "C18": {
        "engine": "V+S",
        "technique": "rustc discharges Send+Sync bounds; Verus proves Err-propagation and the prefix property at escape_html and at both sink arms under a writer that may fail at any call",
        "text": "Proof: Tera, Context, Value, Error, Kwargs, State, Number are Send + Sync (type checker); with a writer that may fail at any write_all, escape_html and the WriteTop/WritePath arms return Err (never Ok) and what the sink holds is an extension of what it held and a prefix of the failure-free output.",
        "note": "No schedule is explored (the only concurrency claim is type-level); propagation through the other `?` sites of interpret is read.",
        "design_ref": "DESIGN.md section 4 C18",
    },
    "C08": {
        "engine": "V+K",
        "technique": "Verus contract on the closure of whitespace_filter converted mechanically into a function (R31) plus a stream-level lemma; Verus proof of skip_tag against the documented tag grammar; Verus contract on the WriteText arm of interpret (arm extraction); Kani bounded harnesses on the lexer's start-marker search",
        "text": "Proof, unbounded: (1) one call of the whitespace filter emits, for a literal text (template text or raw body), the text with its start trimmed iff the token DIRECTLY before ended with a dash and its end trimmed iff the token DIRECTLY after starts with one; a comment becomes empty text; every other token passes unchanged; the carried flag afterwards depends on the token just consumed and on nothing older; lemma: over a whole token stream the output at position i is a function of tokens i-1, i, i+1 only, and text with no dashed neighbour is untouched. (2) skip_tag accepts exactly `-? ws* NAME ws* -? END`, returns the byte length of that prefix and the dash facing what follows the tag. (3) the WriteText arm appends exactly the bytes of the literal text to the current sink, unescaped, touches no other sink and surfaces a writer failure as Err.",
        "note": "The tokenizer state machine itself (raw/comment scanning offsets, byte slicing) and the parser's dropping of empty text are not decided; str::trim_start/trim_end/strip_prefix are std contracts over the character sequence (byte length additive, assumed); iter::from_fn + Peekable are std contracts (the closure is run once per output token); find_start_marker/memstr are bounded Kani harnesses. One genuine defect found by stating (1) and fixed (10bdcfc).",
        "design_ref": "DESIGN.md section 4 C08",
    },
    "C12": {
        "engine": "V+K+F",
        "technique": "Verus contracts on the extracted Span::expand, Chunk::expand_span and SourceLocation::new (the latter over the character-sequence model of str: every slice offset must be proved a character boundary); Kani full-domain contract on combine_spans; frame audit of span-less emit sites",
        "text": "Proof: Span::expand keeps the start fields and takes end line/column/range end from the other span; Chunk::expand_span returns None iff an endpoint instruction has no span and otherwise a span that starts where the first starts and ends where the last ends; combine_spans returns the least range covering both; SourceLocation::new, for every source and every span that starts on an existing line: picks exactly that line (newline trimmed), slices only at line starts, and builds the marker line as one blank (a tab under a tab) per CHARACTER before the start column followed by end_col - start_col carets (one when the span is empty), never panicking.",
        "note": "Line/column bookkeeping in the tokenizer (that a span's start line exists is SourceLocation::new's precondition) and report_target are not decided; get_line_starts and get_span are trusted declarations; derived Clone of Span assumed to return an equal value; the span audit (engine F) is an inventory, not a proof.",
        "design_ref": "DESIGN.md section 4 C12",
    },
    "C10": {
        "engine": "V+S",
        "technique": "Verus on the real add_raw_templates / add_template_files / add_file (the immediately-invoked closure converted mechanically into a method, R31; the reversed undo loop as a pop loop, R32) against an undo-log specification over the abstract name->template map; rustc as frame checker for finalize_templates (its exit-bearing prefix re-typed to a shared borrow of *self)",
        "text": "Proof of the FAILURE half for all batches and all prior registry states: when add_raw_templates / add_template_files return Err, the name->template map (every template with its derived data), the delimiters and every other field of the instance are exactly as before the call: each insertion is logged with the entry it replaced (faithful log, loop invariant undo_all(map, log) == map0), a failing parse or a failing finalize leaves the log consistent, and undoing the log from its last entry restores the map (duplicate names inside a batch included). finalize_templates returns Err only while *self is shared-borrowed (every `?`/`return` lies in a prefix that type-checks with `&Tera`; the commit statements that follow have no exit), so a failing finalize has written nothing. add_file: Err leaves the instance untouched, Ok inserts exactly one entry and reports what it replaced. One clause of the success half: the last statements of finalize_templates REPLACE the component table by the one built in this call (nothing of the old table survives).",
        "note": "NOT decided (honest gap): the SUCCESS half (equivalence with a fresh instance given the same set), independence of order/grouping, and replacement being seen everywhere are properties of finalize_templates' results over HashMap iteration and of whole histories; no contract within reach expresses them. Assumed: std HashMap insert/remove contracts over an abstract map view, Template::new does not touch the registry (it has no access to it), no interior mutability in Tera, panics are not error returns. Verified at one instance of the generic parameters (Vec<(String, String)>, Vec<(&Path, Option<String>)>): the generic code is the same text.",
        "design_ref": "DESIGN.md section 0.3 (C10)",
    },
    "C19": {
        "engine": "K",
        "technique": "Kani loop-free full-domain harnesses on the real ValueSerializer / MapKeySerializer (one per primitive) and on the three deserializer entry points with a recording Visitor, decided per half against serde's visitor protocol",
        "text": "Proof over full primitive domains: serialize_<t>(x) yields exactly the Value kind and payload for every integer width, f32/f64 (same bits), bool, every char (normal, not safe, string), none/unit/some; the key serializer accepts exactly bool/integer/char/str keys (integers of all ten widths map to the key equal to the same mathematical integer) and refuses floats, bytes, none, unit, seq, tuple, map, struct; deserialize_any / deserialize_u64-style hints / deserialize_option on ValueDeserializer, Value and &Value call the matching visit_* with the same payload for every scalar kind (option: visit_some for present values, on all three entry points).",
        "note": "The end-to-end round trip through serde's own Deserialize impls does not finish in CBMC: serde's impls for primitives, Option, tuples, Vec, maps and derived types are a dependency contract (assumed). Strings/sequences bounded (<= 2-3 bytes / 2 elements). Maps/structs/enums inside the HashMap-backed Map not decided (two genuine defects there were found by native probing and fixed: by-reference Option/enum, newtype structs).",
        "design_ref": "DESIGN.md section 4 C19",
    },
    "C20": {
        "engine": "V+K",
        "technique": "Verus contracts on the real b64_encode / b64_decode (tera-contrib, expanded) against the (alphabet, padding) option table, plus a lossless lemma over the two contracts; Kani exhaustive enumeration of all 256 byte values through the real private percent-encode sets",
        "text": "Proof: (1) b64_encode uses, for each of the four (url_safe, padded) combinations, the engine with exactly that alphabet and padding (defaults false / true), b64_decode picks the decoder by url_safe and fails exactly when base64 or UTF-8 decoding fails; lemma: decoding with the same url_safe returns the encoded text for every padding choice. (2) By complete enumeration: with the non-strict set a byte is emitted verbatim iff it is an ASCII letter, digit, one of -._~ or '/', otherwise as an upper-case %XX escape of exactly that byte (so '%' itself is escaped and decoding is unambiguous); with the strict set verbatim iff ASCII alphanumeric.",
        "note": "Losslessness rests on the contracts of the base64 / percent-encoding / serde_json / slug crates (third-party, ASSUMED: axiom_b64_roundtrip, the meaning of the four engine constants and of the two decode engines defined in the file); Kwargs::get is a trusted declaration; json_encode and slug not decided.",
        "design_ref": "DESIGN.md section 4 C20, section 0.3",
    },
}

_PENDING = "no check is registered for this property yet in this build of the machinery"
NOT_APPLICABLE = {
}
for _p in ["C01", "C02", "C10", "C03", "C05", "C06", "C07", "C08", "C09", "C11", "C12", "C14", "C15", "C16", "C17", "C18", "C19", "C20"]:
    if _p not in CLAIMS:
        NOT_APPLICABLE[_p] = _PENDING
