"""What is claimed per property (source of MANIFEST.json; see tools/mkmanifest.py)."""

CLAIMS = {
    "C13": {
        "engine": "V+K",
        "technique": "Verus postconditions on the extracted real arithmetic functions against mathematical-integer specs; Kani full-domain loop-free harnesses for float/int comparison against a bit-level oracle",
        "text": "Proof for all inputs: every integer operator (+ - * // % ** and negation) of tera/src/value/number.rs returns the mathematically exact result when it fits i128 and Err otherwise (Verus, unbounded, on the compiler-expanded real text); equality/ordering of every pair of the five numeric encodings equals the exact mathematical order (Kani, full machine domain, 25 representation pairs, comparators proved against an IEEE bit-level oracle).",
        "note": "Assumed: vstd's specs of checked_{add,sub,mul,div_euclid,rem_euclid}; assume_specification for checked_neg/checked_pow/i128::try_from(u128); float arithmetic results uninterpreted in Verus (IEEE result taken as the definition); routing of the VM operator arms to these functions is read, not proved.",
        "design_ref": "DESIGN.md section 4, C13",
    },
}

_PENDING = "no check is registered for this property yet in this build of the machinery"
NOT_APPLICABLE = {
    "C04": "block lineage is computed inline in the 150-line finalize_templates over nested HashMaps and consumed by interpreter arms that re-enter interpret: no function within reach of Verus or Kani carries it (DESIGN.md section 3)",
    "C10": "atomic registration is a property of histories of add_raw_templates implemented by a closure capturing &mut self (rejected by Verus) plus finalize_templates (out of reach, see C04); Kani cannot execute the registry (HashMap of templates) (DESIGN.md section 3)",
}
for _p in ["C01", "C02", "C03", "C05", "C06", "C07", "C08", "C09", "C11", "C12", "C14", "C15", "C16", "C17", "C18", "C19", "C20"]:
    if _p not in CLAIMS:
        NOT_APPLICABLE[_p] = _PENDING
