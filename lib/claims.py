"""What is claimed per property (source of MANIFEST.json; see tools/mkmanifest.py)."""

CLAIMS = {
    "C13": {
        "engine": "V+K",
        "technique": "Verus postconditions on the extracted real arithmetic functions against mathematical-integer specs; Kani full-domain loop-free harnesses for float/int comparison against a bit-level oracle",
        "text": "Proof for all inputs: every integer operator (+ - * // % ** and negation) of tera/src/value/number.rs returns the mathematically exact result when it fits i128 and Err otherwise (Verus, unbounded, on the compiler-expanded real text); equality/ordering of every pair of the five numeric encodings equals the exact mathematical order (Kani, full machine domain, 25 representation pairs, comparators proved against an IEEE bit-level oracle).",
        "note": "Assumed: vstd's specs of checked_{add,sub,mul,div_euclid,rem_euclid}; assume_specification for checked_neg/checked_pow/i128::try_from(u128); float arithmetic results uninterpreted in Verus (IEEE result taken as the definition); routing of the VM operator arms to these functions is read, not proved.",
        "design_ref": "DESIGN.md section 4, C13",
    },
    "C09": {
        "engine": "V",
        "technique": "Verus loop invariants and lemmas on the extracted real text of Chunk::optimize: structural + content postcondition for all instruction sequences",
        "text": "Proof, unbounded: for every instruction sequence whose jump targets are in range, Chunk::optimize (real text, 60-variant Instruction enum) returns a sequence related to the input by an index map such that order is kept, only LoadAttr/WriteTop that no jump targets are absorbed, groups start with a LoadName other than the dump variable, un-merged instructions are verbatim with jump targets sent through the map (so every jump lands on the instruction it pointed to), and each fused LoadPath/WritePath carries exactly the name, attributes and spans of its group (WritePath iff the group ends in WriteTop). Index accesses and both unreachable!() are proved safe.",
        "note": "Undecided: semantic equivalence of the fused VM arms (LoadPath/WritePath) with the unfused sequence (two-program equivalence inside interpret); the precondition 'jump targets <= len' is established by the compiler (read, not proved). Assumed std contracts: mem::take, mem::replace+Clone on a vector element (R6), Vec::extend (R11).",
        "design_ref": "DESIGN.md section 4 C09, Appendix A.5",
    },
    "C14": {
        "engine": "V+K",
        "technique": "Verus proof of the real slice_items against a CPython-slice spec (unbounded); Kani full-domain harness on resolve_index",
        "text": "Proof for all lengths and all Option<i128> start/stop and all non-zero i128 steps: Value::slice::slice_items returns exactly the elements Python's slice selects, in order, with every index in bounds and the loop terminating (saturation at the ends of i128 handled); index normalisation resolve_index proved over all i128/u128 indices and all lengths.",
        "note": "Undecided: the Slice/SliceOpt operand-validation arm of interpret, character-wise string handling beyond bounded harnesses. Assumed: i128::saturating_add and Ord::clamp contracts.",
        "design_ref": "DESIGN.md section 4 C14, Appendix A.1",
    },
    "C17": {
        "engine": "V+K",
        "technique": "Verus proof of the real functions::range (exact progression, overflow freedom, cap); Kani full-domain harnesses on numeric tests and conversions",
        "text": "Proof, unbounded: range() returns Err for step 0 and for start > end with positive step, otherwise exactly the arithmetic progression start + i*step strictly on the near side of end, at most 100000 elements, with start + i*step_by never overflowing.",
        "note": "Kwargs::get/must_get are trusted declarations with uninterpreted results; std-delegating string filters are std's contract; i128::checked_neg assumed.",
        "design_ref": "DESIGN.md section 4 C17",
    },
}

_PENDING = "no check is registered for this property yet in this build of the machinery"
NOT_APPLICABLE = {
    "C04": "block lineage is computed inline in the 150-line finalize_templates over nested HashMaps and consumed by interpreter arms that re-enter interpret: no function within reach of Verus or Kani carries it (DESIGN.md section 3)",
    "C10": "atomic registration is a property of histories of add_raw_templates implemented by a closure capturing &mut self (rejected by Verus) plus finalize_templates (out of reach, see C04); Kani cannot execute the registry (HashMap of templates) (DESIGN.md section 3)",
}
for _p in ["C01", "C02", "C03", "C05", "C06", "C07", "C08", "C09", "C11", "C12", "C14", "C15", "C16", "C17", "C18", "C19", "C20"]:
    if _p not in CLAIMS:
        NOT_APPLICABLE[_p] = _PENDING
