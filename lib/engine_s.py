"""Engine S: obligations discharged by the Rust type checker (DESIGN 2.5) — filled in below."""


def run_for(prop, scratch, outdir):
    return [], []
