"""Engine S: obligations discharged by the Rust type checker (DESIGN 2.5).

`Tera`, `Context`, `Value`, `Error`, `Kwargs`, `State` are `Send + Sync` (C18: "the engine,
context, value and error types stay usable across threads").  A tiny crate that depends on the
working tree's `tera` by path contains one bound check per type; `cargo check` discharges them.
A field that removes `Sync` makes that line fail to type-check: the failed obligation names the
type (no input exists to replay)."""
import os
import re
import shutil
import subprocess
import time

from vx import VERIF

REPO = os.environ.get("VERIF_REPO", "/repo")
TYPES = [
    ("tera::Tera", "Send + Sync"),
    ("tera::Context", "Send + Sync"),
    ("tera::Value", "Send + Sync"),
    ("tera::Error", "Send + Sync"),
    ("tera::Kwargs", "Send + Sync"),
    ("tera::State<'static>", "Send + Sync"),
    ("tera::Number", "Send + Sync"),
]


def run_for(prop, scratch, outdir):
    from driver import Result

    if prop not in ("C18", "ALL"):
        return [], []
    d = os.path.join(scratch, "engine_s")
    os.makedirs(os.path.join(d, "src"), exist_ok=True)
    with open(os.path.join(d, "Cargo.toml"), "w") as f:
        f.write('[package]\nname = "verif_engine_s"\nversion = "0.0.0"\nedition = "2021"\n[dependencies]\ntera = { path = "%s/tera" }\n[workspace]\n' % REPO)
    lines = ["#![allow(dead_code)]", "fn bound<T: Send + Sync>() {}"]
    line_of = {}
    for (t, b) in TYPES:
        lines.append(f"fn check_{len(line_of)}() {{ bound::<{t}>(); }}")
        line_of[len(lines)] = t
    lines.append("fn main() {}")
    with open(os.path.join(d, "src", "main.rs"), "w") as f:
        f.write("\n".join(lines) + "\n")
    shutil.copy(os.path.join(REPO, "Cargo.lock"), os.path.join(d, "Cargo.lock"))
    env = dict(os.environ)
    env["CARGO_NET_OFFLINE"] = "true"
    env["CARGO_TARGET_DIR"] = os.path.join(VERIF, "build", "engine-s-target")
    t0 = time.time()
    p = subprocess.run(["cargo", "check", "--offline", "--message-format=short"], cwd=d, env=env, capture_output=True)
    wall = time.time() - t0
    err = p.stderr.decode(errors="replace")
    with open(os.path.join(outdir, "engine_s.log"), "w") as f:
        f.write(err)
    failed = {}
    for m in re.finditer(r"src/main\.rs:(\d+):\d+: error(?:\[E\d+\])?: (.*)", err):
        ln = int(m.group(1))
        if ln in line_of:
            failed[line_of[ln]] = m.group(2)
    other_error = p.returncode != 0 and not failed
    results = []
    for (t, b) in TYPES:
        meta = {"unit": "engine_s", "props": ["C18"], "fn": t, "what": f"{t}: {b} (auto-trait bound checked by rustc)"}
        ob = f"engine_s/{t.split('<')[0]}"
        if other_error:
            results.append(Result(ob, "S", "undecided", "cargo check failed for another reason: " + err[-400:], 0, meta))
        elif t in failed:
            results.append(Result(ob, "S", "false", f"rustc: {failed[t]}", 0, meta))
        else:
            results.append(Result(ob, "S", "verified", "", 0, meta))
    info = {"unit": "engine_s", "engine": "rustc", "cmd": "cargo check --offline (crate with one `bound::<T: Send + Sync>()` per type, tera by path)", "wall_s": wall, "smt_s": 0.0, "trusted": [], "functions": [t for t, _ in TYPES], "assumptions": ["engine S decides only the type-level part of thread safety; no schedule is explored (Kani has no thread support)"]}
    return results, [info]


# ---- second kind: frame obligations ("Err exits only while *self is shared-borrowed") -----------
FRAMES = os.path.join(VERIF, "contracts", "engine_s_frames.toml")
INTERIOR = re.compile(r"\b(Cell|RefCell|UnsafeCell|Mutex|RwLock|OnceCell|OnceLock|Atomic\w+)\b")


def run_frames(prop, scratch, outdir):
    import json
    import tomllib

    import kanirun
    from driver import Result
    from vx import Src

    with open(FRAMES, "rb") as f:
        frames = [fr for fr in tomllib.load(f).get("frame", []) if prop == "ALL" or prop in fr["props"]]
    if not frames:
        return [], []
    root = os.path.join(scratch, "engine_s_frames")
    kanirun.copy_repo(root)
    results, edits_by_file, pending = [], {}, []
    for fr in frames:
        meta = {"unit": "engine_s", "props": fr["props"], "fn": fr["fn"], "what": fr["what"]}
        try:
            src = Src(os.path.join(REPO, fr["file"]), fr["file"])
            its = [it for it in src.items if it["kind"] == "fn" and it["path"] == fr["fn"]]
            if len(its) != 1:
                results.append(Result(fr["ob"], "S", "undecided", f"lost anchor: fn {fr['fn']} found {len(its)} times in {fr['file']}", 0, meta))
                continue
            it = its[0]
            exits = [n for n in it["nodes"] if n["kind"] in ("try", "return")]
            if len(exits) < fr.get("min_exits", 1):
                results.append(Result(fr["ob"], "S", "undecided", f"vacuous: {len(exits)} exit sites in {fr['fn']}", 0, meta))
                continue
            last = max(i for i, st in enumerate(it["stmts"]) if any(st[0] <= n["range"][0] and n["range"][1] <= st[1] for n in exits))
            p0, p1 = it["block"][0] + 1, it["stmts"][last][1]
            # a trailing `;` belongs to the statement
            txt = src.text(p0, p1)
            new = f" let vx_ro: &{fr['self_ty']} = &*self; " + re.sub(r"\bself\b", "vx_ro", txt)
            edits_by_file.setdefault(fr["file"], []).append((p0, p1, new))
            l0 = src.text(0, p0).count("\n") + 1
            l1 = src.text(0, p1).count("\n") + 1
            pending.append((fr, meta, l0, l1, len(exits), len(it["stmts"]) - last - 1, src.text(it["stmts"][last][0], min(it["stmts"][last][0] + 60, it["stmts"][last][1]))))
        except Exception as e:  # noqa: BLE001
            results.append(Result(fr["ob"], "S", "undecided", f"frame rewrite failed: {e}", 0, meta))
    if not pending:
        return results, []
    for file, eds in edits_by_file.items():
        path = os.path.join(root, file)
        b = open(path, "rb").read()
        for p0, p1, new in sorted(eds, reverse=True):
            b = b[:p0] + new.encode() + b[p1:]
        open(path, "wb").write(b)
    env = dict(os.environ)
    env["CARGO_NET_OFFLINE"] = "true"
    env["CARGO_TARGET_DIR"] = os.path.join(VERIF, "build", "engine-s-frames-target")
    t0 = time.time()
    p = subprocess.run(["cargo", "check", "--offline", "-p", "tera", "--lib", "--message-format=short"], cwd=root, env=env, capture_output=True)
    wall = time.time() - t0
    err = p.stderr.decode(errors="replace")
    with open(os.path.join(outdir, "engine_s_frames.log"), "w") as f:
        f.write(err)
    errs = [(m.group(1), int(m.group(2)), m.group(3)) for m in re.finditer(r"(?m)^([\w/\.\-]+\.rs):(\d+):\d+: error(?:\[E\d+\])?: (.*)$", err)]
    assumptions = []
    for fr, meta, l0, l1, nexits, nafter, commit_stmt in pending:
        rel = fr["file"].split("/", 1)[1] if fr["file"].startswith("tera/") else fr["file"]
        mine = [e for e in errs if e[0].endswith(rel) and l0 <= e[1] <= l1 + 1]
        meta = dict(meta, exits=nexits, prefix_lines=[l0, l1], statements_after_prefix=nafter, last_exit_statement=commit_stmt)
        if mine:
            results.append(Result(fr["ob"], "S", "false", "rustc rejects the shared-borrow prefix (a write through `self` precedes an error exit): " + "; ".join(f"line {e[1]}: {e[2]}" for e in mine[:4]), 0, meta))
        elif p.returncode != 0:
            results.append(Result(fr["ob"], "S", "undecided", "cargo check failed outside the prefix: " + err[-500:], 0, meta))
        else:
            results.append(Result(fr["ob"], "S", "verified", "", 0, meta))
        body = open(os.path.join(REPO, fr["file"])).read()
        hits = sorted(set(INTERIOR.findall(body)))
        assumptions.append(f"engine S frame {fr['fn']}: no interior mutability reachable from {fr['self_ty']} is written on the error paths (interior-mutability type names in {fr['file']}: {hits or 'none'}); panics are not error returns")
    shutil.rmtree(root, ignore_errors=True)
    info = {"unit": "engine_s_frames", "engine": "rustc", "cmd": "cargo check --offline -p tera --lib on an overlay copy in which the exit-bearing prefix of each function uses `let vx_ro: &T = &*self` instead of `self`", "wall_s": wall, "smt_s": 0.0, "trusted": [], "functions": [fr["fn"] for fr, *_ in pending], "assumptions": assumptions}
    return results, [info]
