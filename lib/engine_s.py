"""Engine S: obligations discharged by the Rust type checker (DESIGN 2.5).

`Tera`, `Context`, `Value`, `Error`, `Kwargs`, `State` are `Send + Sync` (C18: "the engine,
context, value and error types stay usable across threads").  A tiny crate that depends on the
working tree's `tera` by path contains one bound check per type; `cargo check` discharges them.
A field that removes `Sync` makes that line fail to type-check: the failed obligation names the
type (no input exists to replay)."""
import os
import re
import shutil
import subprocess
import time

from vx import VERIF

REPO = os.environ.get("VERIF_REPO", "/repo")
TYPES = [
    ("tera::Tera", "Send + Sync"),
    ("tera::Context", "Send + Sync"),
    ("tera::Value", "Send + Sync"),
    ("tera::Error", "Send + Sync"),
    ("tera::Kwargs", "Send + Sync"),
    ("tera::State<'static>", "Send + Sync"),
    ("tera::Number", "Send + Sync"),
]


def run_for(prop, scratch, outdir):
    from driver import Result

    if prop not in ("C18", "ALL"):
        return [], []
    d = os.path.join(scratch, "engine_s")
    os.makedirs(os.path.join(d, "src"), exist_ok=True)
    with open(os.path.join(d, "Cargo.toml"), "w") as f:
        f.write('[package]\nname = "verif_engine_s"\nversion = "0.0.0"\nedition = "2021"\n[dependencies]\ntera = { path = "%s/tera" }\n[workspace]\n' % REPO)
    lines = ["#![allow(dead_code)]", "fn bound<T: Send + Sync>() {}"]
    line_of = {}
    for (t, b) in TYPES:
        lines.append(f"fn check_{len(line_of)}() {{ bound::<{t}>(); }}")
        line_of[len(lines)] = t
    lines.append("fn main() {}")
    with open(os.path.join(d, "src", "main.rs"), "w") as f:
        f.write("\n".join(lines) + "\n")
    shutil.copy(os.path.join(REPO, "Cargo.lock"), os.path.join(d, "Cargo.lock"))
    env = dict(os.environ)
    env["CARGO_NET_OFFLINE"] = "true"
    env["CARGO_TARGET_DIR"] = os.path.join(VERIF, "build", "engine-s-target")
    t0 = time.time()
    p = subprocess.run(["cargo", "check", "--offline", "--message-format=short"], cwd=d, env=env, capture_output=True)
    wall = time.time() - t0
    err = p.stderr.decode(errors="replace")
    with open(os.path.join(outdir, "engine_s.log"), "w") as f:
        f.write(err)
    failed = {}
    for m in re.finditer(r"src/main\.rs:(\d+):\d+: error(?:\[E\d+\])?: (.*)", err):
        ln = int(m.group(1))
        if ln in line_of:
            failed[line_of[ln]] = m.group(2)
    other_error = p.returncode != 0 and not failed
    results = []
    for (t, b) in TYPES:
        meta = {"unit": "engine_s", "props": ["C18"], "fn": t, "what": f"{t}: {b} (auto-trait bound checked by rustc)"}
        ob = f"engine_s/{t.split('<')[0]}"
        if other_error:
            results.append(Result(ob, "S", "undecided", "cargo check failed for another reason: " + err[-400:], 0, meta))
        elif t in failed:
            results.append(Result(ob, "S", "false", f"rustc: {failed[t]}", 0, meta))
        else:
            results.append(Result(ob, "S", "verified", "", 0, meta))
    info = {"unit": "engine_s", "engine": "rustc", "cmd": "cargo check --offline (crate with one `bound::<T: Send + Sync>()` per type, tera by path)", "wall_s": wall, "smt_s": 0.0, "trusted": [], "functions": [t for t, _ in TYPES], "assumptions": ["engine S decides only the type-level part of thread safety; no schedule is explored (Kani has no thread support)"]}
    return results, [info]
