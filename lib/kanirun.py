"""Engine K: Kani on the real crate through an add-only overlay (DESIGN 2.3).

Every run copies /repo's working tree to a scratch directory and *adds* text only:
  - `#[cfg_attr(kani, kani::requires/ensures(..))]` lines directly above the real function
    (located by name with the vx indexer),
  - `#[cfg_attr(kani, derive(kani::Arbitrary))]` above a type,
  - `#[cfg(kani)] mod verif_kani_<group> { .. }` appended to the file whose private items the
    harnesses need, body taken from /verif/kani/<group>.rs.
`cargo kani` sets cfg(kani); a normal build never sees any of it.
"""
import glob
import json
import os
import re
import shutil
import subprocess
import time
import tomllib

from vx import VERIF, Src, LostAnchor, Undecided

REPO = os.environ.get("VERIF_REPO", "/repo")
KANI_DIR = os.path.join(VERIF, "kani")
CACHE = os.path.join(VERIF, "build")


def load_groups():
    gs = []
    for p in sorted(glob.glob(os.path.join(KANI_DIR, "*.toml"))):
        with open(p, "rb") as f:
            g = tomllib.load(f)
        g["_path"] = p
        gs.append(g)
    only = os.environ.get("VERIF_KANI_GROUPS")
    if only:
        keep = set(only.split(","))
        gs = [g for g in gs if g["group"] in keep]
    return gs


def copy_repo(dst):
    if os.path.exists(dst):
        shutil.rmtree(dst)

    def ign(d, names):
        return [n for n in names if n in ("target", ".git")]

    shutil.copytree(REPO, dst, ignore=ign, symlinks=True)


def apply_overlay(root, groups):
    """returns list of applied insertions (for the evidence)"""
    applied = []
    # collect per-file insertions: (offset, text)
    per_file = {}
    appends = {}
    for g in groups:
        for c in g.get("contract", []):
            per_file.setdefault(c["file"], []).append(("fn", c["fn"], "\n".join(c["lines"]) + "\n", g["group"]))
        for d in g.get("derive", []):
            per_file.setdefault(d["file"], []).append(("type", d["type"], "#[cfg_attr(kani, derive(kani::Arbitrary))]\n", g["group"]))
        if g.get("append_to"):
            body = open(os.path.join(KANI_DIR, g["module"])).read()
            appends.setdefault(g["append_to"], []).append((g["group"], body))
        for ex in g.get("also_append", []):
            body = open(os.path.join(KANI_DIR, ex["module"])).read()
            appends.setdefault(ex["file"], []).append((g["group"] + "_" + os.path.splitext(ex["module"])[0], body))
    for rel, ins in per_file.items():
        path = os.path.join(root, rel)
        src = Src(path, rel)
        edits = []
        seen = set()
        for kind, name, text, grp in ins:
            if (kind, name, text) in seen:
                continue
            seen.add((kind, name, text))
            it = src.find("fn", name) if kind == "fn" else src.find_type(name)
            # insert before the item proper (after doc comments/attributes is fine as well; we
            # insert at the very start of the item including its attributes)
            edits.append((it["range"][0], text))
            applied.append(f"{rel}: {kind} {name}: +{text.count(chr(10))} attribute line(s) [{grp}]")
        data = src.data
        for off, text in sorted(edits, key=lambda e: -e[0]):
            data = data[:off] + text.encode() + data[off:]
        with open(path, "wb") as f:
            f.write(data)
    for rel, mods in appends.items():
        path = os.path.join(root, rel)
        with open(path, "a") as f:
            for grp, body in mods:
                f.write(f"\n#[cfg(kani)]\n#[allow(unused, clippy::all)]\nmod verif_kani_{grp} {{\n{body}\n}}\n")
                applied.append(f"{rel}: appended #[cfg(kani)] mod verif_kani_{grp} ({body.count(chr(10))} lines)")
    return applied


def mod_path_of(g):
    rel = g["append_to"]
    parts = rel.split("/src/", 1)[1][:-3].split("/")
    if parts[-1] in ("mod", "lib"):
        parts = parts[:-1]
    return "::".join(parts + ["verif_kani_" + g["group"]])


HARNESS_RE = re.compile(r"^Checking harness (\S+?)\.\.\.", re.M)


def parse_output(text):
    """-> {harness_fullname: dict(status, failed=[..], time)}; handles the `Thread N:` prefixed
    interleaved output of -j as well as the sequential format"""
    res = {}
    cur_by_thread = {}
    blocks = {}  # harness -> text
    cur_thread = None
    for ln in text.split("\n"):
        m = re.match(r"^(?:Thread (\d+): )?Checking harness (\S+?)\.\.\.", ln)
        if m:
            th = m.group(1) or "0"
            cur_by_thread[th] = m.group(2)
            blocks.setdefault(m.group(2), "")
            cur_thread = th
            continue
        m = re.match(r"^Thread (\d+): ?(.*)$", ln)
        if m:
            cur_thread = m.group(1)
            ln = m.group(2)
        if ln.startswith("Manual Harness Summary") or ln.startswith("Complete - "):
            cur_thread = None
        if cur_thread is not None and cur_thread in cur_by_thread:
            blocks[cur_by_thread[cur_thread]] += ln + "\n"
    for name, part in blocks.items():
        st = "unknown"
        if "VERIFICATION:- SUCCESSFUL" in part:
            st = "successful"
        elif "VERIFICATION:- FAILED" in part:
            st = "failed"
        if re.search(r"CBMC timed out|exceeded the time limit", part) and st != "successful":
            st = "timeout"
        if re.search(r"out of memory|Out of memory|memory exhausted|SIGKILL|signal: 9", part) and st != "successful":
            st = "oom"
        failed = re.findall(r"(?m)^Failed Checks: (.*)$", part)
        locs = re.findall(r'(?m)^ File: "(.*?)", line (\d+), in (.*)$', part)
        tm = re.search(r"Verification Time: ([0-9.]+)s", part)
        nchecks = re.search(r"\*\* (\d+) of (\d+) failed", part)
        res[name] = {"status": st, "failed": failed, "locs": locs, "time": float(tm.group(1)) if tm else 0.0, "raw": part[-3000:], "checks": int(nchecks.group(2)) if nchecks else 0}
    return res


def run_for(prop, tier, scratch, outdir, only_harnesses=None, playback=False):
    from driver import Result

    groups = [g for g in load_groups() if prop == "ALL" or prop in g.get("properties", []) or any(prop in h.get("props", []) for h in g.get("harness", []))]
    results, infos = [], []
    if not groups:
        return results, infos
    by_crate = {}
    for g in groups:
        by_crate.setdefault(g.get("crate", "tera"), []).append(g)
    root = os.path.join(scratch, "kani-src")
    try:
        copy_repo(root)
        shutil.copy(os.path.join(REPO, "Cargo.lock"), os.path.join(root, "Cargo.lock"))
        # overlay of *all* groups of the crates involved: contracts of other groups are inert
        allg = [g for g in load_groups() if g.get("crate", "tera") in by_crate]
        applied = apply_overlay(root, allg)
    except Undecided as e:
        return [Result("K/*", "K", "undecided", f"{e.reason}: {e.detail}")], infos
    for crate, gs in by_crate.items():
        hs = []
        for g in gs:
            for h in g.get("harness", []):
                hp = h.get("props") or g.get("properties", [])
                if prop != "ALL" and prop not in hp:
                    continue
                if h.get("tier", "quick") == "thorough" and tier != "thorough":
                    continue
                if only_harnesses and h["name"] not in only_harnesses:
                    continue
                hs.append((g, h))
        if not hs:
            continue
        tdir = os.path.join(os.environ.get("VERIF_KANI_TARGET") or CACHE, "kani-target-" + crate)
        os.makedirs(tdir, exist_ok=True)
        env = dict(os.environ)
        env["CARGO_NET_OFFLINE"] = "true"
        tmo = max(h.get("timeout", 300 if tier == "quick" else 1800) for _, h in hs)
        cmd = ["cargo", "kani", "-p", crate, "--target-dir", tdir, "-Z", "function-contracts", "-Z", "stubbing", "-Z", "unstable-options", "--harness-timeout", f"{tmo}s", "--output-format", "terse", "--exact", "-j", str(min(int(os.environ.get("VERIF_KANI_JOBS", "12")), max(1, len(hs))))]
        feats = next((g.get("features") for g in gs if g.get("features")), None)
        if feats:
            cmd += ["--features", feats]
        if playback:
            cmd += ["-Z", "concrete-playback", "--concrete-playback=print"]
        full = {}
        for g, h in hs:
            fn = f"{mod_path_of(g)}::{h['name']}"
            full[fn] = (g, h)
            cmd += ["--harness", fn]
        t0 = time.time()
        try:
            p = subprocess.run(cmd, cwd=root, env=env, capture_output=True, timeout=tmo * 3 + 900)
            out = p.stdout.decode(errors="replace") + "\n" + p.stderr.decode(errors="replace")
        except subprocess.TimeoutExpired as e:
            out = (e.stdout or b"").decode(errors="replace") + "\nKANI DRIVER TIMEOUT\n"
        wall = time.time() - t0
        with open(os.path.join(outdir, f"kani-{crate}.log"), "w") as f:
            f.write(" ".join(cmd) + "\n\n" + out)
        parsed = parse_output(out)
        # a harness that timed out (or produced nothing) while many ran side by side is run again with fewer
        # neighbours and three times the time: a loaded machine must not turn into "undecided"
        again = []
        for fn in full:
            ent = next((v for k, v in parsed.items() if k == fn or k.endswith("::" + fn) or k.endswith(fn)), None)
            if (ent is None or ent["status"] == "timeout") and not playback and "error: could not compile" not in out:
                again.append(fn)
        if again and len(again) <= 8:
            cmd2 = [c for c in cmd]
            k = cmd2.index("--harness-timeout")
            cmd2[k + 1] = f"{tmo * 3}s"
            k = cmd2.index("-j")
            cmd2[k + 1] = str(min(3, len(again)))
            k = cmd2.index("--harness")
            cmd2 = cmd2[:k]
            for fn in again:
                cmd2 += ["--harness", fn]
            try:
                p2 = subprocess.run(cmd2, cwd=root, env=env, capture_output=True, timeout=tmo * 3 * len(again) + 900)
                out2 = p2.stdout.decode(errors="replace") + "\n" + p2.stderr.decode(errors="replace")
            except subprocess.TimeoutExpired as e:
                out2 = (e.stdout or b"").decode(errors="replace") + "\nKANI DRIVER TIMEOUT\n"
            with open(os.path.join(outdir, f"kani-{crate}.log"), "a") as f:
                f.write("\n\n==== second run of timed-out harnesses\n" + " ".join(cmd2) + "\n\n" + out2)
            for kk, vv in parse_output(out2).items():
                parsed[kk] = vv
            wall = time.time() - t0
        info = {
            "unit": f"kani:{crate}",
            "engine": "kani",
            "cmd": " ".join(cmd[:14]) + f" --harness <{len(hs)} harnesses>",
            "wall_s": wall,
            "smt_s": sum(v["time"] for v in parsed.values()),
            "trusted": [],
            "functions": [],
            "assumptions": [],
            "overlay": applied,
            "raw": out,
        }
        for g in gs:
            for t in g.get("trusted", []):
                info["trusted"].append(f"{t}")
            for f_ in g.get("functions", []):
                if f_ not in info["functions"]:
                    info["functions"].append(f_)
        build_failed = ("error: could not compile" in out or "error[E" in out) and not parsed
        for fn, (g, h) in full.items():
            # harness names in the output are crate-qualified paths ending in our path
            ent = None
            for k, v in parsed.items():
                if k == fn or k.endswith("::" + fn) or k.endswith(fn):
                    ent = v
                    break
            ob = h.get("ob") or f"{g['group']}/{h['name']}"
            meta = {"unit": f"kani:{crate}", "props": h.get("props") or g.get("properties", []), "what": h.get("what", ""), "harness": fn, "tier": h.get("tier", "quick"), "bound": h.get("bound", ""), "fn": h.get("fn", "")}
            level = h.get("level", "proved")
            if build_failed:
                errs = "\n".join(re.findall(r"(?ms)^error.*?(?=^\S|\Z)", out)[:3])[:1200]
                results.append(Result(ob, "K", "undecided", "overlay build failed: " + errs, 0, meta))
            elif ent is None:
                results.append(Result(ob, "K", "undecided", "harness produced no result (not run / crashed)", 0, meta))
            elif ent["status"] == "successful":
                results.append(Result(ob, "K", "verified" if level == "proved" else "bounded-verified", "", ent["time"], meta))
            elif ent["status"] == "failed":
                fc = " ; ".join(ent["failed"])
                # IEEE NaN production ("NaN on subtraction" in f64::fract(inf)) is a CBMC arithmetic
                # check, not a Rust panic: benign.  If nothing else failed the harness holds.
                real = [x for x in ent["failed"] if not re.match(r"NaN on (addition|subtraction|multiplication|division)", x)]
                if ent["failed"] and not real:
                    meta["ignored_checks"] = ent["failed"]
                    results.append(Result(ob, "K", "verified" if level == "proved" else "bounded-verified", "", ent["time"], meta))
                    continue
                only_unwind = ent["failed"] and all("unwinding assertion" in x for x in ent["failed"])
                unsupported = any("is not currently supported by Kani" in x or "unsupported" in x.lower() for x in ent["failed"])
                if only_unwind or unsupported:
                    results.append(Result(ob, "K", "undecided", "bound/unsupported: " + fc, ent["time"], meta))
                else:
                    meta["raw"] = ent["raw"]
                    results.append(Result(ob, "K", "false", "Failed Checks: " + fc + "\n" + "\n".join(f"{a}:{b} in {c}" for a, b, c in ent["locs"][:6]), ent["time"], meta))
            else:
                results.append(Result(ob, "K", "undecided", "kani " + ent["status"], ent["time"], meta))
        infos.append(info)
    return results, infos
