"""Extraction of real functions from /repo into Verus files (engine V, DESIGN 2.2).

Nothing in here types Rust code that exists in /repo: function and type texts are copied from
byte ranges reported by the syn-based indexer `tools/vx`, ghost text from the sidecar is
inserted at syntactic anchors, and executable text is changed only by the closed list of
rewrite rules R1..R24 below (each application is counted and reported).
"""
import hashlib
import json
import os
import re
import subprocess
import sys
import tomllib

VERIF = os.path.dirname(os.path.dirname(os.path.abspath(__file__)))
VX_BIN = os.path.join(VERIF, "tools", "vx", "target", "release", "vx")


class Undecided(Exception):
    """lost anchor / unsupported construct / tool trouble: exit 2, never a violation"""

    def __init__(self, reason, detail=""):
        super().__init__(f"{reason}: {detail}" if detail else reason)
        self.reason = reason
        self.detail = detail


class LostAnchor(Undecided):
    def __init__(self, detail):
        super().__init__("lost-anchor", detail)


class Unsupported(Undecided):
    def __init__(self, detail):
        super().__init__("unsupported-construct", detail)


# --------------------------------------------------------------------------------------------
# source + index


class Src:
    def __init__(self, path, label=None):
        self.path = path
        self.label = label or path
        with open(path, "rb") as f:
            self.data = f.read()
        p = subprocess.run([VX_BIN, "index", path], capture_output=True)
        if p.returncode != 0:
            raise Undecided("index-failed", p.stderr.decode(errors="replace")[:500])
        self.index = json.loads(p.stdout)
        self.items = self.index["items"]
        self.attrs = [tuple(a) for a in self.index["attrs"]]
        self.by_path = {}
        for it in self.items:
            self.by_path.setdefault((it["kind"], it["path"]), []).append(it)

    def text(self, a, b):
        return self.data[a:b].decode("utf-8")

    def find(self, kind, path):
        c = self.by_path.get((kind, path), [])
        if len(c) == 0:
            raise LostAnchor(f"{kind} `{path}` not found in {self.label}")
        if len(c) > 1:
            raise LostAnchor(f"{kind} `{path}` is ambiguous in {self.label} ({len(c)} matches)")
        return c[0]

    def find_type(self, path):
        for k in ("struct", "enum", "type", "const", "static"):
            c = self.by_path.get((k, path), [])
            if len(c) == 1:
                return c[0]
            if len(c) > 1:
                raise LostAnchor(f"type `{path}` is ambiguous in {self.label}")
        raise LostAnchor(f"type `{path}` not found in {self.label}")

    def enclosing_impl(self, fn_item):
        a, b = fn_item["range"]
        best = None
        for it in self.items:
            if it["kind"] in ("impl", "trait") and it["range"][0] <= a and b <= it["range"][1]:
                if best is None or it["range"][0] >= best["range"][0]:
                    best = it
        return best

    def has_impl(self, path):
        return len(self.by_path.get(("impl", path), [])) > 0


# --------------------------------------------------------------------------------------------
# edits


class Edits:
    def __init__(self):
        self.list = []
        self.seq = 0
        self.counts = {}

    def add(self, start, end, text, rule, subsume=False, prio=0):
        self.list.append((start, end, self.seq, text, rule, subsume, prio))
        self.seq += 1

    def insert(self, pos, text, rule, prio=0):
        self.add(pos, pos, text, rule, prio=prio)

    def replace(self, start, end, text, rule, subsume=False):
        self.add(start, end, text, rule, subsume)

    def count(self, rule, n=1):
        self.counts[rule] = self.counts.get(rule, 0) + n

    def apply(self, src, a, b):
        eds = [e for e in self.list if a <= e[0] and e[1] <= b]
        # drop edits strictly inside a subsuming replacement
        repl = [e for e in eds if e[1] > e[0]]
        keep = []
        for e in eds:
            inside = False
            for o in repl:
                if o is e:
                    continue
                if o[0] <= e[0] and e[1] <= o[1] and (o[1] - o[0]) > (e[1] - e[0]):
                    if e[1] > e[0] or (o[0] < e[0] < o[1]):
                        if o[5]:
                            inside = True
                            break
                        raise Unsupported(
                            f"overlapping rewrites {o[4]} [{o[0]},{o[1]}) and {e[4]} [{e[0]},{e[1]})"
                        )
            if not inside:
                keep.append(e)
        # insertions sort before a replacement starting at the same offset
        keep.sort(key=lambda e: (e[0], 0 if e[1] == e[0] else 1, e[6], e[2]))
        out = []
        pos = a
        for (s, e, _seq, text, _rule, _sub, _prio) in keep:
            if s < pos:
                raise Unsupported(f"overlapping rewrites at byte {s}")
            out.append(src.data[pos:s].decode("utf-8"))
            out.append(text)
            pos = e
        out.append(src.data[pos:b].decode("utf-8"))
        return "".join(out)


# --------------------------------------------------------------------------------------------
# helpers on index nodes


def nodes_of(item, kind=None, pred=None):
    r = []
    scope = item.get("scope")
    for n in item["nodes"]:
        if kind is not None and n["kind"] != kind:
            continue
        if scope is not None and not (scope[0] <= n["range"][0] and n["range"][1] <= scope[1]):
            continue
        if pred is not None and not pred(n):
            continue
        r.append(n)
    return r


def inside(n, rng):
    return rng[0] <= n["range"][0] and n["range"][1] <= rng[1]


def ancestors(item, n):
    p = n["parent"]
    while p is not None and p >= 0:
        pn = item["nodes"][p]
        yield pn
        p = pn["parent"]


def nested_fn_ranges(src, item):
    """ranges of fn items nested inside this fn's body"""
    a, b = item["range"]
    r = []
    for it in src.items:
        if it is item or it["kind"] != "fn":
            continue
        if a <= it["range"][0] and it["range"][1] <= b and it["path"].startswith(item["path"] + "::"):
            r.append(it)
    return r


def own_nodes(src, item):
    """nodes that belong to this fn and not to an item nested in it (the indexer already keeps
    nested fns' nodes in their own item)"""
    return item["nodes"]


# --------------------------------------------------------------------------------------------
# rewrite rules (closed list; DESIGN 2.2).  Each takes (src, item, edits, opts) and registers
# edits; `opts` is the sidecar's per-function table.

FMT_FUNCS = ("::alloc::__export::must_use", "::alloc::fmt::format", "alloc::fmt::format")
PANIC_FUNCS = (
    "::core::panicking::panic",
    "::core::panicking::panic_fmt",
    "::core::panicking::unreachable_display",
    "::core::panicking::panic_display",
    "::std::rt::begin_panic",
    "::core::panicking::panic_explicit",
)


def r1_format(src, item, ed, opts):
    for n in nodes_of(item, "call"):
        if n["func"] == "::alloc::__export::must_use":
            inner = src.text(*n["range"])
            if "::alloc::fmt::format(" in inner:
                # `format!("{x}")` of ONE variable is that variable's Display text, a function of the value
                # (format_display = "vx_display": the prelude function standing for it); anything else is opaque
                m = re.search(r'format_args!\("\{0\}",(\w+)\)', re.sub(r"\s+", "", inner))
                if m and opts.get("format_display"):
                    ed.replace(n["range"][0], n["range"][1], f"{opts['format_display']}({m.group(1)})", "R1", subsume=True)
                else:
                    ed.replace(n["range"][0], n["range"][1], "vx_fmt()", "R1", subsume=True)
                ed.count("R1")
    for n in nodes_of(item, "macro"):
        if n["name"] in ("format", "std::format"):
            ed.replace(n["range"][0], n["range"][1], "vx_fmt()", "R1", subsume=True)
            ed.count("R1")


def r2_panic(src, item, ed, opts):
    for n in nodes_of(item, "call"):
        if n["func"] in PANIC_FUNCS:
            ed.replace(n["range"][0], n["range"][1], "vx_unreachable()", "R2", subsume=True)
            ed.count("R2")
    for n in nodes_of(item, "macro"):
        if n["name"] in ("unreachable", "panic", "unimplemented", "todo"):
            end = n["range"][1]
            ed.replace(n["range"][0], end, "vx_unreachable()" + (";" if n.get("stmt") and n.get("semi") else ""), "R2", subsume=True)
            ed.count("R2")


def r3_map_ctor(src, item, ed, opts):
    """`.map(Ctor)` -> eta-expanded closure with a checked ensures; types come from the sidecar
    (`map_ctor = [{n=0, arg="x: i128", ret="Number"}]`), keyed by ordinal among such calls."""
    sites = [
        n
        for n in nodes_of(item, "methodcall")
        if n["method"] in ("map",) and len(n["args"]) == 1 and n["args"][0]["is_path"]
    ]
    specs = {s["n"]: s for s in opts.get("map_ctor", [])}
    for k, n in enumerate(sites):
        if k not in specs:
            raise Unsupported(f"`.map({n['args'][0]['text']})` #{k} in {item['path']} has no map_ctor entry")
        sp = specs[k]
        a = n["args"][0]
        ctor = src.text(*a["range"])
        argn = sp["arg"].split(":")[0].strip()
        txt = f"|{sp['arg']}| -> (r: {sp['ret']}) ensures r == {ctor}({argn}) {{ {ctor}({argn}) }}"
        ed.replace(a["range"][0], a["range"][1], txt, "R3")
        ed.count("R3")


def r4_let_chain(src, item, ed, opts):
    """`if let P = e && c {B}` (no else) -> `if let P = e { if c {B} }`"""
    for n in nodes_of(item, "if"):
        ch = n.get("chain")
        if not ch or len(ch) < 2:
            continue
        if "else" in n:
            raise Unsupported(f"let-chain with else in {item['path']}")
        # split the chain into groups; each operand becomes one nested `if`
        then = n["then"]
        cond = n["cond"]
        parts = [src.text(*c["range"]) for c in ch]
        # replace the whole condition by the first operand, and wrap the body
        ed.replace(cond[0], cond[1], parts[0], "R4")
        opener = "".join(f"{{ if {p} " for p in parts[1:])
        closer = " }" * (len(parts) - 1)
        ed.insert(then[0], opener, "R4")
        ed.insert(then[1], closer, "R4")
        ed.count("R4")


def r44_guard_continue(src, item, ed, opts):
    """guard clause in a loop body: `if C { continue; } REST` (a direct statement of the body, no else, the
    block is nothing but `continue;`) -> `if C { } else { REST }`.  The same control flow; what the sidecar
    says about the end of the body (body_end hints, the invariant) is then said on both paths, and Verus'
    `for` (which has no `continue`) accepts the loop."""
    blocks = {tuple(b["range"]): b for b in nodes_of(item, "stmts_block")}
    ifs = {tuple(n["range"]): n for n in nodes_of(item, "if")}
    for lp in nodes_of(item, "loop"):
        if lp.get("label"):
            continue
        b = blocks.get(tuple(lp["body"]))
        if not b:
            continue
        stmts = b["stmts"]
        for k, st in enumerate(stmts[:-1]):
            n = ifs.get(tuple(st))
            if n is None:
                # `if ... {}` followed by `;`
                n = next((x for r_, x in ifs.items() if r_[0] == st[0] and st[1] - r_[1] <= 1), None)
            if n is None or "else" in n or n.get("chain"):
                continue
            if re.sub(r"\s+", "", src.text(*n["then"])) not in ("{continue;}", "{continue}"):
                continue
            ed.replace(n["then"][0], n["then"][1], "{ } else {", "R44")
            ed.insert(lp["body"][1] - 1, " }", "R44", prio=-10)
            ed.count("R44")


def loop_vars(ls, n, src):
    """`$pat` in a loop's ghost text stands for the variable the `for` pattern binds (`$pat0`, `$pat1`, .. for the
    components of a tuple pattern): the sidecar then survives a renaming of the loop variable"""
    if n.get("loop_kind") != "for":
        return ls
    pat = src.text(*n["pat"]).strip()
    one = r"(?:&\s*)?(?:ref\s+)?(?:mut\s+)?(\w+)"
    names = {}
    m = re.fullmatch(one, pat)
    if m:
        names["$pat"] = m.group(1)
    elif pat.startswith("(") and pat.endswith(")"):
        for i, part in enumerate(pat[1:-1].split(",")):
            mm = re.fullmatch(one, part.strip())
            if mm:
                names[f"$pat{i}"] = mm.group(1)
    if os.environ.get("VX_LINT"):
        for k, v in ls.items():
            for nm in names.values():
                if isinstance(v, str) and k not in ("over", "kind", "iter") and re.search(r"(?<![\w$.])" + re.escape(nm) + r"\b(?!\()", v):
                    sys.stderr.write(f"VX_LINT loop hint `{k}` names the loop variable `{nm}` literally: {v.strip()[:80]!r}\n")
    out = {}
    for k, v in ls.items():
        if isinstance(v, str) and "$pat" in v:
            for ph in sorted(names, key=len, reverse=True):
                v = v.replace(ph, names[ph])
            if "$pat" in v:
                raise Unsupported(f"loop pattern `{pat}` does not bind what the sidecar's `$pat` refers to")
        out[k] = v
    return out


def param_vars(text, cl, src):
    """`$param0`, `$param1`, .. in `param_let` stand for the closure's parameter patterns as written"""
    if cl is None:
        return text
    for i, p in enumerate(cl.get("inputs", [])):
        text = text.replace(f"$param{i}", src.text(*p["range"]))
    return text


def unannotated(src, item, ed, spec, loops_done=(), closures_done=()):
    """what the sidecar says nothing about although a proof depends on it: loops of the (current) text that got no
    invariant, closures that are handed to a std combinator as they are (Verus knows nothing of what an
    unannotated closure returns).  A FAILED proof of a function that has one means nothing - it is reported
    undecided (a harmless `for` written in place of `collect()`, an `ok_or_else(|| ..)` in place of a `match`)."""
    out = []
    covered = [(e[0], e[1]) for e in ed.list if e[1] > e[0]]

    def consumed(n):
        a = n["range"][0]
        return any(s0 <= a < e0 for (s0, e0) in covered)

    done_l = {tuple(n["range"]) for n in loops_done}
    for n in nodes_of(item, "loop"):
        if tuple(n["range"]) in done_l or consumed(n):
            continue
        out.append(f"{n.get('loop_kind', 'a')} loop without an invariant")
    done_c = {tuple(n["range"]) for n in closures_done}
    ok_pats = spec.get("closures_ok", [])
    for n in nodes_of(item, "closure"):
        if tuple(n["range"]) in done_c or consumed(n):
            continue
        # `closures_ok = ["regex", ..]` of the sidecar: closures (by their whitespace-free text) whose result the
        # contract says nothing about - e.g. one that only builds an error value - need no contract
        if any(re.search(pt, re.sub(r"\s+", "", src.text(*n["range"]))) for pt in ok_pats):
            continue
        out.append("closure `" + re.sub(r"\s+", " ", src.text(*n["range"]))[:40] + "` without a contract")
    return out


def r9_visibility(src, item, ed, opts):
    v = item.get("vis")
    if v:
        ed.replace(v[0], v[1], "pub", "R9")
        ed.count("R9")
    elif item["kind"] in ("fn", "struct", "enum", "type", "const"):
        enc = src.enclosing_impl(item) if item["kind"] == "fn" else None
        if enc is not None and (" as " in enc["path"] or enc["kind"] == "trait"):
            return  # trait impl methods carry no visibility
        ed.insert(item["start"], "pub ", "R9")
        ed.count("R9")


def r9_fields(src, item, ed, opts):
    if item["kind"] == "struct":
        for f in item.get("fields", []):
            v = f["vis"]
            if v[1] > v[0]:
                ed.replace(v[0], v[1], "pub", "R9")
            else:
                ed.insert(f["range"][0] if not _attr_at(src, f["range"][0]) else f["range"][0], "pub ", "R9")


def _attr_at(src, pos):
    return any(a[0] == pos for a in src.attrs)


def r13_try(src, item, ed, opts):
    """`E?` -> `match E { Ok(v) => v, Err(e) => return Err(<conv>(e)) }` at sites named in the
    sidecar: try_sites = [{n=0, conv="Error::from", hint="proof{..}"}] (ordinal among `?` of the fn)."""
    tries = nodes_of(item, "try")
    sites = list(opts.get("try_sites", []))
    if opts.get("try_all"):
        sites = [dict(opts["try_all"], n=k) for k in range(len(tries))]
    for sp in sites:
        if sp.get("contains"):
            # a `?` named by what it is applied to; gone = nothing to convert
            c = [t for t in tries if sp["contains"].replace(" ", "") in re.sub(r"\s+", "", src.text(*t["range"]))]
            if not c:
                continue
            n = min(c, key=lambda t: t["range"][1] - t["range"][0])
        else:
            k = sp["n"]
            if k >= len(tries):
                raise LostAnchor(f"`?` #{k} of {item['path']}")
            n = tries[k]
        conv = sp.get("conv", "")
        hint = sp.get("hint", "")
        kind = sp.get("kind", "result")
        ed.insert(n["range"][0], "(match ", "R13")
        if kind == "option":
            tail = f" {{ Some(vx_v) => vx_v, None => {{ {hint} return None; }} }})"
        else:
            e = f"{conv}(vx_e)" if conv else "vx_e"
            tail = f" {{ Ok(vx_v) => vx_v, Err(vx_e) => {{ {hint} return Err({e}); }} }})"
        ed.replace(n["q"][0], n["q"][1], tail, "R13")
        ed.count("R13")


def r14_str_eq(src, item, ed, opts):
    """`A == B` / `A != B` on str values at sites named in the sidecar:
    str_eq = [{n=0}] ordinal among ==/!= binaries of the fn"""
    bins = [n for n in nodes_of(item, "binary") if n["op"] in ("==", "!=")]
    allbins = bins
    for sp in opts.get("str_eq", []):
        bins = allbins
        if sp.get("right"):
            bins = [n for n in bins if src.text(*n["right"]).replace(" ", "") == sp["right"].replace(" ", "")]
        if sp.get("left"):
            bins = [n for n in bins if src.text(*n["left"]).replace(" ", "") == sp["left"].replace(" ", "")]
        k = sp.get("n", 0)
        if k >= len(bins):
            raise LostAnchor(f"==/!= #{k} of {item['path']}")
        n = bins[k]
        l = src.text(*n["left"])
        r = src.text(*n["right"])
        neg = "!" if n["op"] == "!=" else ""
        to = sp.get("to", "vx_str_eq({l}, {r})")
        ed.replace(n["range"][0], n["range"][1], neg + to.format(l=l, r=r), "R14", subsume=True)
        ed.count("R14")


def r20_bytestr(src, item, ed, opts):
    for n in nodes_of(item, "bytestr"):
        arr = ", ".join(f"{b}u8" for b in n["bytes"])
        ed.replace(n["range"][0], n["range"][1], f"&[{arr}]", "R20")
        ed.count("R20")


def r10_or_pattern_mut(src, item, ed, opts):
    """split `P1 | P2 => B` into one arm per pattern at match arms named in the sidecar
    (or_split = [{n=0}] ordinal among or-pattern arms)"""
    allarms = [n for n in nodes_of(item, "arm") if "or_cases" in n]
    for sp in opts.get("or_split", []):
        arms = allarms
        if sp.get("pat_contains"):
            arms = [n for n in allarms if sp["pat_contains"].replace(" ", "") in re.sub(r"\s+", "", src.text(*n["pat"]))]
        k = sp.get("n", 0)
        if k >= len(arms):
            if sp.get("optional"):
                continue  # no or-pattern left to split: the arms are judged as they stand
            raise LostAnchor(f"or-pattern arm #{k} of {item['path']}")
        n = arms[k]
        body = src.text(*n["body"])
        guard = (" if " + src.text(*n["guard"])) if "guard" in n else ""
        cases = [src.text(*c) for c in n["or_cases"]]
        txt = "\n".join(f"{c}{guard} => {body}," for c in cases)
        end = n["range"][1]
        ed.replace(n["range"][0], end, txt if not n["has_comma"] else txt[:-1] + ",", "R10", subsume=True)
        ed.count("R10")


def pick_loop(src, loops, sp, what):
    """a loop named by the sidecar: by ordinal (`n`), or by the text of what a `for` iterates over
    (`over = "compiler.include_calls"`; whitespace-free containment).  By text, a loop that is gone is simply
    skipped (returns None): what is left of the function is judged as it stands."""
    if "over" in sp:
        want = sp["over"].replace(" ", "")
        c = [l for l in loops if l["loop_kind"] == "for" and want in re.sub(r"\s+", "", src.text(*l["expr"]))]
        if not c:
            if sp.get("required"):
                raise LostAnchor(f"for-loop over `{sp['over']}` of {what}")
            return None
        return c[sp.get("n", 0)] if sp.get("n", 0) < len(c) else None
    return loops[sp["n"]] if sp["n"] < len(loops) else None



def r12_for_mut(src, item, ed, opts):
    """`for PAT in &mut V { B }` -> index loop (sites named: for_mut=[{n=<loop ordinal>, k="vx_k"}])"""
    loops = nodes_of(item, "loop")
    for sp in opts.get("for_mut", []):
        n = pick_loop(src, loops, sp, item["path"])
        if n is None and "over" in sp:
            continue
        if n is None or n["loop_kind"] != "for":
            raise LostAnchor(f"for-loop #{sp.get('n')} of {item['path']}")
        ex = src.text(*n["expr"]).strip()
        if not ex.startswith("&mut "):
            raise Unsupported(f"R12 expects `for .. in &mut V`, found `{ex}`")
        v = ex[len("&mut "):].strip()
        for m in item["nodes"]:
            if m["kind"] in ("break", "continue") and inside(m, n["body"]):
                raise Unsupported("R12: loop body contains break/continue")
        k = sp.get("k", "vx_k")
        pat = src.text(*n["pat"])
        # header: from loop start to body open brace
        ed.replace(n["range"][0], n["body"][0], f"let mut {k}: usize = 0; while {k} < {v}.len() ", "R12")
        ed.insert(n["body"][0] + 1, f" let {pat} = &mut {v}[{k}]; ", "R12", prio=5)
        ed.insert(n["body"][1] - 1, f" {k} += 1; ", "R12", prio=5)
        ed.count("R12")


def r21_for_rev(src, item, ed, opts):
    """`for X in V.iter().rev() { B }` -> reverse index loop (for_rev=[{n=<loop ordinal>, k="idx"}])"""
    loops = nodes_of(item, "loop")
    for sp in opts.get("for_rev", []):
        n = pick_loop(src, loops, sp, item["path"])
        if n is None and "over" in sp:
            continue
        if n is None or n["loop_kind"] != "for":
            raise LostAnchor(f"for-loop #{sp.get('n')} of {item['path']}")
        ex = src.text(*n["expr"]).strip()
        m = re.fullmatch(r"(.+)\.iter\(\)\s*\.rev\(\)", ex, re.S)
        if not m:
            mf = re.fullmatch(r"(.+)\.iter\(\)", ex, re.S)
            if mf and sp.get("or_forward"):
                # the same loop without `.rev()`: ascending index (so that a lost `.rev()` is judged, not refused)
                v = sp.get("v") or mf.group(1).strip()
                k = sp.get("k", "vx_idx")
                pat = src.text(*n["pat"])
                ed.replace(n["range"][0], n["body"][0], f"let mut {k}: usize = 0; while {k} < {v}.len() ", "R21")
                ed.insert(n["body"][0] + 1, f" let {pat} = &{v}[{k}]; {k} += 1; ", "R21", prio=-5)
                ed.count("R21")
                continue
            raise Unsupported(f"R21 expects `V.iter().rev()`, found `{ex}`")
        # `v`: the sidecar may name a shim for the vector expression (e.g. an index into an opaque map);
        # the index is decremented FIRST, so `break` / `continue` in the body keep their meaning
        v = sp.get("v") or m.group(1).strip()
        k = sp.get("k", "vx_idx")
        pat = src.text(*n["pat"])
        ed.replace(n["range"][0], n["body"][0], f"let mut {k}: usize = {v}.len(); while {k} > 0 ", "R21")
        ed.insert(n["body"][0] + 1, f" {k} -= 1; let {pat} = &{v}[{k}]; ", "R21", prio=-5)
        ed.count("R21")


def r22_for_enumerate(src, item, ed, opts):
    """`for (K, X) in V[A..].iter().enumerate() { B }` or `V.iter().enumerate()` -> index loop
    (for_enum=[{n=<loop ordinal>}])"""
    loops = nodes_of(item, "loop")
    for sp in opts.get("for_enum", []):
        n = pick_loop(src, loops, sp, item["path"])
        if n is None and "over" in sp:
            continue
        if n is None or n["loop_kind"] != "for":
            raise LostAnchor(f"for-loop #{sp.get('n')} of {item['path']}")
        ex = src.text(*n["expr"]).strip()
        m = re.fullmatch(r"(.+?)(\[(.+)\.\.\])?\.iter\(\)\s*\.enumerate\(\)", ex, re.S)
        mskip = re.fullmatch(r"(.+?)\.iter\(\)\s*\.enumerate\(\)\s*\.skip\((.+)\)", ex, re.S)
        if sp.get("pos") and (m or mskip):
            # position-normalised form: both spellings of "walk V from element A on" become the SAME index loop
            # over the absolute position `pos`; the counter the code names is derived from it (`pos - A` for
            # `V[A..].iter().enumerate()`, `pos` for `V.iter().enumerate().skip(A)`), so invariants written over
            # `pos` judge either spelling
            if mskip:
                v, a, kexpr = mskip.group(1).strip(), mskip.group(2).strip(), "{pos}"
            else:
                v, a, kexpr = m.group(1).strip(), (m.group(3) or "0").strip(), "{pos} - " + (m.group(3) or "0").strip()
            for mm in item["nodes"]:
                if mm["kind"] == "continue" and inside(mm, n["body"]):
                    raise Unsupported("R22: loop body contains continue")
            pat = src.text(*n["pat"]).strip()
            pm = re.fullmatch(r"\(\s*(\w+)\s*,\s*(.+)\)", pat, re.S)
            if not pm:
                raise Unsupported(f"R22 expects a `(k, x)` pattern, found `{pat}`")
            k, x, pos = pm.group(1), pm.group(2).strip(), sp["pos"]
            ed.replace(n["range"][0], n["body"][0], f"let mut {pos}: usize = {a}; while {pos} < {v}.len() ", "R22")
            ed.insert(n["body"][0] + 1, f" let {k}: usize = {kexpr.format(pos=pos)}; let {x} = &{v}[{pos}]; ", "R22", prio=-5)
            ed.insert(n["body"][1] - 1, f" {pos} += 1; ", "R22", prio=5)
            ed.count("R22")
            continue
        if not m:
            raise Unsupported(f"R22 expects `V[A..].iter().enumerate()`, found `{ex}`")
        v = m.group(1).strip()
        a = (m.group(3) or "0").strip()
        for mm in item["nodes"]:
            if mm["kind"] == "continue" and inside(mm, n["body"]):
                raise Unsupported("R22: loop body contains continue")
        pat = src.text(*n["pat"]).strip()
        pm = re.fullmatch(r"\(\s*(\w+)\s*,\s*(.+)\)", pat, re.S)
        if not pm:
            raise Unsupported(f"R22 expects a `(k, x)` pattern, found `{pat}`")
        k, x = pm.group(1), pm.group(2).strip()
        ed.replace(n["range"][0], n["body"][0], f"let mut {k}: usize = 0; while {k} < {v}.len() - {a} ", "R22")
        ed.insert(n["body"][0] + 1, f" let {x} = &{v}[{a} + {k}]; ", "R22", prio=-5)
        ed.insert(n["body"][1] - 1, f" {k} += 1; ", "R22", prio=5)
        ed.count("R22")


def r27_for_vec(src, item, ed, opts):
    """`for X in V { B }` with V a Vec of Copy items (consumed by the loop and not used after) ->
    `let mut k = 0; while k < V.len() { let X = V[k]; k += 1; B }` — the increment comes first, so
    `continue` in B keeps its meaning (Verus' for-loops do not support continue)
    (for_vec=[{n=<loop ordinal>, k="vx_i"}])"""
    loops = nodes_of(item, "loop")
    for sp in opts.get("for_vec", []):
        n = pick_loop(src, loops, sp, item["path"])
        if n is None and "over" in sp:
            continue
        if n is None or n["loop_kind"] != "for":
            raise LostAnchor(f"for-loop #{sp.get('n')} of {item['path']}")
        v = src.text(*n["expr"]).strip()
        if not re.fullmatch(r"[A-Za-z_][\w\.]*", v):
            raise Unsupported(f"R27 expects `for X in <vec variable>`, found `{v}`")
        k = sp.get("k", "vx_i")
        pat = src.text(*n["pat"])
        ed.replace(n["range"][0], n["body"][0], f"let mut {k}: usize = 0; while {k} < {v}.len() ", "R27")
        ed.insert(n["body"][0] + 1, f" let {pat} = {'&' if sp.get('by_ref') else ''}{v}[{k}]; {k} += 1; ", "R27", prio=-5)
        ed.count("R27")


def r29_iter_param_to_slice(src, item, ed, opts):
    """an `impl Iterator<Item = &'a T>` parameter that is used only as the operand of ONE `for`
    loop -> `&[T]` (iter_params=[{name="keys", elem="Value"}]).  `for x in s` over a slice visits
    the same elements in the same order as `for x in s.iter()` (std: IntoIterator for &[T]), so the
    function is verified for every finite sequence of elements."""
    for sp in opts.get("iter_params", []):
        ps = [p for p in item["inputs"] if not p.get("self") and p.get("pat") in (sp["name"], "mut" + sp["name"])]
        if not ps:
            raise LostAnchor(f"parameter `{sp['name']}` of {item['path']}")
        ty = src.text(*ps[0]["ty"]).replace(" ", "")
        if not ty.startswith("implIterator<Item=&"):
            raise Unsupported(f"R29 expects `impl Iterator<Item = &T>`, found `{ty}`")
        body = src.text(item["block"][0], item["block"][1])
        uses = len(re.findall(r"\b" + re.escape(sp["name"]) + r"\b", body))
        loops = [n for n in nodes_of(item, "loop") if n["loop_kind"] == "for" and src.text(*n["expr"]).strip() == sp["name"]]
        if uses != 1 or len(loops) != 1:
            raise Unsupported(f"R29: `{sp['name']}` must be used exactly once, as the operand of a for loop (uses={uses})")
        ed.replace(ps[0]["ty"][0], ps[0]["ty"][1], f"&[{sp['elem']}]", "R29")
        ed.count("R29")


def r28_let_type(src, item, ed, opts):
    """`let PAT = E` -> `let PAT: T = E` for lets named in the sidecar (let_types=[{select="mutx", ty="T"}]):
    an explicit annotation of the type rustc infers anyway (if it were a different type the unit would
    not compile); needed where ghost text mentions the variable before inference has fixed its type"""
    for sp in opts.get("let_types", []):
        c = [n for n in nodes_of(item, "let") if n["pat_text"] == sp["select"].replace(" ", "")]
        k = sp.get("n", 0)
        if k >= len(c):
            raise LostAnchor(f"let `{sp['select']}` #{k} of {item['path']}")
        n = c[k]
        ed.insert(n["pat"][1], f": {sp['ty']}", "R28")
        ed.count("R28")


def r30_for_map(src, item, ed, opts):
    """`for (K, V) in &M { B }` with M an opaque map -> a loop over `vx_map_entries(&M)`, the vector of
    the map's entries (each exactly once, in the map's order: std's contract of map iteration);
    increment first so that `continue` keeps its meaning (for_map=[{n=<loop ordinal>, entries="vx_map_entries", k="vx_j"}])"""
    loops = nodes_of(item, "loop")
    for sp in opts.get("for_map", []):
        n = pick_loop(src, loops, sp, item["path"])
        if n is None and "over" in sp:
            continue
        if n is None or n["loop_kind"] != "for":
            raise LostAnchor(f"for-loop #{sp.get('n')} of {item['path']}")
        ex = src.text(*n["expr"]).strip()
        k = sp.get("k", "vx_j")
        es = sp.get("es", "vx_es")
        pat = src.text(*n["pat"])
        mi = re.fullmatch(r"(.+)\.iter_mut\(\)", ex, re.S)
        pm2 = re.fullmatch(r"\(\s*(\w+)\s*,\s*(\w+)\s*\)", pat.strip())
        if mi and pm2:
            # `for (K, V) in M.iter_mut()`: every entry once with its value mutable.  The loop runs over a copy
            # of the keys; the body may touch V only through field assignments that the sidecar shims into
            # writes through (M, K) — anything else about V does not compile in the verified text
            ed.replace(n["range"][0], n["body"][0], f"let {es} = {sp.get('entries', 'vx_map_keys_cloned')}(&{mi.group(1).strip()}); let mut {k}: usize = 0; {sp.get('ghost_after_let', '')} while {k} < {es}.len() ", "R30")
            ed.insert(n["body"][0] + 1, f" let {pm2.group(1)} = &{es}[{k}]; {k} += 1; ", "R30", prio=-5)
            ed.count("R30")
            continue
        mk = re.fullmatch(r"(.+)\.keys\(\)", ex, re.S)
        if mk:
            # `for K in M.keys()`: the keys, each exactly once, unspecified order
            ed.replace(n["range"][0], n["body"][0], f"let {es} = {sp.get('entries', 'vx_map_keys')}(&{mk.group(1).strip()}); let mut {k}: usize = 0; {sp.get('ghost_after_let', '')} while {k} < {es}.len() ", "R30")
            ed.insert(n["body"][0] + 1, f" let {pat} = {es}[{k}]; {k} += 1; ", "R30", prio=-5)
            ed.count("R30")
            continue
        if not ex.startswith("&"):
            # by value: the map is consumed; its entries come out each exactly once in an unspecified
            # order, so taking them from the back of the entry vector is as good as any other order
            if not sp.get("by_value") or not re.fullmatch(r"[A-Za-z_][\w\.]*", ex):
                raise Unsupported(f"R30 expects `for (k, v) in &M` (or by_value with a plain variable), found `{ex}`")
            for mm in item["nodes"]:
                if mm["kind"] in ("break", "continue") and inside(mm, n["body"]):
                    raise Unsupported("R30 by value: loop body contains break/continue")
            ed.replace(n["range"][0], n["body"][0], f"let mut {es} = {sp.get('entries', 'vx_map_into_entries')}({ex}); {sp.get('ghost_after_let', '')} while {es}.len() > 0 ", "R30")
            ed.insert(n["body"][0] + 1, f" {sp.get('ghost', '')} let {pat} = {es}.pop().unwrap(); ", "R30", prio=-5)
            ed.count("R30")
            continue
        m = ex[1:].strip()
        ed.replace(n["range"][0], n["body"][0], f"let {es} = {sp.get('entries', 'vx_map_entries')}(&{m}); let mut {k}: usize = 0; while {k} < {es}.len() ", "R30")
        ed.insert(n["body"][0] + 1, f" let {pat} = {es}[{k}]; {k} += 1; ", "R30", prio=-5)
        ed.count("R30")


def r32_for_into_iter_rev(src, item, ed, opts):
    """`for PAT in V.into_iter().rev() { B }` -> `while V.len() > 0 { let PAT = V.pop().unwrap(); B }`:
    consuming a vector from the back is what the reversed by-value iterator does (without `.rev()`:
    from the front, `V.remove(0)`); `B` may not
    `break`/`continue` (for_pop=[{n=<loop ordinal>}])"""
    loops = nodes_of(item, "loop")
    for sp in opts.get("for_pop", []):
        n = pick_loop(src, loops, sp, item["path"])
        if n is None and "over" in sp:
            continue
        if n is None or n["loop_kind"] != "for":
            raise LostAnchor(f"for-loop #{sp.get('n')} of {item['path']}")
        ex = src.text(*n["expr"]).strip()
        m = re.fullmatch(r"([A-Za-z_][\w\.]*)(?:\.into_iter\(\))?\s*(\.rev\(\))?", ex, re.S)
        if not m:
            raise Unsupported(f"R32 expects `V.into_iter()[.rev()]`, found `{ex}`")
        v = m.group(1)
        take = f"{v}.pop().unwrap()" if m.group(2) else f"{v}.remove(0)"
        for mm in item["nodes"]:
            if mm["kind"] in ("break", "continue") and inside(mm, n["body"]):
                raise Unsupported("R32: loop body contains break/continue")
        pat = src.text(*n["pat"])
        ed.replace(n["range"][0], n["body"][0], f"while {v}.len() > 0 ", "R32")
        ed.insert(n["body"][0] + 1, f" {sp.get('ghost', '')} let {pat} = {take}; ", "R32", prio=-5)
        ed.count("R32")


def r33_instantiate_generics(src, item, ed, opts):
    """a generic function is verified at ONE instance of its type parameters
    (instantiate = {drop_generics=true, params={templates="Vec<(String, String)>"}}): the generic
    parameter list and where clause are removed and the named parameters get the instance types"""
    sp = opts.get("instantiate")
    if not sp:
        return
    if "generics" in item:
        # `generics_to` keeps what the instance still needs (lifetimes); a type parameter that stays in the text is a
        # type alias of the prelude (`pub type T = i64;`)
        ed.replace(item["generics"][0], item["generics"][1], sp.get("generics_to", ""), "R33")
    if "where" in item:
        ed.replace(item["where"][0], item["where"][1], "", "R33")
    for pname, newty in sp.get("params", {}).items():
        ps = [p for p in item["inputs"] if not p.get("self") and p.get("pat") in (pname, "mut" + pname)]
        if not ps:
            raise LostAnchor(f"parameter `{pname}` of {item['path']}")
        ed.replace(ps[0]["ty"][0], ps[0]["ty"][1], newty, "R33")
    ed.count("R33")


def _compose_shim(src, item, ed, sp, n, kind):
    """surgical form of a shim: the sub-expressions the template mentions ({recv}, {arg0}, {left}, ...) stay
    where they are in the text and only what lies between them is replaced, so that rewrites INSIDE them
    still apply (nested shims).  Possible when every placeholder is a sub-range of the node, each used once,
    in source order; returns False otherwise (the caller then replaces the whole node)."""
    rng = {}
    if kind == "methodcall":
        rng["recv"] = tuple(n["receiver"])
        for j, a in enumerate(n["args"]):
            rng[f"arg{j}"] = tuple(a["range"])
        for rn in nodes_of(item, "methodcall"):
            if list(rn["range"]) == list(n["receiver"]):
                rng["recv_recv"] = tuple(rn["receiver"])
                for j, a in enumerate(rn["args"]):
                    rng[f"recv_arg{j}"] = tuple(a["range"])
                for rn2 in nodes_of(item, "methodcall"):
                    if list(rn2["range"]) == list(rn["receiver"]):
                        rng["recv_recv_recv"] = tuple(rn2["receiver"])
                        for j, a in enumerate(rn2["args"]):
                            rng[f"recv_recv_arg{j}"] = tuple(a["range"])
    elif kind == "call":
        for j, a in enumerate(n["args"]):
            rng[f"arg{j}"] = tuple(a["range"])
    elif kind == "binary":
        rng["left"] = tuple(n["left"])
        rng["right"] = tuple(n["right"])
    elif kind == "unary":
        rng["operand"] = tuple(n["operand"])
    elif kind == "cast":
        rng["expr"] = tuple(n["expr"])
    elif kind == "assign":
        rng["right"] = tuple(n["right"])
    elif kind == "ref_index":
        rng["base"] = tuple(n["_idx"]["expr"])
        rng["index"] = tuple(n["_idx"]["index"])
    elif kind == "index":
        rng["base"] = tuple(n["expr"])
        rng["index"] = tuple(n["index"])
    else:
        return False
    parts = re.split(r"(?<!\{)\{(\w+)\}(?!\})", sp["to"])
    lits, phs = parts[0::2], parts[1::2]
    if not phs or len(set(phs)) != len(phs) or any(p not in rng for p in phs):
        return False
    pos = n["range"][0]
    for p in phs:
        a, b = rng[p]
        if a < pos or b > n["range"][1]:
            return False
        pos = b
    rule = sp.get("rule", "R24")
    # the gaps this shim would rewrite; if an earlier shim already rewrote part of one (e.g. the outer
    # `.to_uppercase().collect()` of a char), the earlier one wins and this site is left alone
    pos = n["range"][0]
    gaps = []
    for p in phs:
        a, b = rng[p]
        if a > pos:
            gaps.append((pos, a))
        pos = b
    if n["range"][1] > pos:
        gaps.append((pos, n["range"][1]))
    for (ga, gb) in gaps:
        for e in ed.list:
            if e[1] > e[0] and e[0] < gb and ga < e[1]:
                return True
    pos = n["range"][0]
    for lit, p in zip(lits, phs):
        a, b = rng[p]
        text = lit.replace("{{", "{").replace("}}", "}")
        if a > pos:
            ed.replace(pos, a, text, rule)
        elif text:
            # an outer node's prefix goes before an inner node's prefix at the same offset
            ed.insert(pos, text, rule, prio=-(n["range"][1] - n["range"][0]))
        pos = b
    text = lits[-1].replace("{{", "{").replace("}}", "}")
    if n["range"][1] > pos:
        ed.replace(pos, n["range"][1], text, rule)
    elif text:
        ed.insert(pos, text, rule, prio=(n["range"][1] - n["range"][0]))
    return True


def r24_call_shim(src, item, ed, opts):
    """generic named-site shim (covers R5, R6, R8, R11, R17): a call / method call / macro named
    in the sidecar is replaced by a call to a prelude shim whose spec is the std contract.
    shims = [{kind="methodcall", method="extend", n=0, to="vx_vec_extend(&mut {recv}, {arg0})", rule="R11"}]"""
    for sp in opts.get("shims", []):
        kind = sp["kind"]
        if kind == "methodcall":
            c = [n for n in nodes_of(item, "methodcall") if n["method"] == sp["method"] and (sp.get("recv_contains") is None or sp["recv_contains"].replace(" ", "") in n["receiver_text"])]
            if sp.get("arg0_matches") is not None:
                # select by the text of the first argument (a regex over its whitespace-free text), never by position
                c = [n for n in c if n["args"] and re.fullmatch(sp["arg0_matches"], re.sub(r"\s+", "", src.text(*n["args"][0]["range"])), re.S)]
            if sp.get("recv_matches") is not None:
                c = [n for n in c if re.fullmatch(sp["recv_matches"], re.sub(r"\s+", "", src.text(*n["receiver"])), re.S)]
        elif kind == "call":
            c = [n for n in nodes_of(item, "call") if n["func"] == sp["func"]]
            if sp.get("arg0_matches") is not None:
                c = [n for n in c if n["args"] and re.search(sp["arg0_matches"], re.sub(r"\s+", "", src.text(*n["args"][0]["range"])), re.S)]
        elif kind == "macro":
            c = [n for n in nodes_of(item, "macro") if n["name"] == sp["name"]]
        elif kind == "unary":
            c = [n for n in nodes_of(item, "unary") if n["op"] == sp["op"]]
        elif kind == "binary":
            c = [n for n in nodes_of(item, "binary") if n["op"] == sp["op"] and (sp.get("right") is None or src.text(*n["right"]).replace(" ", "") == sp["right"].replace(" ", "")) and (sp.get("left") is None or src.text(*n["left"]).replace(" ", "") == sp["left"].replace(" ", ""))]
            if sp.get("left_matches") is not None:
                c = [n for n in c if re.fullmatch(sp["left_matches"], re.sub(r"\s+", "", src.text(*n["left"])), re.S)]
            if sp.get("right_matches") is not None:
                c = [n for n in c if re.fullmatch(sp["right_matches"], re.sub(r"\s+", "", src.text(*n["right"])), re.S)]
        elif kind == "unsafe":
            c = nodes_of(item, "unsafe")
        elif kind == "ref_index":
            idx = {tuple(x["range"]): x for x in nodes_of(item, "index")}
            c = [n for n in nodes_of(item, "ref") if tuple(n["expr"]) in idx and (sp.get("base") is None or src.text(*idx[tuple(n["expr"])]["expr"]).replace(" ", "") == sp["base"].replace(" ", ""))]
            if sp.get("index_matches") is not None:
                c = [n for n in c if re.fullmatch(sp["index_matches"], re.sub(r"\s+", "", src.text(*idx[tuple(n["expr"])]["index"])), re.S)]
            for n in c:
                n["_idx"] = idx[tuple(n["expr"])]
        elif kind == "index":
            c = [n for n in nodes_of(item, "index") if sp.get("base") is None or src.text(*n["expr"]).replace(" ", "") == sp["base"].replace(" ", "")]
            if sp.get("index_matches") is not None:
                c = [n for n in c if re.fullmatch(sp["index_matches"], re.sub(r"\s+", "", src.text(*n["index"])), re.S)]
        elif kind == "cast":
            c = [n for n in nodes_of(item, "cast") if n["ty"] == sp["ty"]]
        elif kind == "assign":
            c = [n for n in nodes_of(item, "assign") if n["left_text"] == sp["left"].replace(" ", "")]
        elif kind == "if_stmt":
            # a whole `if` statement named by a text its condition mentions
            c = [n for n in nodes_of(item, "if") if sp["cond_contains"].replace(" ", "") in re.sub(r"\s+", "", src.text(*n["cond"]))]
        elif kind == "iife":
            # an immediately-invoked closure `(|| -> T { B })()`
            c = [n for n in nodes_of(item, "call") if n["func"].startswith("(|") or n["func"].startswith("(move|")]
        else:
            raise Unsupported(f"shim kind {kind}")
        idxs = [sp["n"]] if "n" in sp else list(range(len(c)))
        if "n" in sp and sp["n"] >= len(c):
            if sp.get("optional"):
                continue
            raise LostAnchor(f"{kind} site #{sp['n']} ({sp.get('method') or sp.get('func') or sp.get('name') or sp.get('op')}) of {item['path']}")
        # a shim named by callee/receiver/operand text that matches nothing is simply not applied (the code
        # that needed it is gone; what replaced it is judged by the verifier as it stands); `required=true`
        # or an ordinal keeps the old behaviour
        if "n" not in sp and not c and sp.get("required"):
            raise LostAnchor(f"{kind} site ({sp.get('method') or sp.get('func') or sp.get('name') or sp.get('op')}) of {item['path']}")
        for i in idxs:
            n = c[i]
            env = {}
            if kind == "methodcall":
                env["recv"] = src.text(*n["receiver"])
                for j, a in enumerate(n["args"]):
                    env[f"arg{j}"] = src.text(*a["range"])
                    # an argument that is a parameterless closure: its body (`o.unwrap_or_else(|| E)` is
                    # by definition `match o { Some(v) => v, None => E }`)
                    for cn in nodes_of(item, "closure"):
                        if list(cn["range"]) == list(a["range"]) and not cn["inputs"]:
                            env[f"arg{j}_body"] = src.text(*cn["body"])
                    # an argument that is an iterator chain over a collection (`v.extend(w.iter().rev().cloned())`):
                    # the collection it walks
                    root = a["range"]
                    while True:
                        inner = [rn for rn in nodes_of(item, "methodcall") if list(rn["range"]) == list(root) and rn["method"] in ("iter", "rev", "cloned", "copied", "into_iter") and not rn["args"]]
                        if not inner:
                            break
                        root = inner[0]["receiver"]
                    if list(root) != list(a["range"]):
                        env[f"arg{j}_root"] = src.text(*root)
                # a receiver that is a plain call (`String::from_utf8(b).map_err(..)`): its arguments by name
                for rn in nodes_of(item, "call"):
                    if list(rn["range"]) == list(n["receiver"]):
                        for j, a in enumerate(rn["args"]):
                            env[f"recv_arg{j}"] = src.text(*a["range"])
                # a receiver that is itself a method call (`a.entry(k).or_insert(v)`): its parts by name
                for rn in nodes_of(item, "methodcall"):
                    if list(rn["range"]) == list(n["receiver"]):
                        env["recv_recv"] = src.text(*rn["receiver"])
                        env["recv_method"] = rn["method"]
                        for j, a in enumerate(rn["args"]):
                            env[f"recv_arg{j}"] = src.text(*a["range"])
                        # one level further (`m.entry(k).or_default().extend(v)`)
                        for rn2 in nodes_of(item, "methodcall"):
                            if list(rn2["range"]) == list(rn["receiver"]):
                                env["recv_recv_recv"] = src.text(*rn2["receiver"])
                                env["recv_recv_method"] = rn2["method"]
                                for j, a in enumerate(rn2["args"]):
                                    env[f"recv_recv_arg{j}"] = src.text(*a["range"])
            elif kind == "call":
                for j, a in enumerate(n["args"]):
                    env[f"arg{j}"] = src.text(*a["range"])
                    root = a["range"]
                    while True:
                        inner = [rn for rn in nodes_of(item, "methodcall") if list(rn["range"]) == list(root) and rn["method"] in ("iter", "rev", "cloned", "copied", "into_iter") and not rn["args"]]
                        if not inner:
                            break
                        root = inner[0]["receiver"]
                    if list(root) != list(a["range"]):
                        env[f"arg{j}_root"] = src.text(*root)
            elif kind == "unary":
                env["operand"] = src.text(*n["operand"])
            elif kind == "binary":
                env["left"] = src.text(*n["left"])
                env["right"] = src.text(*n["right"])
                env["arg_right"] = src.text(*n["right"])
            elif kind == "assign":
                env["right"] = src.text(*n["right"])
            elif kind == "cast":
                env["expr"] = src.text(*n["expr"])
            elif kind == "unsafe":
                env["block"] = src.text(n["block"][0] + 1, n["block"][1] - 1)
            elif kind == "ref_index":
                env["base"] = src.text(*n["_idx"]["expr"])
                env["index"] = src.text(*n["_idx"]["index"])
            elif kind == "index":
                env["base"] = src.text(*n["expr"])
                env["index"] = src.text(*n["index"])
            elif kind == "macro":
                env["tokens"] = n["tokens"]
            if opts.get("compose") and _compose_shim(src, item, ed, sp, n, kind):
                ed.count(sp.get("rule", "R24"))
                continue
            txt = sp["to"].format(**env)
            ed.replace(n["range"][0], n["range"][1], txt, sp.get("rule", "R24"), subsume=True)
            ed.count(sp.get("rule", "R24"))


def r6_mem_replace(src, item, ed, opts):
    """`std::mem::replace(&mut V[I], P.clone())` -> `vx_replace_at(&mut V, I, &P)`"""
    for n in nodes_of(item, "call"):
        if n["func"] in ("std::mem::replace", "mem::replace", "core::mem::replace", "::std::mem::replace"):
            if len(n["args"]) != 2:
                raise Unsupported("mem::replace arity")
            a0 = src.text(*n["args"][0]["range"]).strip()
            a1 = src.text(*n["args"][1]["range"]).strip()
            m0 = re.fullmatch(r"&mut\s+([\w\.]+)\[(.+)\]", a0, re.S)
            m1 = re.fullmatch(r"([\w\.]+)\.clone\(\)", a1, re.S)
            if not m0 or not m1:
                raise Unsupported(f"R6 expects mem::replace(&mut V[I], P.clone()), found ({a0}, {a1})")
            ed.replace(n["range"][0], n["range"][1], f"vx_replace_at(&mut {m0.group(1)}, {m0.group(2)}, &{m1.group(1)})", "R6", subsume=True)
            ed.count("R6")


def r8_iter_any(src, item, ed, opts):
    """`X.iter().any(|n| n == Y)` -> `vx_contains(&X, Y)`"""
    for n in nodes_of(item, "methodcall"):
        if n["method"] != "any" or len(n["args"]) != 1:
            continue
        recv = src.text(*n["receiver"]).strip()
        m0 = re.fullmatch(r"(.+)\.iter\(\)", recv, re.S)
        arg = src.text(*n["args"][0]["range"]).strip()
        m1 = re.fullmatch(r"\|\s*(\w+)\s*\|\s*(\w+)\s*==\s*(.+)", arg, re.S)
        if not m0 or not m1 or m1.group(1) != m1.group(2):
            raise Unsupported(f"R8 expects X.iter().any(|n| n == Y), found {recv}.any({arg})")
        ed.replace(n["range"][0], n["range"][1], f"vx_contains(&{m0.group(1)}, {m1.group(3).strip()})", "R8", subsume=True)
        ed.count("R8")


def r7_writer(src, item, ed, opts):
    """`&mut dyn std::io::Write` / `&mut impl Write` parameters -> `&mut VxWriter` (ghost-modelled
    writer carrying the contract of io::Write::write_all); `std::io::Result<T>` -> `VxIoResult<T>`"""
    for p in item.get("inputs", []):
        if p.get("self"):
            continue
        t = src.text(*p["ty"])
        tn = t.replace(" ", "")
        if tn in ("&mutdynstd::io::Write", "&mutimplstd::io::Write", "&mutimplWrite", "&mutdynWrite", "&mutimplio::Write", "&mutdynio::Write"):
            ed.replace(p["ty"][0], p["ty"][1], "&mut VxWriter", "R7")
            ed.count("R7")
    if "ret" in item:
        t = src.text(*item["ret"])
        for pre in ("std::io::Result", "io::Result"):
            if t.replace(" ", "").startswith(pre + "<"):
                ed.replace(item["ret"][0], item["ret"][0] + t.index("Result") + len("Result"), "VxIoResult", "R7")
                ed.count("R7")
                break


def r18_rendering_error(src, item, ed, opts):
    """the compiler-expanded body of `rendering_error!` -> `return Err(vx_rendering_error())`.
    Dropped: message text, span lookup, report-target choice.  Kept: that the arm returns a
    rendering error at this point."""
    want = "returnErr(Error::new(ErrorKind::RenderingError(Box::new(err))))"
    for n in nodes_of(item, "return"):
        if src.text(*n["range"]).replace(" ", "").replace("\n", "") != want:
            continue
        blk = None
        for an in ancestors(item, n):
            if an["kind"] == "block":
                t = norm_tokens(src.text(*an["range"]))
                if t.startswith('{ let chunk = state.chunk.expect("to have a chunk");'):
                    blk = an
                    break
        if blk is None:
            raise Unsupported("rendering_error! expansion not recognised")
        ed.replace(blk["range"][0], blk["range"][1], "{ return Err(vx_rendering_error()); }", "R18", subsume=True)
        ed.count("R18")


def r25_closure_wildcard(src, item, ed, opts):
    """closure parameter `_` -> a fresh variable name (Verus accepts only variables there)"""
    for j, p in enumerate(item.get("inputs", [])):
        if not p.get("self") and p.get("pat") == "_":
            ed.replace(p["pat_range"][0], p["pat_range"][1], f"_vx_unused_arg{j}", "R25")
            ed.count("R25")
    for n in nodes_of(item, "closure"):
        for j, p in enumerate(n["inputs"]):
            if p["text"] == "_":
                ed.replace(p["range"][0], p["range"][1], f"_vx_unused{j}", "R25")
                ed.count("R25")


def r35_unwrap_or_else(src, item, ed, opts):
    """`O.unwrap_or_else(|| E)` -> `(match O { Some(v) => v, None => E })`: the definition of
    Option::unwrap_or_else for a parameterless closure; edits inside O and E still apply"""
    clos = {tuple(c["range"]): c for c in nodes_of(item, "closure")}
    for n in nodes_of(item, "methodcall"):
        if n["method"] != "unwrap_or_else" or len(n["args"]) != 1:
            continue
        cn = clos.get(tuple(n["args"][0]["range"]))
        if cn is None or cn["inputs"]:
            continue
        ed.insert(n["range"][0], "(match ", "R35")
        ed.replace(n["receiver"][1], cn["body"][0], " { Some(vx_v) => vx_v, None => ", "R35")
        ed.replace(cn["body"][1], n["range"][1], " })", "R35")
        ed.count("R35")


def _option_site(src, n, opts):
    """`option_map = true`: every `.map(closure)` / `.filter(closure)` of the function is Option's; `option_map =
    "regex"`: those whose receiver (whitespace-free text) matches"""
    om = opts.get("option_map")
    if not om:
        return False
    if om is True:
        return True
    return re.search(om, re.sub(r"\s+", "", src.text(*n["receiver"]))) is not None


def r40_and_then(src, item, ed, opts):
    """`O.and_then(|P| E)` -> `(match O { Some(P) => E, None => None })` and `O.map_or(D, |P| E)` ->
    `(match (O, D) { (Some(P), _) => E, (None, d) => d })`: the definitions of Option::and_then / Option::map_or (D is a
    evaluated first, as map_or does);
    only for a one-parameter closure whose body has no `?` / `return` (those would leave the closure, not the
    function); edits inside O, D and E still apply"""
    clos = {tuple(c["range"]): c for c in nodes_of(item, "closure")}
    for n in nodes_of(item, "methodcall"):
        if n["method"] == "map" and len(n["args"]) == 1 and _option_site(src, n, opts):
            # (opt-in per function: `option_map = true` says every `.map(closure)` of it is Option::map)
            # `O.map(|P| E)` -> `(match O { Some(P) => Some(E), None => None })`: the definition of Option::map
            cn = clos.get(tuple(n["args"][0]["range"]))
            if cn is None or len(cn["inputs"]) != 1:
                continue
            body = re.sub(r'"(?:[^"\\\\]|\\\\.)*"', '""', src.text(*cn["body"]))
            if "?" in body or re.search(r"\breturn\b", body):
                raise Unsupported("R40: `?`/`return` inside a map closure")
            pat = src.text(*cn["inputs"][0]["range"])
            ed.insert(n["range"][0], "(match ", "R40", prio=-(n["range"][1] - n["range"][0]))
            ed.replace(n["receiver"][1], cn["body"][0], f" {{ Some({pat}) => Some(", "R40")
            ed.replace(cn["body"][1], n["range"][1], "), None => None })", "R40")
            ed.count("R40")
            continue
        if n["method"] == "filter" and len(n["args"]) == 1 and _option_site(src, n, opts):
            # (same opt-in) `O.filter(|P| E)` -> `(match O { Some(f) => { let keep = { let P = &f; E }; if keep { Some(f) }
            # else { None } }, None => None })`: the definition of Option::filter
            cn = clos.get(tuple(n["args"][0]["range"]))
            if cn is None or len(cn["inputs"]) != 1:
                continue
            body = re.sub(r'"(?:[^"\\\\]|\\\\.)*"', '""', src.text(*cn["body"]))
            if "?" in body or re.search(r"\breturn\b", body):
                raise Unsupported("R40: `?`/`return` inside a filter closure")
            pat = src.text(*cn["inputs"][0]["range"])
            ed.insert(n["range"][0], "(match ", "R40", prio=-(n["range"][1] - n["range"][0]))
            ed.replace(n["receiver"][1], cn["body"][0], f" {{ Some(vx_f) => {{ let vx_keep = {{ let {pat} = &vx_f; ", "R40")
            ed.replace(cn["body"][1], n["range"][1], " }; if vx_keep { Some(vx_f) } else { None } }, None => None })", "R40")
            ed.count("R40")
            continue
        if n["method"] == "and_then" and len(n["args"]) == 1:
            ca, dflt = n["args"][0], None
        elif n["method"] == "map_or" and len(n["args"]) == 2:
            ca, dflt = n["args"][1], n["args"][0]
        else:
            continue
        cn = clos.get(tuple(ca["range"]))
        if cn is None or len(cn["inputs"]) != 1:
            continue
        body = re.sub(r'"(?:[^"\\\\]|\\\\.)*"', '""', src.text(*cn["body"]))
        if "?" in body or re.search(r"\breturn\b", body):
            raise Unsupported("R40: `?`/`return` inside an and_then / map_or closure")
        pat = cn["inputs"][0]["text"]
        # an outer node's prefix goes before an inner node's prefix at the same offset (cf. _compose_shim)
        ed.insert(n["range"][0], "(match ", "R40", prio=-(n["range"][1] - n["range"][0]))
        if dflt is None:
            ed.replace(n["receiver"][1], cn["body"][0], f" {{ Some({pat}) => ", "R40")
            ed.replace(cn["body"][1], n["range"][1], ", None => None })", "R40")
        else:
            # `O.map_or(D, |P| E)` -> `(match (O, D) { (Some(P), _) => E, (None, d) => d })`: O, D and E keep their
            # places in the text (so rewrites inside them still apply) and D is evaluated eagerly, as map_or does
            ed.insert(n["range"][0], "(", "R40", prio=-(n["range"][1] - n["range"][0]) + 1)
            ed.replace(n["receiver"][1], dflt["range"][0], ", ", "R40")
            ed.replace(dflt["range"][1], cn["body"][0], f") {{ (Some({pat}), _) => ", "R40")
            ed.replace(cn["body"][1], n["range"][1], ", (None, vx_d) => vx_d })", "R40")
        ed.count("R40")


def r45_ok_or_else(src, item, ed, opts):
    """(every unit) `O.ok_or_else(|| E)` -> `(match O { Some(v) => Ok(v), None => Err(E) })`: the definition of
    Option::ok_or_else (a parameterless closure whose body has no `?` / `return`)"""
    if any(sp.get("kind") == "methodcall" and sp.get("method") == "ok_or_else" for sp in opts.get("shims", [])):
        return  # the sidecar models this function's ok_or_else sites itself
    clos = {tuple(c["range"]): c for c in nodes_of(item, "closure")}
    for n in nodes_of(item, "methodcall"):
        if n["method"] == "ok_or_else" and len(n["args"]) == 1:
            # `O.ok_or_else(|| E)` -> `(match O { Some(v) => Ok(v), None => Err(E) })`: the definition of Option::ok_or_else
            cn = clos.get(tuple(n["args"][0]["range"]))
            if cn is None or cn["inputs"]:
                continue
            body = re.sub(r'"(?:[^"\\\\]|\\\\.)*"', '""', src.text(*cn["body"]))
            if "?" in body or re.search(r"\breturn\b", body):
                raise Unsupported("R45: `?`/`return` inside an ok_or_else closure")
            ed.insert(n["range"][0], "(match ", "R45", prio=-(n["range"][1] - n["range"][0]))
            ed.replace(n["receiver"][1], cn["body"][0], " { Some(vx_v) => Ok(vx_v), None => Err(", "R45")
            ed.replace(cn["body"][1], n["range"][1], ") })", "R45")
            ed.count("R45")
            continue


def _norm_ws(t):
    return re.sub(r"\s+", "", t)


def r41_map_collect(src, item, ed, opts):
    """`X.into_iter().map(|P| E).collect()` -> `{ let src = X; let mut out = Vec::new(); let mut i = 0;
    while i < src.len() { let P = src[i]; out.push(E); i += 1; } out }` for X a vector of Copy items
    (`X.iter().map(..)` over a slice or vector: `let P = &src[i]`)
    (map_collect=[{n=0, invariant=.., src=.., out=.., i=..}]): what map + collect into a Vec is by definition;
    X and E stay in place, so rewrites inside them still apply"""
    clos = {tuple(c["range"]): c for c in nodes_of(item, "closure")}
    mcs = {tuple(n["range"]): n for n in nodes_of(item, "methodcall")}
    sites = []
    for n in nodes_of(item, "methodcall"):
        if n["method"] != "collect" or n["args"]:
            continue
        mp = mcs.get(tuple(n["receiver"]))
        if not mp or mp["method"] != "map" or len(mp["args"]) != 1 or tuple(mp["args"][0]["range"]) not in clos:
            continue
        ii = mcs.get(tuple(mp["receiver"]))
        if not ii or ii["method"] not in ("into_iter", "iter") or ii["args"]:
            continue
        sites.append((n, mp, ii, clos[tuple(mp["args"][0]["range"])]))
    for sp in opts.get("map_collect", []):
        k = sp.get("n", 0)
        if k >= len(sites):
            if sp.get("optional", True):
                continue
            raise LostAnchor(f"into_iter().map().collect() #{k} of {item['path']}")
        n, mp, ii, cn = sites[k]
        if len(cn["inputs"]) != 1:
            raise Unsupported("R41 expects a one-parameter closure")
        body = re.sub(r'"(?:[^"\\\\]|\\\\.)*"', '""', src.text(*cn["body"]))
        if "?" in body or re.search(r"\breturn\b", body):
            raise Unsupported("R41: `?`/`return` inside the map closure")
        pat = cn["inputs"][0]["text"]
        v, out, i = sp.get("src", "vx_src"), sp.get("out", "vx_out"), sp.get("i", "vx_i")
        inv = clause("invariant", sp.get("invariant")) + clause("decreases", sp.get("decreases", f"{v}.len() - {i}"))
        ed.insert(n["range"][0], f"{{ let {v} = ", "R41", prio=-(n["range"][1] - n["range"][0]))
        ed.replace(ii["receiver"][1], cn["body"][0], f"; let mut {out}{(': ' + sp['out_ty']) if sp.get('out_ty') else ''} = Vec::new(); let mut {i}: usize = 0; {sp.get('before', '')} while {i} < {v}.len() {inv} {{ let {pat} = {'&' if ii['method'] == 'iter' else ''}{v}[{i}]; {out}.push(", "R41")
        ed.replace(cn["body"][1], n["range"][1], f"); {i} += 1; {sp.get('body_end', '')} }} {sp.get('after', '')} {out} }}", "R41")
        ed.count("R41")


VEC_MACRO = re.compile(r"::alloc::boxed::box_assume_init_into_vec_unsafe\(\s*::alloc::intrinsics::write_box_via_move\(\s*::alloc::boxed::Box::new_uninit\(\)\s*,\s*")


def r43_vec_literal(src, item, ed, opts):
    """the expansion of `vec![a, b, ..]` -> `vx_vec_of([a, b, ..])` (prelude: a vector holding the array's elements
    in order): the elements stay in place"""
    for n in nodes_of(item, "call"):
        t = src.text(*n["range"])
        m = VEC_MACRO.match(t)
        if not m or not t.rstrip().endswith("))"):
            continue
        ed.replace(n["range"][0], n["range"][0] + m.end(), "vx_vec_of(", "R43")
        e = n["range"][1]
        ed.replace(e - 2, e, ")", "R43")
        ed.count("R43")


def r36_for_chars(src, item, ed, opts):
    """`for C in S.chars() { B }` -> `let mut it = vx_chars(S); while let Some(C) = it.next() { B }`
    (for_chars=[{over="val.chars()", it="vx_it"}]): what a `for` over an iterator is by definition"""
    loops = nodes_of(item, "loop")
    for sp in opts.get("for_chars", []):
        n = pick_loop(src, loops, sp, item["path"])
        if n is None:
            if "over" in sp:
                continue
            raise LostAnchor(f"for-loop #{sp.get('n')} of {item['path']}")
        ex = src.text(*n["expr"]).strip()
        it = sp.get("it", "vx_it")
        pat = src.text(*n["pat"])
        mt = re.fullmatch(r"(.+)\.chars\(\)\s*\.take\((.+)\)", ex, re.S)
        if mt and n["loop_kind"] == "for":
            # `.take(N)`: at most N characters
            k = sp.get("k", "vx_taken")
            ed.replace(n["range"][0], n["body"][0], f"let mut {it} = vx_chars({mt.group(1).strip()}); let mut {k}: usize = 0; {sp.get('ghost_after_let', '')} while {k} < {mt.group(2).strip()} ", "R36")
            ed.insert(n["body"][0] + 1, f" let Some({pat}) = {it}.next() else {{ break; }}; {k} += 1; ", "R36", prio=-5)
            ed.count("R36")
            continue
        m = re.fullmatch(r"(.+)\.(chars|lines)\(\)", ex, re.S)
        if not m or n["loop_kind"] != "for":
            raise Unsupported(f"R36 expects `for c in S.chars()` / `for l in S.lines()`, found `{ex}`")
        ed.replace(n["range"][0], n["body"][0], f"let mut {it} = vx_{m.group(2)}({m.group(1).strip()}); {sp.get('ghost_after_let', '')} while let Some({pat}) = {it}.next() ", "R36")
        ed.count("R36")


def r37_ref_pattern(src, item, ed, opts):
    """arm pattern `Some(&(A, B))` over an `Option<&(X, Y)>` of Copy types -> `Some((A, B))`; the sidecar's
    shim for the scrutinee returns the tuple by value (Verus has no ref patterns; for Copy payloads the two
    bind the same values)"""
    for a in nodes_of(item, "arm"):
        t = src.text(*a["pat"])
        for m in re.finditer(r"&\s*\(", t):
            ed.replace(a["pat"][0] + m.start(), a["pat"][0] + m.start() + 1, "", "R37")
            ed.count("R37")


def r39_any_loop(src, item, ed, opts):
    """`X.iter().any(|P| E)` -> `{ let mut f = false; let mut q = 0; while q < X.len() { let P = &X[q]; q += 1; if E { f = true; break; } } f }`
    (any_loops=[{n=0, invariant=.., ensures=.., decreases=..}]): the definition of Iterator::any over a slice/vector;
    E stays in place, so rewrites inside it still apply"""
    clos = {tuple(c["range"]): c for c in nodes_of(item, "closure")}
    anys = [n for n in nodes_of(item, "methodcall") if n["method"] == "any" and len(n["args"]) == 1 and tuple(n["args"][0]["range"]) in clos]
    for sp in opts.get("any_loops", []):
        k = sp.get("n", 0)
        if k >= len(anys):
            if sp.get("optional", True):
                continue
            raise LostAnchor(f"any() #{k} of {item['path']}")
        n = anys[k]
        cn = clos[tuple(n["args"][0]["range"])]
        recv = src.text(*n["receiver"]).strip()
        m = re.fullmatch(r"(.+)\.iter\(\)", recv, re.S)
        if not m or len(cn["inputs"]) != 1:
            raise Unsupported(f"R39 expects X.iter().any(|p| E), found {recv}.any(..)")
        x = m.group(1).strip()
        pat = cn["inputs"][0]["text"]
        f, q = sp.get("found", "vx_found"), sp.get("q", "vx_q")
        inv = clause("invariant_except_break", sp.get("invariant_except_break")) + clause("invariant", sp.get("invariant")) + clause("ensures", sp.get("ensures")) + clause("decreases", sp.get("decreases", f"{x}.len() - {q}"))
        ed.replace(n["range"][0], cn["body"][0], f"{{ let mut {f} = false; let mut {q}: usize = 0; {sp.get('ghost_before', '')} while {q} < {x}.len() {inv} {{ let {pat} = &{x}[{q}]; {q} += 1; {sp.get('body_start', '')} if ", "R39")
        ed.replace(cn["body"][1], n["range"][1], f" {{ {sp.get('on_found', '')} {f} = true; break; }} }} {sp.get('after', '')} {f} }}", "R39")
        ed.count("R39")


RULES = {
    "R6": r6_mem_replace,
    "R18": r18_rendering_error,
    "R7": r7_writer,
    "R8": r8_iter_any,
    "R25": r25_closure_wildcard,
    "R1": r1_format,
    "R2": r2_panic,
    "R3": r3_map_ctor,
    "R4": r4_let_chain,
    "R10": r10_or_pattern_mut,
    "R12": r12_for_mut,
    "R13": r13_try,
    "R14": r14_str_eq,
    "R20": r20_bytestr,
    "R21": r21_for_rev,
    "R22": r22_for_enumerate,
    "R27": r27_for_vec,
    "R30": r30_for_map,
    "R32": r32_for_into_iter_rev,
    "R35": r35_unwrap_or_else,
    "R36": r36_for_chars,
    "R37": r37_ref_pattern,
    "R39": r39_any_loop,
    "R32": r32_for_into_iter_rev,
    "R35": r35_unwrap_or_else,
    "R36": r36_for_chars,
    "R37": r37_ref_pattern,
    "R39": r39_any_loop,
    "R40": r40_and_then,
    "R41": r41_map_collect,
    "R43": r43_vec_literal,
    "R44": r44_guard_continue,
    "R45": r45_ok_or_else,
    "R24": r24_call_shim,
}

# --------------------------------------------------------------------------------------------
# extraction of one function


def clause(kw, text):
    text = (text or "").strip()
    if not text:
        return ""
    text = text.rstrip(",")
    return f"\n    {kw}\n        {text},"


def apply_at_anchors(src, item, ed, spec):
    """ghost hints before/after the k-th return / continue / break / call / let ... of `item` (within its scope)"""
    for at in spec.get("at", []):
        kind, _, ordn = at["anchor"].partition(":")
        sel = at.get("select")
        if kind in ("return", "continue", "break"):
            c = nodes_of(item, kind)
        elif kind == "call":
            c = [n for n in nodes_of(item, "call") if n["func"] == sel]
        elif kind == "methodcall":
            c = [n for n in nodes_of(item, "methodcall") if (re.fullmatch(at["select_matches"], n["method"]) if at.get("select_matches") else n["method"] == sel) and (at.get("recv") is None or n["receiver_text"] == at["recv"].replace(" ", ""))]
        elif kind == "binary":
            c = [n for n in nodes_of(item, "binary") if n["op"] == sel]
        elif kind == "let":
            c = [n for n in nodes_of(item, "let") if n["pat_text"] == sel]
        elif kind == "assign":
            c = [n for n in nodes_of(item, "assign") if n["left_text"] == sel]
        elif kind == "if":
            c = [n for n in nodes_of(item, "if") if sel is None or sel.replace(" ", "") in src.text(*n["cond"]).replace(" ", "").replace("\n", "")]
        elif kind == "match":
            c = nodes_of(item, "match")
        elif kind == "arm":
            c = [n for n in nodes_of(item, "arm") if sel is None or n["pat_text"] == sel.replace(" ", "")]
        elif kind == "exits":
            # an obligation on every SUCCESSFUL exit of the function, wherever the exits are: before each `return Ok(..)`
            # and before the tail expression if it is `Ok(..)`; `?` and `return Err(..)` are the failing exits.  An exit
            # that cannot be told apart (`return res;`, a call as tail) loses the anchor.
            txt = at["text"].strip()
            outs = []
            for rn in nodes_of(item, "return"):
                if any(an["kind"] == "closure" for an in ancestors(item, rn)):
                    continue
                t = re.sub(r"\s+", "", src.text(*rn["range"]))
                if t.startswith("returnOk("):
                    outs.append(rn["range"])
                elif not t.startswith("returnErr("):
                    raise LostAnchor(f"exit `{t[:40]}` of {spec['path']} is neither Ok(..) nor Err(..)")
            if item.get("stmts"):
                last = item["stmts"][-1]
                t = re.sub(r"\s+", "", src.text(*last))
                if t.startswith("Ok("):
                    outs.append(last)
                elif not (t.startswith("return") or t.startswith("Err(")):
                    raise LostAnchor(f"tail `{t[:40]}` of {spec['path']} is neither Ok(..) nor Err(..)")
            if not outs:
                raise LostAnchor(f"no successful exit found in {spec['path']}")
            for rg in outs:
                par_arm = [a for a in nodes_of(item, "arm") if not a["body_is_block"] and list(a["body"]) == list(rg)]
                if par_arm:
                    ed.insert(rg[0], "{ " + txt + " ", "ghost")
                    ed.insert(rg[1], " }", "ghost")
                else:
                    ed.insert(rg[0], txt + "\n", "ghost")
            continue
        elif kind == "tail":
            # before the function's tail expression (its last top-level statement)
            if not item.get("stmts"):
                raise LostAnchor(f"tail expression of {spec['path']}")
            ed.insert(item["stmts"][-1][0], at["text"].strip() + "\n", "ghost")
            continue
        else:
            raise Unsupported(f"anchor kind {kind}")
        if at.get("contains"):
            # the candidate is named by what it says, not by where it stands
            want = at["contains"].replace(" ", "")
            c = [n for n in c if want in re.sub(r"\s+", "", src.text(*n["range"]))]
        k = int(ordn or 0)
        if k >= len(c):
            if at.get("optional"):
                # a hint ABOUT that statement: where the statement is not there, there is nothing to say
                continue
            raise LostAnchor(f"anchor {at['anchor']} {sel or ''} of {spec['path']}")
        n = c[k]
        pos_kind = at.get("pos", "before")
        txt = at["text"].strip()
        if pos_kind in ("before_stmt", "after_stmt"):
            # the statement (of the innermost block) the node is part of
            blks = [b for b in nodes_of(item, "stmts_block") if b["range"][0] <= n["range"][0] and n["range"][1] <= b["range"][1]]
            st = None
            if blks:
                b = min(blks, key=lambda b: b["range"][1] - b["range"][0])
                st = next((x for x in b["stmts"] if x[0] <= n["range"][0] and n["range"][1] <= x[1]), None)
            if st is None and item.get("stmts"):
                # the function's own body (its statements are recorded on the item)
                st = next((x for x in item["stmts"] if x[0] <= n["range"][0] and n["range"][1] <= x[1]), None)
            arms = [a for a in nodes_of(item, "arm") if not a["body_is_block"] and a["body"][0] <= n["range"][0] and n["range"][1] <= a["body"][1]]
            if arms:
                a = min(arms, key=lambda a: a["body"][1] - a["body"][0])
                if st is None or (st[0] <= a["body"][0] and a["body"][1] <= st[1]):
                    # the node is (part of) a bare arm body: that expression is "its statement"
                    if pos_kind != "before_stmt":
                        raise Unsupported("after-anchor on a bare arm body")
                    ed.insert(a["body"][0], "{ " + txt + " ", "ghost")
                    ed.insert(a["body"][1], " }", "ghost")
                    continue
            if st is not None:
                if pos_kind == "before_stmt":
                    ed.insert(st[0], txt + "\n", "ghost")
                else:
                    e = st[1]
                    if src.data[e:e + 1] == b";":
                        e += 1
                    ed.insert(e, "\n" + txt + "\n", "ghost")
                continue
            raise LostAnchor(f"statement holding anchor {at['anchor']} {sel or ''} of {spec['path']}")
        if kind == "arm":
            # hint at the start of the arm body
            if n["body_is_block"]:
                ed.insert(n["body"][0] + 1, "\n" + txt + "\n", "ghost")
            else:
                ed.insert(n["body"][0], "{ " + txt + " ", "ghost")
                ed.insert(n["body"][1], " }", "ghost")
            continue
        if kind in ("if", "match") and pos_kind == "then_start":
            ed.insert(n["then"][0] + 1, "\n" + txt + "\n", "ghost")
            continue
        if kind == "if" and pos_kind == "then_end":
            ed.insert(n["then"][1] - 1, "\n" + txt + "\n", "ghost")
            continue
        if kind == "if" and pos_kind == "else_end":
            if "else" not in n or src.data[n["else"][1] - 1:n["else"][1]] != b"}":
                raise LostAnchor(f"else block of if `{sel}` in {spec['path']}")
            ed.insert(n["else"][1] - 1, "\n" + txt + "\n", "ghost")
            continue
        if kind == "if" and pos_kind == "else_start":
            if "else" not in n or src.data[n["else"][0]:n["else"][0] + 1] != b"{":
                raise LostAnchor(f"else block of if `{sel}` in {spec['path']}")
            ed.insert(n["else"][0] + 1, "\n" + txt + "\n", "ghost")
            continue
        # statement-level position: walk up to the enclosing statement-like node
        target = n
        if kind in ("call", "methodcall"):
            stmt = None
            for an in ancestors(item, n):
                if an["kind"] in ("let", "assign"):
                    stmt = an
                    break
                if an["kind"] == "try" and an["inner"][1] <= an["range"][1] and an["range"][0] <= n["range"][0]:
                    stmt = an  # `call(..)?` used as a statement: keep climbing for a let/assign
                    continue
                if an["kind"] in ("block", "loop", "arm", "closure", "if", "match"):
                    break
            if stmt is not None:
                target = stmt
        par = item["nodes"][target["parent"]] if target["parent"] >= 0 else None
        if par is not None and par["kind"] == "arm" and not par["body_is_block"] and par["body"] == target["range"]:
            if pos_kind == "before":
                ed.insert(target["range"][0], "{ " + txt + " ", "ghost")
                ed.insert(target["range"][1], " }", "ghost")
            else:
                raise Unsupported("after-anchor on a bare arm body")
        elif pos_kind == "before":
            ed.insert(target["range"][0], txt + "\n", "ghost")
        else:
            # after: past the statement's semicolon if there is one
            e = target["range"][1]
            if src.data[e:e + 1] == b";":
                e += 1
            ed.insert(e, "\n" + txt + "\n", "ghost")



def extract_fn(src, spec, unit_rules):
    """returns dict(text=..., name=..., counts=..., src_range=..., hash=...)"""
    item = src.find("fn", spec["path"])
    if "block" not in item:
        raise LostAnchor(f"fn `{spec['path']}` has no body")
    ed = Edits()
    a, b = item["start"], item["range"][1]

    # attributes inside the item: dropped (R0); a cfg attribute inside a body would change
    # meaning, so it is refused (functions are taken from the compiler-expanded source, where
    # cfg has already been resolved)
    for (s, e) in src.attrs:
        if a <= s and e <= b:
            t = src.text(s, e)
            if t.startswith("#[cfg") or t.startswith("#![cfg"):
                raise Unsupported(f"cfg attribute inside {spec['path']}")
            ed.replace(s, e, "", "R0")

    # nested fn items are lifted out (R23): removed from the enclosing text
    for nf in nested_fn_ranges(src, item):
        ed.replace(nf["range"][0], nf["range"][1], "", "R23", subsume=True)
        ed.count("R23")

    rules = list(unit_rules) + list(spec.get("rewrites", []))
    decl_only = bool(spec.get("vx_decl_only"))
    if decl_only:
        # the function could not be extracted (a lost anchor, an unsupported construct): what remains of it is its
        # DECLARATION - signature and contract, body dropped - so that its callers in the unit are still judged
        # against the contract; the obligation itself is reported undecided by the caller of extract_fn
        ed = Edits()
        blk0 = item["block"]
        ed.replace(blk0[0], blk0[1], "{ unimplemented!() }", "decl", subsume=True)
        spec = {k: v for k, v in spec.items() if k not in ("loop", "closure", "at", "body_start", "body_end", "shims", "let_types", "try_sites", "try_all", "str_eq", "for_map", "for_rev", "for_chars", "map_collect")}
        rules = [r for r in rules if r in ("R9", "R25")]
    for rname in rules:
        if rname in ("R9", "R15", "R16", "R19", "R23"):
            continue
        if rname not in RULES:
            raise Unsupported(f"unknown rule {rname}")
        if decl_only and rname != "R25":
            continue
        RULES[rname](src, item, ed, spec)
    if "shims" in spec and "R24" not in rules:
        r24_call_shim(src, item, ed, spec)
    if "let_types" in spec:
        r28_let_type(src, item, ed, spec)
    if "iter_params" in spec and not decl_only:
        r29_iter_param_to_slice(src, item, ed, spec)
    if "instantiate" in spec:
        r33_instantiate_generics(src, item, ed, spec)
        if spec["instantiate"].get("ret") and "ret" in item:
            # the return type at the instance (`Result<V::Value, Self::Error>` names associated types of what was dropped)
            ed.replace(item["ret"][0], item["ret"][1], spec["instantiate"]["ret"], "R33")
    if "R9" in rules:
        r9_visibility(src, item, ed, spec)

    # ---- contract splicing (ghost only) -------------------------------------------------
    blk = item["block"]
    retname = spec.get("ret")
    if retname:
        if "ret" in item:
            r0, r1 = item["ret"]
            ed.insert(r0, f"({retname}: ", "ghost")
            ed.insert(r1, ")", "ghost")
        else:
            ed.insert(item["paren"][1], f" -> ({retname}: ())", "ghost")
    if spec.get("ghost_params"):
        has_inputs = len(item["inputs"]) > 0
        ed.insert(item["paren"][1] - 1, (", " if has_inputs else "") + spec["ghost_params"], "ghost")
    for pname, newty in spec.get("retype_params", {}).items():
        ps = [p for p in item["inputs"] if not p.get("self") and p.get("pat") in (pname, "mut" + pname)]
        if not ps:
            raise LostAnchor(f"parameter `{pname}` of {spec['path']}")
        ed.replace(ps[0]["ty"][0], ps[0]["ty"][1], newty, "R7")
        ed.count("R7")
    contract = (
        clause("requires", spec.get("requires"))
        + clause("ensures", spec.get("ensures"))
        + clause("decreases", spec.get("decreases"))
    )
    if spec.get("no_unwind"):
        contract += "\n    no_unwind"
    if contract:
        ed.insert(blk[0], contract + "\n", "ghost")
    if spec.get("body_start"):
        ed.insert(blk[0] + 1, "\n" + spec["body_start"].strip() + "\n", "ghost")
    if spec.get("body_end"):
        ed.insert(blk[1] - 1, "\n" + spec["body_end"].strip() + "\n", "ghost")

    loops = nodes_of(item, "loop")
    vx_loops_done = []
    vx_clos_done = []
    for ls in spec.get("loop", []):
        k = ls.get("n")
        if "over" in ls:
            n = pick_loop(src, loops, ls, spec["path"])
            if n is None:
                continue
        else:
            if k >= len(loops):
                raise LostAnchor(f"loop #{k} of {spec['path']} (function has {len(loops)} loops)")
            n = loops[k]
        vx_loops_done.append(n)
        ls = loop_vars(ls, n, src)
        if ls.get("kind") and ls["kind"] != n["loop_kind"]:
            raise LostAnchor(f"loop #{k} of {spec['path']} is a `{n['loop_kind']}`, sidecar expects `{ls['kind']}`")
        if ls.get("before"):
            # insert before the statement holding the loop; loops used as statements start there
            ed.insert(n["range"][0], ls["before"].strip() + "\n", "ghost")
        if ls.get("iter") and n["loop_kind"] == "for":
            ed.insert(n["expr"][0], ls["iter"] + ": ", "ghost")
        inv = clause("invariant_except_break", ls.get("invariant_except_break")) + clause("invariant", ls.get("invariant")) + clause("ensures", ls.get("ensures")) + clause("decreases", ls.get("decreases"))
        if inv:
            ed.insert(n["body"][0], inv + "\n", "ghost")
        if ls.get("body_start"):
            ed.insert(n["body"][0] + 1, "\n" + ls["body_start"].strip() + "\n", "ghost")
        if ls.get("body_end"):
            ed.insert(n["body"][1] - 1, "\n" + ls["body_end"].strip() + "\n", "ghost")
        if ls.get("after"):
            ed.insert(n["range"][1], "\n" + ls["after"].strip() + "\n", "ghost")

    closures = nodes_of(item, "closure")
    for cs in spec.get("closure", []):
        k = cs["n"]
        if k >= len(closures):
            raise LostAnchor(f"closure #{k} of {spec['path']}")
        n = closures[k]
        vx_clos_done.append(n)
        if not n["body_is_block"]:
            raise Unsupported(f"closure #{k} of {spec['path']} has an expression body")
        if cs.get("ret"):
            if "ret" not in n:
                raise Unsupported(f"closure #{k} of {spec['path']} has no declared return type")
            ed.insert(n["ret"][0], f"({cs['ret']}: ", "ghost")
            ed.insert(n["ret"][1], ")", "ghost")
        c = clause("requires", cs.get("requires")) + clause("ensures", cs.get("ensures"))
        if c:
            ed.insert(n["body"][0], c + "\n", "ghost")

    apply_at_anchors(src, item, ed, spec)

    # R19: trait-impl method lifted to a free function
    free = spec.get("as_free")
    if free:
        idr = item["ident"]
        ed.replace(idr[0], idr[1], free, "R19")
        ed.count("R19")

    text = ed.apply(src, a, b)
    if free:
        text = lift_self(text, spec)
    if spec.get("verifier_attrs"):
        text = "\n".join(f"#[verifier::{x}]" for x in spec["verifier_attrs"]) + "\n" + text
    if decl_only:
        text = "#[verifier::external_body]\n" + text
    raw = src.text(a, b)
    return {
        "item": item,
        "text": text,
        "raw": raw,
        "counts": ed.counts,
        "hash": hashlib.sha256(norm_tokens(raw).encode()).hexdigest()[:16],
        "unannotated": [] if decl_only else unannotated(src, item, ed, spec, vx_loops_done, vx_clos_done),
    }


def extract_arm(src, spec, unit_rules):
    """R16 arm extraction: the block of one match arm of a big function becomes a function.
    spec: path (the enclosing fn), arm (pattern text), name, params, requires/ensures ...
    What is dropped: the enclosing loop/match and the `ip += 1` that follows, so arm contracts say
    nothing about control transfer; arms containing `continue`/`break` or assigning `ip` are refused."""
    fn = src.find("fn", spec["path"])
    want = spec["arm"].replace(" ", "")
    arms = [n for n in fn["nodes"] if n["kind"] == "arm" and n["pat_text"] == want]
    if len(arms) != 1:
        raise LostAnchor(f"arm `{spec['arm']}` of {spec['path']} ({len(arms)} matches)")
    arm = arms[0]
    body = arm["body"]
    item = dict(fn)
    item["scope"] = tuple(body)
    ed = Edits()
    control = bool(spec.get("control"))
    # control transfer (R16b): `ip = E; continue;` of the dispatch loop becomes
    # `return Ok(VxNext::Jump(E));`, and falling out of the arm `Ok(VxNext::Next)` — the function's
    # result then says exactly what the enclosing loop does next (`ip = E` vs `ip += 1`)
    scoped = nodes_of(item)
    jumps = []
    for n in scoped:
        if n["kind"] == "assign" and n["left_text"] == "ip":
            nxt = [m for m in scoped if m["kind"] == "continue" and m["range"][0] >= n["range"][1]]
            nxt.sort(key=lambda m: m["range"][0])
            between = src.text(n["range"][1], nxt[0]["range"][0]).strip() if nxt else None
            if not nxt or between != ";":
                raise Unsupported(f"arm `{spec['arm']}`: `ip = ..` not directly followed by `continue`")
            jumps.append((n, nxt[0]))
    used_cont = {id(c) for _, c in jumps}
    for n in scoped:
        if n["kind"] in ("continue", "break") and id(n) not in used_cont:
            ok = False
            for an in ancestors(item, n):
                if an["kind"] == "loop" and inside(an, body):
                    ok = True
                    break
            if not ok:
                raise Unsupported(f"arm `{spec['arm']}` transfers control (continue/break)")
    if jumps and not control:
        raise Unsupported(f"arm `{spec['arm']}` assigns ip (declare `control = true`)")
    for a_, c_ in jumps:
        e = c_["range"][1]
        if src.data[e:e + 1] == b";":
            e += 1
        ed.replace(a_["range"][0], e, f"return Ok(VxNext::Jump({src.text(*a_['right'])}));", "R16", subsume=True)
    for (s0, e0) in src.attrs:
        if body[0] <= s0 and e0 <= body[1]:
            t = src.text(s0, e0)
            if t.startswith("#[cfg"):
                raise Unsupported("cfg attribute inside arm")
            ed.replace(s0, e0, "", "R0")
    rules = list(unit_rules) + list(spec.get("rewrites", []))
    for rname in rules:
        if rname in ("R9", "R15", "R16", "R19", "R23"):
            continue
        RULES[rname](src, item, ed, spec)
    if "shims" in spec and "R24" not in rules:
        r24_call_shim(src, item, ed, spec)
    apply_at_anchors(src, item, ed, spec)
    loops = nodes_of(item, "loop")
    vx_loops_done = []
    for ls in spec.get("loop", []):
        k = ls.get("n")
        if "over" in ls:
            n = pick_loop(src, loops, ls, spec["path"])
            if n is None:
                continue
        else:
            if k >= len(loops):
                raise LostAnchor(f"loop #{k} of arm {spec['arm']}")
            n = loops[k]
        vx_loops_done.append(n)
        ls = loop_vars(ls, n, src)
        if ls.get("before"):
            ed.insert(n["range"][0], ls["before"].strip() + "\n", "ghost")
        if ls.get("iter") and n["loop_kind"] == "for":
            ed.insert(n["expr"][0], ls["iter"] + ": ", "ghost")
        inv = clause("invariant_except_break", ls.get("invariant_except_break")) + clause("invariant", ls.get("invariant")) + clause("ensures", ls.get("ensures")) + clause("decreases", ls.get("decreases"))
        if inv:
            ed.insert(n["body"][0], inv + "\n", "ghost")
        if ls.get("body_start"):
            ed.insert(n["body"][0] + 1, "\n" + ls["body_start"].strip() + "\n", "ghost")
        if ls.get("body_end"):
            ed.insert(n["body"][1] - 1, "\n" + ls["body_end"].strip() + "\n", "ghost")
        if ls.get("after"):
            ed.insert(n["range"][1], "\n" + ls["after"].strip() + "\n", "ghost")
    ed.count("R16")
    if arm["body_is_block"]:
        inner = ed.apply(src, body[0] + 1, body[1] - 1)
    else:
        inner = ed.apply(src, body[0], body[1]) + ";"
    contract = clause("requires", spec.get("requires")) + clause("ensures", spec.get("ensures"))
    ret = spec.get("ret", "r")
    rty = "TeraResult<VxNext>" if control else "TeraResult<()>"
    tail = "    Ok(VxNext::Next)\n}\n" if control else "    Ok(())\n}\n"
    if spec.get("value_arm"):
        # the match is the function's result expression: the arm's value is what the function returns
        rty = spec["ret_ty"]
        tail = "}\n"
        if inner.rstrip().endswith(";") and not arm["body_is_block"]:
            inner = inner.rstrip()[:-1]
    text = (
        f"pub fn {spec['name']}{spec.get('generics', '')}({spec['params']}) -> ({ret}: {rty})" + contract + "\n{\n"
        + (spec.get("body_start", "").strip() + "\n" if spec.get("body_start") else "")
        + inner + "\n"
        + (spec.get("body_end", "").strip() + "\n" if spec.get("body_end") else "")
        + tail
    )
    raw = src.text(body[0], body[1])
    return {
        "item": {"name": spec["name"], "range": list(body)},
        "text": text,
        "raw": raw,
        "counts": ed.counts,
        "hash": hashlib.sha256(norm_tokens(raw).encode()).hexdigest()[:16],
        "unannotated": unannotated(src, item, ed, spec, vx_loops_done, []),
    }


def extract_closure(src, spec, unit_rules):
    """R31 closure conversion: the body of the k-th immediately-invoked closure `(|| -> T { B })()` of a
    function becomes a method `fn NAME(PARAMS) -> T { B }` whose parameters are the closure's captures
    (named in the sidecar; a missing or mistyped capture does not compile), and the call site becomes a
    call of that method (an `iife` shim in the enclosing function's entry)."""
    fn = src.find("fn", spec["path"])
    k = spec.get("n", 0)
    cl = None
    if "region" in spec:
        # R34 region extraction: a statement-level part of a long function (its k-th loop statement, or the
        # then-block of the `if` whose condition mentions a text) becomes a function of the variables it
        # uses (named and typed in the sidecar: a missing or mistyped one does not compile).  What the
        # contract then says is about this part alone; how the parts are glued together is read, not proved.
        rg = spec["region"]
        if rg["kind"] == "loop":
            top = [n for n in fn["nodes"] if n["kind"] == "loop"]
            if rg.get("n", 0) >= len(top):
                raise LostAnchor(f"loop #{rg.get('n', 0)} of {spec['path']}")
            ln = top[rg.get("n", 0)]
            body, is_block = list(ln["range"]), False
        elif rg["kind"] == "if":
            c = [n for n in fn["nodes"] if n["kind"] == "if" and rg["cond_contains"].replace(" ", "") in src.text(*n["cond"]).replace(" ", "").replace("\n", "")]
            if len(c) <= rg.get("n", 0):
                raise LostAnchor(f"if `{rg['cond_contains']}` of {spec['path']}")
            body, is_block = list(c[rg.get("n", 0)]["then"]), True
        elif rg["kind"] == "if_stmt":
            # the WHOLE `if` statement (condition included) whose condition mentions a text
            if rg.get("cond_matches"):
                c = [n for n in fn["nodes"] if n["kind"] == "if" and re.fullmatch(rg["cond_matches"], re.sub(r"\s+", "", src.text(*n["cond"])))]
            else:
                c = [n for n in fn["nodes"] if n["kind"] == "if" and rg["cond_contains"].replace(" ", "") in src.text(*n["cond"]).replace(" ", "").replace("\n", "")]
            if len(c) <= rg.get("n", 0):
                raise LostAnchor(f"if `{rg.get('cond_matches') or rg.get('cond_contains')}` of {spec['path']}")
            body, is_block = list(c[rg.get("n", 0)]["range"]), False
        elif rg["kind"] == "block_stmts":
            # the statements of the innermost block one of whose OWN statements matches a regex (over its
            # whitespace-free text), from the first such statement to the end of that block
            cands = []
            for bn in fn["nodes"]:
                if bn["kind"] != "stmts_block":
                    continue
                st = bn.get("stmts") or []
                hit = [i for i, r_ in enumerate(st) if re.match(rg["from_matches"], re.sub(r"\s+", "", src.text(*r_)))]
                if hit:
                    cands.append((bn["range"][1] - bn["range"][0], st, hit[0]))
            if not cands:
                raise LostAnchor(f"statement matching `{rg['from_matches']}` of {spec['path']}")
            _, st, i0 = (max if rg.get("pick") == "outermost" else min)(cands, key=lambda c: c[0])
            e = st[-1][1]
            if src.data[e:e + 1] == b";":
                e += 1
            body, is_block = [st[i0][0], e], False
        elif rg["kind"] == "match":
            # the `match` expression whose scrutinee mentions a text: its value is the function's result
            c = [n for n in fn["nodes"] if n["kind"] == "match" and rg["scrutinee_contains"].replace(" ", "") in n["scrutinee_text"].replace(" ", "")]
            if len(c) <= rg.get("n", 0):
                raise LostAnchor(f"match on `{rg['scrutinee_contains']}` of {spec['path']}")
            body, is_block = list(c[rg.get("n", 0)]["range"]), False
        elif rg["kind"] == "stmts":
            # the top-level statements of the function from the first one that mentions a text to the last
            st = fn.get("stmts") or []
            want = rg["from_contains"].replace(" ", "")
            first = [i for i, r_ in enumerate(st) if want in re.sub(r"\s+", "", src.text(*r_))]
            if not first:
                raise LostAnchor(f"statement mentioning `{rg['from_contains']}` of {spec['path']}")
            last = len(st) - 1
            if rg.get("to_contains"):
                want2 = rg["to_contains"].replace(" ", "")
                lasts = [i for i, r_ in enumerate(st) if i >= first[0] and want2 in re.sub(r"\s+", "", src.text(*r_))]
                if not lasts:
                    raise LostAnchor(f"statement mentioning `{rg['to_contains']}` of {spec['path']}")
                last = lasts[0]
            e = st[last][1]
            if src.data[e:e + 1] == b";":
                e += 1
            body, is_block = [st[first[0]][0], e], False
        else:
            raise Unsupported(f"region kind {rg['kind']}")
        cl = {"inputs": [], "body": body, "body_is_block": is_block}
    elif "closure_contains" in spec:
        # the closure whose text mentions this (whitespace-free containment; the innermost such closure)
        want = spec["closure_contains"].replace(" ", "")
        allc = [n for n in fn["nodes"] if n["kind"] == "closure" and want in re.sub(r"\s+", "", src.text(*n["range"]))]
        if not allc:
            raise LostAnchor(f"closure mentioning `{spec['closure_contains']}` of {spec['path']}")
        cl = min(allc, key=lambda n: n["range"][1] - n["range"][0])
    elif "closure_n" in spec:
        # the k-th closure of the function, wherever it stands (e.g. the argument of `iter::from_fn`): an
        # FnMut closure run once per call with mutable access to what it captured
        allc = [n for n in fn["nodes"] if n["kind"] == "closure"]
        if spec["closure_n"] >= len(allc):
            raise LostAnchor(f"closure #{spec['closure_n']} of {spec['path']}")
        cl = allc[spec["closure_n"]]
    else:
        calls = [n for n in fn["nodes"] if n["kind"] == "call" and (n["func"].startswith("(|") or n["func"].startswith("(move|"))]
        if k >= len(calls):
            raise LostAnchor(f"immediately-invoked closure #{k} of {spec['path']}")
        call = calls[k]
        clos = [n for n in fn["nodes"] if n["kind"] == "closure" and call["func_range"][0] <= n["range"][0] and n["range"][1] <= call["func_range"][1]]
        if not clos or not clos[0]["body_is_block"]:
            raise Unsupported("R31 expects a block-bodied closure")
        cl = clos[0]
    if cl["inputs"] and not spec.get("with_inputs"):
        # a closure WITH parameters: they become parameters of the function like the captures (the sidecar's
        # parameter list names and types all of them; `with_inputs = true` acknowledges it)
        raise Unsupported("R31 expects a closure without parameters")
    body = cl["body"]
    is_block = cl["body_is_block"]
    item = dict(fn)
    item["scope"] = tuple(body)
    ed = Edits()
    for n in nodes_of(item):
        if n["kind"] in ("continue", "break"):
            ok = any(an["kind"] == "loop" and inside(an, body) for an in ancestors(item, n))
            if not ok:
                if spec.get("control") == "flow" and spec.get("loop_exits"):
                    # `break` / `continue` of the ENCLOSING loop, seen from inside the region: the region's result says so
                    ed.replace(n["range"][0], n["range"][1], "return VxFlow::" + ("Break" if n["kind"] == "break" else "Continue"), "R34")
                    continue
                raise Unsupported("R31: closure body transfers control of an outer loop")
    for (s0, e0) in src.attrs:
        if body[0] <= s0 and e0 <= body[1]:
            ed.replace(s0, e0, "", "R0")
    rules = list(unit_rules) + list(spec.get("rewrites", []))
    for rname in rules:
        if rname in ("R9", "R15", "R16", "R19", "R23"):
            continue
        RULES[rname](src, item, ed, spec)
    if "shims" in spec and "R24" not in rules:
        r24_call_shim(src, item, ed, spec)
    loops = nodes_of(item, "loop")
    vx_loops_done = []
    for ls in spec.get("loop", []):
        kk = ls.get("n")
        if "over" in ls:
            n = pick_loop(src, loops, ls, spec["path"])
            if n is None:
                continue
        else:
            if kk >= len(loops):
                raise LostAnchor(f"loop #{kk} of closure #{k} of {spec['path']}")
            n = loops[kk]
        vx_loops_done.append(n)
        ls = loop_vars(ls, n, src)
        if ls.get("before"):
            ed.insert(n["range"][0], ls["before"].strip() + "\n", "ghost")
        if ls.get("iter") and n["loop_kind"] == "for":
            ed.insert(n["expr"][0], ls["iter"] + ": ", "ghost")
        inv = clause("invariant_except_break", ls.get("invariant_except_break")) + clause("invariant", ls.get("invariant")) + clause("ensures", ls.get("ensures")) + clause("decreases", ls.get("decreases"))
        if inv:
            ed.insert(n["body"][0], inv + "\n", "ghost")
        if ls.get("body_start"):
            ed.insert(n["body"][0] + 1, "\n" + ls["body_start"].strip() + "\n", "ghost")
        if ls.get("body_end"):
            ed.insert(n["body"][1] - 1, "\n" + ls["body_end"].strip() + "\n", "ghost")
        if ls.get("after"):
            ed.insert(n["range"][1], "\n" + ls["after"].strip() + "\n", "ghost")
    apply_at_anchors(src, item, ed, spec)
    ed.count("R34" if "region" in spec else "R31")
    if spec.get("control") == "flow":
        # `return E` of the enclosing function, seen from inside the region: the region's result says so
        for n in nodes_of(item, "return"):
            if any(an["kind"] == "closure" and inside(an, body) for an in ancestors(item, n)):
                continue
            if "value" in n:
                ed.insert(n["value"][0], "VxFlow::Return(", "R34")
                ed.insert(n["value"][1], ")", "R34")
            else:
                ed.insert(n["range"][1], " VxFlow::Return(())", "R34")
    inner = ed.apply(src, body[0] + 1, body[1] - 1) if is_block else ed.apply(src, body[0], body[1])
    if spec.get("control") == "flow":
        inner = inner.rstrip()
        inner += ("" if inner.endswith(";") or inner.endswith("}") else ";") + "\nVxFlow::Next"
    elif spec.get("tail"):
        # the region falls through to the rest of the function: as a function it ends with this value
        inner = inner.rstrip()
        inner += ("" if inner.endswith(";") or inner.endswith("}") else ";") + "\n" + spec["tail"]
    for v in spec.get("deref", []):
        # a captured variable that the method receives as `&mut T`: every use becomes `(*v)`
        # every use of the variable (not a field `.v`, but `..v` of a range is a use)
        inner = re.sub(r"(?<!\w)(?<!(?<!\.)\.)" + re.escape(v) + r"\b", f"(*{v})", inner)
    contract = clause("requires", spec.get("requires")) + clause("ensures", spec.get("ensures"))
    ret = spec.get("ret", "r")
    text = (
        f"pub fn {spec['name']}{spec.get('generics', '')}({spec['params']}) -> ({ret}: {spec['ret_ty']})" + contract + "\n{\n"
        + (param_vars(spec.get("param_let", ""), cl, src).strip() + "\n" if spec.get("param_let") else "")
        + (spec.get("body_start", "").strip() + "\n" if spec.get("body_start") else "")
        + inner + "\n}\n"
    )
    raw = src.text(body[0], body[1])
    return {"item": {"name": spec["name"], "range": list(body)}, "text": text, "raw": raw, "counts": ed.counts, "hash": hashlib.sha256(norm_tokens(raw).encode()).hexdigest()[:16], "unannotated": unannotated(src, item, ed, spec, vx_loops_done, [])}


def lift_self(text, spec):
    """R19: `self` -> `self_`, `Self` -> the type, receiver -> typed parameter, sibling trait
    calls renamed (spec['self_ty'], spec['siblings'] = {".partial_cmp(": "value_partial_cmp"})"""
    ty = spec["self_ty"]
    text = re.sub(r"\(\s*&\s*self\b", f"(self_: &{ty}", text, count=1)
    text = re.sub(r"\(\s*self\b", f"(self_: {ty}", text, count=1)
    text = re.sub(r"\bself\b", "self_", text)
    text = re.sub(r"\bSelf\b", ty, text)
    return text


def norm_tokens(s):
    return re.sub(r"\s+", " ", s).strip()


def impl_header(src, item, rules):
    enc = src.enclosing_impl(item)
    if enc is None:
        return None
    a = enc["start"]
    blk = enc["block"]
    hdr = src.text(a, blk[0]).strip()
    return hdr


def extract_type(src, spec, unit_rules):
    item = src.find_type(spec["path"])
    ed = Edits()
    a, b = item["start"], item["range"][1]
    for (s, e) in src.attrs:
        if a <= s and e <= b:
            ed.replace(s, e, "", "R0")
    if "R9" in unit_rules:
        r9_visibility(src, item, ed, spec)
        if item["kind"] == "struct":
            for f in item.get("fields", []):
                if f["name"] in spec.get("collapse", []):
                    continue
                v = f["vis"]
                if v[1] > v[0]:
                    ed.replace(v[0], v[1], "pub", "R9")
                elif f["name"].isidentifier() or True:
                    # position after the field's attributes
                    pos = f["range"][0]
                    for (s, e) in src.attrs:
                        if s >= f["range"][0] and e <= f["range"][1] and s == pos:
                            pos = e
                    ed.insert(pos, " pub ", "R9")
    # R15 projection: fields named in `collapse` are replaced by one opaque field
    collapse = spec.get("collapse", [])
    if collapse:
        if item["kind"] != "struct":
            raise Unsupported("R15 on a non-struct")
        names = {f["name"] for f in item["fields"]}
        for c in collapse:
            if c not in names:
                raise LostAnchor(f"field `{c}` of {spec['path']}")
        hdr = src.text(item["start"], item["fields"][0]["range"][0]) if item["fields"] else ""
        mg = re.search(r"struct\s+\w+\s*<([^>]*)>", hdr)
        lts = [g.strip() for g in mg.group(1).split(",") if g.strip().startswith("'")] if mg else []
        phantom = "".join(f"pub vx_lt{i}: core::marker::PhantomData<&{lt} ()>, " for i, lt in enumerate(lts))
        first = True
        for f in item["fields"]:
            if f["name"] in collapse:
                e = f["range"][1]
                # swallow the trailing comma
                m = re.match(rb"\s*,", src.data[e:e + 16])
                if m:
                    e += m.end()
                ed.replace(f["range"][0], e, ("pub vx_opaque: VxOpaque, " + phantom) if first else "", "R15", subsume=True)
                first = False
        ed.count("R15")
    for fname, newty in spec.get("retype", {}).items():
        fs = [f for f in item.get("fields", []) if f["name"] == fname]
        if not fs:
            raise LostAnchor(f"field `{fname}` of {spec['path']}")
        ed.replace(fs[0]["ty"][0], fs[0]["ty"][1], newty, "R7")
        ed.count("R7")
    if item["kind"] == "static" and "R9" in unit_rules:
        st = item["static_tok"]
        ed.replace(st[0], st[1], "const", "R9")
        ty = item["ty"]
        tyt = src.text(*ty)
        if tyt.startswith("&") and not tyt.startswith("&'"):
            ed.insert(ty[0] + 1, "'static ", "R9")
    text = ed.apply(src, a, b)
    for tr in [x.strip() for x in spec.get("require_impl", "").split(",") if x.strip()]:
        name = spec["path"].split("::")[-1]
        mod = "::".join(spec["path"].split("::")[:-1])
        ip = (mod + "::" if mod else "") + f"<{name} as {tr}>"
        if not src.has_impl(ip):
            raise LostAnchor(f"impl {ip} (the sidecar's trusted declaration assumes the real type implements {tr})")
    d = spec.get("derive", "")
    if d:
        for tr in [x.strip() for x in d.split(",") if x.strip()]:
            name = spec["path"].split("::")[-1]
            mod = "::".join(spec["path"].split("::")[:-1])
            ip = (mod + "::" if mod else "") + f"<{name} as {tr}>"
            if not src.has_impl(ip):
                raise LostAnchor(f"derived impl {ip} (sidecar says the real type derives {tr})")
        text = f"#[derive({d})]\n" + text
    raw = src.text(a, b)
    return {"item": item, "text": text, "raw": raw, "counts": ed.counts, "hash": hashlib.sha256(norm_tokens(raw).encode()).hexdigest()[:16]}


def load_sidecar(path):
    with open(path, "rb") as f:
        return tomllib.load(f)
