"""Engine T: recursion-measure obligations (DESIGN 2.4).

From the macro-expanded source of the working tree: call graph between the functions of the
modules in scope (self-calls resolved exactly, other method calls by name unless the name is a
std method name), then: every function on a call cycle must be cut by a guard, carry a measure
proved elsewhere, or sit behind an exempt edge.  The remaining rank constraints
`rank(callee) < rank(caller)` are discharged by z3; functions that stay on a cycle are failed
obligations (named; no input exists by nature).
"""
import os
import subprocess
import sys
import tomllib

from vx import VERIF


def load_cfg():
    with open(os.path.join(VERIF, "contracts", "engine_t.toml"), "rb") as f:
        return tomllib.load(f)


def build_graph(src, cfg):
    mods = cfg["scope"]
    STD = set(cfg["std_names"])
    fns = [it for it in src.items if it["kind"] == "fn" and "::tests::" not in it["path"] and any(it["path"].startswith(m + "::") or it["path"].startswith(m) and it["path"].split("::")[0] == m for m in mods)]
    byname = {}
    for it in fns:
        byname.setdefault(it["name"], []).append(it["path"])
    edges = {}
    for it in fns:
        imp = it["path"].rsplit("::", 1)[0]
        for n in it["nodes"]:
            tgt = []
            if n["kind"] == "methodcall":
                m = n["method"]
                if n["receiver_text"] in ("self", "(*self)") and (imp + "::" + m) in byname.get(m, []):
                    tgt = [imp + "::" + m]
                elif m in byname and m not in STD:
                    tgt = byname[m]
            elif n["kind"] == "call":
                f = n["func"].split("::<")[0]
                last = f.split("::")[-1]
                if last in byname and last not in STD:
                    if "::" in f:
                        pre = f.rsplit("::", 1)[0].replace("Self", imp.split("::")[-1]).replace("crate::", "")
                        tgt = [p for p in byname[last] if p.rsplit("::", 1)[0].endswith(pre)]
                    else:
                        # bare name: a fn nested in this fn, or a free fn of the same module
                        tgt = [p for p in byname[last] if p.startswith(it["path"] + "::")] or [p for p in byname[last] if p.rsplit("::", 1)[0] == it["path"].rsplit("::", 1)[0]] or [p for p in byname[last] if p.rsplit("::", 1)[0] == imp.rsplit("::", 1)[0]]
            for t in tgt:
                edges.setdefault(it["path"], set()).add(t)
    return [it["path"] for it in fns], edges


def sccs(nodes, edges):
    sys.setrecursionlimit(100000)
    idx, low, st, on, out, c = {}, {}, [], set(), [], [0]

    def sc(v):
        idx[v] = low[v] = c[0]
        c[0] += 1
        st.append(v)
        on.add(v)
        for w in edges.get(v, ()):
            if w not in idx:
                sc(w)
                low[v] = min(low[v], low[w])
            elif w in on:
                low[v] = min(low[v], idx[w])
        if low[v] == idx[v]:
            comp = []
            while True:
                w = st.pop()
                on.discard(w)
                comp.append(w)
                if w == v:
                    break
            out.append(comp)

    for v in nodes:
        if v not in idx:
            sc(v)
    return out


def on_cycle(nodes, edges):
    r = set()
    for comp in sccs(nodes, edges):
        if len(comp) > 1 or comp[0] in edges.get(comp[0], ()):
            r.update(comp)
    return r


def z3_ranks(nodes, edges):
    """asks z3 for ranks with rank(callee) < rank(caller) on every edge; returns (sat?, output)"""
    ids = {n: i for i, n in enumerate(nodes)}
    lines = ["(set-option :produce-unsat-cores true)"]
    for n in nodes:
        lines.append(f"(declare-const r{ids[n]} Int)")
    k = 0
    names = {}
    for u, vs in edges.items():
        for v in vs:
            if u in ids and v in ids:
                nm = f"e{k}"
                names[nm] = (u, v)
                lines.append(f"(assert (! (< r{ids[v]} r{ids[u]}) :named {nm}))")
                k += 1
    lines.append("(check-sat)")
    lines.append("(get-unsat-core)")
    p = subprocess.run(["z3", "-in"], input="\n".join(lines).encode(), capture_output=True, timeout=120)
    out = p.stdout.decode()
    sat = out.strip().startswith("sat")
    core = []
    if not sat and "(" in out:
        for nm in out[out.index("(") + 1 : out.rindex(")")].split():
            if nm in names:
                core.append(names[nm])
    return sat, core, k


def run_for(prop, S, outdir):
    from driver import Result

    cfg = load_cfg()
    props = {p["id"]: p["prefixes"] for p in cfg["property"]}
    if prop != "ALL" and prop not in props:
        return [], []
    try:
        src = S("expanded")
    except Exception as e:
        return [Result("engine_t/*", "T", "undecided", f"expansion failed: {e}")], []
    nodes, edges = build_graph(src, cfg)
    exempt = {(e["from"], e["to"]) for e in cfg.get("exempt", [])}
    full = {u: {v for v in vs if (u, v) not in exempt} for u, vs in edges.items()}
    guards = {g["fn"] for g in cfg.get("guard", [])}
    measured = {m["fn"] for m in cfg.get("measure", [])}
    missing = [g for g in guards | measured if g not in nodes]
    results = []
    info = {"unit": "engine_t", "engine": "recursion measures (z3)", "cmd": "z3 -in  (rank constraints generated from the call graph of the expanded source)", "wall_s": 0.0, "smt_s": 0.0, "trusted": [], "functions": [], "assumptions": []}
    for e in cfg.get("exempt", []):
        info["assumptions"].append(f"engine T exempt edge {e['from']} -> {e['to']}: {e['why']}")
    info["assumptions"].append("engine T resolves method calls on receivers other than `self` by name; names in std_names are taken to be std methods")
    if missing:
        for g in missing:
            results.append(Result(f"engine_t/{g}", "T", "undecided", f"lost anchor: guard/measured function `{g}` not found", 0, {"unit": "engine_t", "props": [prop]}))
        return results, [info]
    cyc_full = on_cycle(nodes, full)
    reduced = {}
    for u, vs in full.items():
        if u in measured:
            vs = {v for v in vs if v != u}
        reduced[u] = {v for v in vs if v not in guards}
    fail = on_cycle(nodes, reduced)
    ok_nodes = [n for n in nodes if n not in fail]
    ok_edges = {u: {v for v in vs if v not in fail} for u, vs in reduced.items() if u not in fail}
    sat, core, nedges = z3_ranks(ok_nodes, ok_edges)
    # longest guard-free path (frames between two guard increments)
    for f in sorted(cyc_full):
        fprops = [pid for pid, pre in props.items() if any(f.startswith(x) for x in pre)]
        if prop != "ALL" and prop not in fprops:
            continue
        meta = {"unit": "engine_t", "props": fprops, "fn": f, "what": "every call cycle through this function passes a depth-counting guard or a proved measure"}
        ob = f"engine_t/{f}"
        if f in fail:
            cyc = sorted((u, v) for u in fail for v in reduced.get(u, ()) if v in fail and (u == f or v == f))
            import hashlib
            meta["sig"] = hashlib.sha256(";".join(f"{u}->{v}" for u, v in cyc).encode()).hexdigest()[:10]
            results.append(Result(ob, "T", "false", f"guard-free call cycle [sig {meta['sig']}]: " + "; ".join(f"{u} -> {v}" for u, v in cyc[:8]), 0, meta))
        elif not sat:
            results.append(Result(ob, "T", "undecided", "z3 did not confirm the rank assignment", 0, meta))
        else:
            results.append(Result(ob, "T", "verified", "", 0, meta))
        info["functions"].append(f)
    info["rank_constraints"] = nedges
    return results, [info]
