"""Engine T: recursion-measure obligations (DESIGN 2.4) — filled in below."""


def run_for(prop, S, outdir):
    return [], []
