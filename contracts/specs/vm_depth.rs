impl<'tera> VirtualMachine<'tera> {
    /// the depth invariant of every VM that runs
    pub open spec fn depth_ok(&self) -> bool { self.component_recursion_depth <= MAX_COMPONENT_RECURSION_DEPTH }
    #[verifier::external_body]
    pub fn interpret(&self, state: &mut State<'tera>, output: &mut Vec<u8>) -> (r: TeraResult<()>)
        requires self.depth_ok()
    { unimplemented!() }
}
