// (specification vocabulary is in the prelude)
