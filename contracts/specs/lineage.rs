/// what scanning the ancestors ps[j-1], ps[j-2], .., ps[0] (ps is root-first, so this is nearest-first)
/// appends for block `b`: every ancestor that defines `b` contributes its chunk; the scan stops after
/// the first contributed chunk that does not itself call super()
pub open spec fn walk_up(t: &Tera, ps: Seq<Name>, j: int, b: Name) -> Seq<Chunk>
    decreases j
{
    if j <= 0 { Seq::<Chunk>::empty() } else {
        let p = tpl_named(t, ps[j - 1]);
        if p.blocks.view_spec().dom().contains(b) {
            let c = p.blocks.view_spec()[b];
            if calls_super(c) { seq![c] + walk_up(t, ps, j - 1, b) } else { seq![c] }
        } else { walk_up(t, ps, j - 1, b) }
    }
}
pub open spec fn lineage_of(t: &Tera, own: Chunk, ps: Seq<Name>, b: Name) -> Seq<Chunk> {
    if calls_super(own) { seq![own] + walk_up(t, ps, ps.len() as int, b) } else { seq![own] }
}

// ---- inherited blocks: a template that does not define block b gets b from the nearest ancestor that does
/// scanning ps[j-1], ps[j-2], .., ps[0] (nearest first): the first own definition of b
pub open spec fn inh(own: Tbl, ps: Seq<Name>, j: int, b: Name) -> Option<Seq<Chunk>>
    decreases j
{
    if j <= 0 { None } else if own[ps[j - 1]].dom().contains(b) { Some(own[ps[j - 1]][b]) } else { inh(own, ps, j - 1, b) }
}
pub open spec fn final_spec(own: Tbl, pm: &HashMap<String, Vec<String>>, n: Name, b: Name) -> Option<Seq<Chunk>> {
    if own[n].dom().contains(b) { Some(own[n][b]) } else { inh(own, parents_spec(pm, n), parents_spec(pm, n).len() as int, b) }
}
/// the parent table is consistent with the block table: same templates; every ancestor is a template
/// whose own chain is the part of the chain above it (what find_parents returns, unit find_parents)
pub open spec fn wf(own: Tbl, pm: &HashMap<String, Vec<String>>) -> bool {
    &&& pm.view_spec().dom() == own.dom()
    &&& forall|n: Name, j: int| own.dom().contains(n) && 0 <= j < parents_spec(pm, n).len() ==>
            own.dom().contains(#[trigger] parents_spec(pm, n)[j]) && parents_spec(pm, parents_spec(pm, n)[j]) == parents_spec(pm, n).take(j)
}
pub open spec fn i1(own: Tbl, cur: Tbl) -> bool {
    &&& cur.dom() == own.dom()
    &&& forall|n: Name, b: Name| own.dom().contains(n) && #[trigger] own[n].dom().contains(b) ==> cur[n].dom().contains(b) && cur[n][b] == own[n][b]
}
pub open spec fn i2(own: Tbl, pm: &HashMap<String, Vec<String>>, cur: Tbl) -> bool {
    forall|n: Name, b: Name| own.dom().contains(n) && #[trigger] cur[n].dom().contains(b) ==> final_spec(own, pm, n, b) == Some(cur[n][b])
}
pub open spec fn covered(own: Tbl, ps: Seq<Name>, idx: int, curn: Map<Name, Seq<Chunk>>) -> bool {
    forall|i: int, b: Name| idx <= i < ps.len() && #[trigger] own[ps[i]].dom().contains(b) ==> curn.dom().contains(b)
}
pub open spec fn complete(own: Tbl, pm: &HashMap<String, Vec<String>>, cur: Tbl, n: Name) -> bool {
    forall|b: Name| (#[trigger] final_spec(own, pm, n, b)) is Some ==> cur[n].dom().contains(b)
}
pub proof fn lemma_inh_prefix(own: Tbl, ps: Seq<Name>, k: int, j: int, b: Name)
    requires 0 <= j <= k <= ps.len()
    ensures inh(own, ps.take(k), j, b) == inh(own, ps, j, b)
    decreases j
{
    if j > 0 { lemma_inh_prefix(own, ps, k, j - 1, b); }
}
/// ancestors at positions idx+1 .. len-1 do not define b: the scan from the top equals the scan from idx+1
pub proof fn lemma_inh_skip(own: Tbl, ps: Seq<Name>, idx: int, j: int, b: Name)
    requires 0 <= idx < j <= ps.len(), forall|i: int| idx < i < ps.len() ==> !(#[trigger] own[ps[i]]).dom().contains(b)
    ensures inh(own, ps, j, b) == inh(own, ps, idx + 1, b)
    decreases j
{
    if j > idx + 1 { assert(!own[ps[j - 1]].dom().contains(b)); lemma_inh_skip(own, ps, idx, j - 1, b); }
}
pub proof fn lemma_inh_witness(own: Tbl, ps: Seq<Name>, j: int, b: Name)
    requires 0 <= j <= ps.len(), inh(own, ps, j, b) is Some
    ensures exists|i: int| 0 <= i < j && #[trigger] own[ps[i]].dom().contains(b)
    decreases j
{
    if j > 0 {
        if own[ps[j - 1]].dom().contains(b) { assert(0 <= j - 1 < j && own[ps[j - 1]].dom().contains(b)); }
        else { lemma_inh_witness(own, ps, j - 1, b); let i = choose|i: int| 0 <= i < j - 1 && #[trigger] own[ps[i]].dom().contains(b); assert(0 <= i < j && own[ps[i]].dom().contains(b)); }
    }
}
/// the heart: what the child lacks and no nearer ancestor defines, it inherits exactly as its ancestor at idx does
pub proof fn lemma_same_as_parent(own: Tbl, pm: &HashMap<String, Vec<String>>, n: Name, idx: int, b: Name)
    requires wf(own, pm), own.dom().contains(n), 0 <= idx < parents_spec(pm, n).len(),
        !own[n].dom().contains(b),
        forall|i: int| idx < i < parents_spec(pm, n).len() ==> !(#[trigger] own[parents_spec(pm, n)[i]]).dom().contains(b)
    ensures final_spec(own, pm, n, b) == final_spec(own, pm, parents_spec(pm, n)[idx], b)
{
    let ps = parents_spec(pm, n);
    let p = ps[idx];
    lemma_inh_skip(own, ps, idx, ps.len() as int, b);
    assert(parents_spec(pm, p) == ps.take(idx));
    lemma_inh_prefix(own, ps, idx, idx, b);
    assert(ps.take(idx).len() == idx);
}
