// C13 vocabulary: the mathematical integer denoted by an integer-kind Value, and "fits in i128".
pub open spec fn ival(v: &Value) -> Option<int> {
    match v.inner {
        ValueInner::U64(x) => Some(x as int),
        ValueInner::I64(x) => Some(x as int),
        ValueInner::U128(x) => Some(*x as int),
        ValueInner::I128(x) => Some(*x as int),
        _ => None,
    }
}
pub open spec fn fits(i: int) -> bool { i128::MIN <= i <= i128::MAX }
pub open spec fn is_f64(v: &Value) -> bool { v.inner is F64 }
pub open spec fn is_num(v: &Value) -> bool { ival(v).is_some() || is_f64(v) }
/// an integer operand the arithmetic can use: an integer kind whose value fits in i128
pub open spec fn usable_int(v: &Value) -> bool { ival(v).is_some() && fits(ival(v).unwrap()) }
/// an integer kind whose value does not fit in i128 (u128 above i128::MAX)
pub open spec fn unusable_int(v: &Value) -> bool { ival(v).is_some() && !fits(ival(v).unwrap()) }
/// a float operand is involved and nothing forces an error
pub open spec fn float_case(l: &Value, r: &Value) -> bool {
    is_num(l) && is_num(r) && (is_f64(l) || is_f64(r)) && !unusable_int(l) && !unusable_int(r)
}
pub open spec fn int_result(res: TeraResult<Value>, x: int) -> bool {
    res.is_ok() && ival(&res->Ok_0) == Some(x) && fits(x)
}
/// "exact or an error": the property's sentence for one integer operation with exact result x
pub open spec fn exact_or_err(res: TeraResult<Value>, x: int) -> bool {
    if fits(x) { int_result(res, x) } else { res.is_err() }
}

pub open spec fn zero_num(v: &Value) -> bool {
    match v.inner {
        ValueInner::F64(f) => f64_is_zero(f),
        _ => ival(v) == Some(0int),
    }
}

// `From<..> for Value`: the conversions the arithmetic uses, as spec functions (vstd's FromSpecImpl
// makes Verus check the real `from` bodies against them)
impl vstd::std_specs::convert::FromSpecImpl<i128> for Value {
    open spec fn obeys_from_spec() -> bool { true }
    open spec fn from_spec(v: i128) -> Value { Value { inner: ValueInner::I128(Box::new(v)) } }
}
impl vstd::std_specs::convert::FromSpecImpl<f64> for Value {
    open spec fn obeys_from_spec() -> bool { true }
    open spec fn from_spec(v: f64) -> Value { Value { inner: ValueInner::F64(v) } }
}

// The division identity of the property, derived from the two postconditions (Euclidean div/mod
// on mathematical integers): (a // b) * b + a % b == a  and  0 <= a % b < |b|.
pub proof fn lemma_divmod(a: int, b: int)
    requires b != 0
    ensures
        (a / b) * b + (a % b) == a,
        0 <= a % b < (if b < 0 { -b } else { b }),
{
    vstd::arithmetic::div_mod::lemma_fundamental_div_mod(a, b);
    if b > 0 {
        vstd::arithmetic::div_mod::lemma_mod_bound(a, b);
    } else {
        // Verus' int `/` and `%` are Euclidean: for b < 0, a % b == a % (-b)
        assert(0 <= a % b < -b) by (nonlinear_arith) requires b < 0;
    }
    assert((a / b) * b == b * (a / b)) by (nonlinear_arith);
}

pub open spec fn vx_abs(i: int) -> int { if i < 0 { -i } else { i } }
pub proof fn lemma_div_abs_le(a: int, b: int)
    requires b != 0
    ensures vx_abs(a / b) <= vx_abs(a)
{
    lemma_divmod(a, b);
    let q = a / b; let r = a % b;
    assert(vx_abs(q) <= vx_abs(a)) by (nonlinear_arith)
        requires q * b + r == a, 0 <= r < vx_abs(b), b != 0;
}
/// Euclidean quotient of two i128 values fits in i128 except for MIN / -1
pub proof fn lemma_div_euclid_fits(a: int, b: int)
    requires fits(a), fits(b), b != 0
    ensures
        (a == i128::MIN && b == -1) ==> !fits(a / b),
        !(a == i128::MIN && b == -1) ==> fits(a / b),
{
    lemma_divmod(a, b);
    lemma_div_abs_le(a, b);
    let q = a / b; let r = a % b;
    if b == -1 {
        assert(q == -a) by (nonlinear_arith) requires q * b + r == a, 0 <= r < 1, b == -1;
    } else if a == i128::MIN {
        assert(q != -a) by (nonlinear_arith) requires q * b + r == a, 0 <= r < vx_abs(b), b != 0, b != -1, a < -1;
    }
}
// ---- powers beyond u32 (C13: exact whenever the result fits — only 0, 1 and -1 qualify)
pub proof fn lemma_pow_zero(e: nat) requires e > 0 ensures vx_pow(0, e) == 0 {}
pub proof fn lemma_pow_one(e: nat) ensures vx_pow(1, e) == 1 decreases e { if e > 0 { lemma_pow_one((e - 1) as nat); } }
pub proof fn lemma_pow_neg_one(e: nat)
    ensures vx_pow(-1, e) == (if e % 2 == 0 { 1int } else { -1int })
    decreases e
{
    if e > 0 { lemma_pow_neg_one((e - 1) as nat); }
}
pub open spec fn iabs(x: int) -> int { if x < 0 { -x } else { x } }
pub proof fn lemma_pow_abs_ge(a: int, e: nat)
    requires iabs(a) >= 2
    ensures iabs(vx_pow(a, e)) >= vx_pow(2, e), vx_pow(2, e) >= 1
    decreases e
{
    if e > 0 {
        lemma_pow_abs_ge(a, (e - 1) as nat);
        let x = vx_pow(a, (e - 1) as nat);
        assert(iabs(a * x) == iabs(a) * iabs(x)) by(nonlinear_arith);
        assert(iabs(a) * iabs(x) >= 2 * iabs(x)) by(nonlinear_arith) requires iabs(a) >= 2, iabs(x) >= 0;
    }
}
pub proof fn lemma_pow2_mono(e: nat, f: nat)
    requires e <= f
    ensures vx_pow(2, e) <= vx_pow(2, f), vx_pow(2, e) >= 1
    decreases f
{
    if e < f { lemma_pow2_mono(e, (f - 1) as nat); }
    else { lemma_pow_abs_ge(2, e); }
}
pub proof fn lemma_pow_beyond_u32_overflows(a: int, e: nat)
    requires iabs(a) >= 2, e >= 128
    ensures !fits(vx_pow(a, e))
{
    lemma_pow_abs_ge(a, e);
    lemma_pow2_mono(128, e);
    assert(vx_pow(2, 128) == 0x1_0000_0000_0000_0000_0000_0000_0000_0000) by(compute);
}
