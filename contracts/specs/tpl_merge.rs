/// the union of two call tables, spans of a common name concatenated (the template's own first)
pub open spec fn merge_all(a: Calls, b: Calls) -> Calls {
    Map::new(a.dom().union(b.dom()), |k: Name| get_or_empty(a, k) + get_or_empty(b, k))
}
/// `a` after the entries es[from..] have been merged in, last entry first
pub open spec fn merged_from(a: Calls, es: Seq<(String, Vec<Span>)>, from: int) -> Calls
    decreases es.len() - from
{
    if from >= es.len() || from < 0 { a } else {
        let m = merged_from(a, es, from + 1);
        m.insert(es[from].0@, get_or_empty(m, es[from].0@) + es[from].1@)
    }
}
pub open spec fn among(es: Seq<(String, Vec<Span>)>, from: int, k: Name) -> bool { exists|i: int| from <= i < es.len() && #[trigger] es[i].0@ == k }
pub proof fn lemma_merged_from(a: Calls, b: Calls, es: Seq<(String, Vec<Span>)>, from: int, k: Name)
    requires entries_ok(b, es), 0 <= from <= es.len()
    ensures
        merged_from(a, es, from).dom().contains(k) <==> a.dom().contains(k) || among(es, from, k),
        get_or_empty(merged_from(a, es, from), k) == get_or_empty(a, k) + (if among(es, from, k) { b[k] } else { Seq::<Span>::empty() }),
    decreases es.len() - from
{
    if from < es.len() {
        lemma_merged_from(a, b, es, from + 1, k);
        let m = merged_from(a, es, from + 1);
        if es[from].0@ == k {
            assert(among(es, from, k));
            if among(es, from + 1, k) {
                let i = choose|i: int| from + 1 <= i < es.len() && #[trigger] es[i].0@ == k;
                assert(es[from].0@ != es[i].0@);
            }
            assert(b.dom().contains(es[from].0@));
            assert(b[es[from].0@] == es[from].1@);
            assert(get_or_empty(a, k) + Seq::<Span>::empty() =~= get_or_empty(a, k));
        } else {
            if among(es, from, k) {
                let i = choose|i: int| from <= i < es.len() && #[trigger] es[i].0@ == k;
                assert(from + 1 <= i < es.len() && es[i].0@ == k);
            }
            if among(es, from + 1, k) {
                let i = choose|i: int| from + 1 <= i < es.len() && #[trigger] es[i].0@ == k;
                assert(from <= i < es.len() && es[i].0@ == k);
            }
        }
    } else {
        assert(get_or_empty(a, k) + Seq::<Span>::empty() =~= get_or_empty(a, k));
    }
}
pub proof fn lemma_merged_is_merge_all(a: Calls, b: Calls, es: Seq<(String, Vec<Span>)>)
    requires entries_ok(b, es)
    ensures merged_from(a, es, 0) == merge_all(a, b)
{
    let m = merged_from(a, es, 0);
    assert forall|k: Name| #[trigger] m.dom().contains(k) <==> merge_all(a, b).dom().contains(k) by {
        lemma_merged_from(a, b, es, 0, k);
        if b.dom().contains(k) { let i = choose|i: int| 0 <= i < es.len() && #[trigger] es[i].0@ == k; assert(among(es, 0, k)); }
        if among(es, 0, k) { let i = choose|i: int| 0 <= i < es.len() && #[trigger] es[i].0@ == k; assert(b.dom().contains(es[i].0@)); }
    }
    assert forall|k: Name| m.dom().contains(k) implies #[trigger] m[k] == merge_all(a, b)[k] by {
        lemma_merged_from(a, b, es, 0, k);
        if b.dom().contains(k) { let i = choose|i: int| 0 <= i < es.len() && #[trigger] es[i].0@ == k; assert(among(es, 0, k)); }
        if among(es, 0, k) { let i = choose|i: int| 0 <= i < es.len() && #[trigger] es[i].0@ == k; assert(b.dom().contains(es[i].0@)); }
    }
    assert(m =~= merge_all(a, b));
}
