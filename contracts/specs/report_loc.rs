/// the text of line n (1-based) including its newline
pub open spec fn line_text(s: Seq<char>, n: int) -> Seq<char> {
    if n == line_count(s) { skip_bytes(s, line_start(s, n - 1)) } else { sub_bytes(s, line_start(s, n - 1), line_start(s, n)) }
}
pub open spec fn pad_one(c: char) -> char { if c == '\t' { '\t' } else { ' ' } }
pub open spec fn pad_all(s: Seq<char>) -> Seq<char> { Seq::new(s.len(), |i: int| pad_one(s[i])) }
pub open spec fn carets(n: int) -> Seq<char> { Seq::new(if n >= 0 { n as nat } else { 0 }, |i: int| '^') }
pub proof fn lemma_pad_all_push(s: Seq<char>, k: int)
    requires 0 <= k < s.len()
    ensures pad_all(s.take(k + 1)) =~= pad_all(s.take(k)).push(pad_one(s[k]))
{}
