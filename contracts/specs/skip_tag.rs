pub open spec fn drop_ws(s: Seq<char>) -> Seq<char>
    decreases s.len()
{
    if s.len() > 0 && is_ws(s[0]) { drop_ws(s.skip(1)) } else { s }
}
pub open spec fn drop_dash(s: Seq<char>) -> Seq<char> { if s.len() > 0 && s[0] == '-' { s.skip(1) } else { s } }
/// `-? ws* NAME ws* -? END`: what is left after it and whether the second dash was there
pub open spec fn skip_spec(s: Seq<char>, name: Seq<char>, end: Seq<char>) -> Option<(Seq<char>, bool)> {
    let s2 = drop_ws(drop_dash(s));
    if !name.is_prefix_of(s2) { None } else {
        let s4 = drop_ws(s2.skip(name.len() as int));
        let outer = s4.len() > 0 && s4[0] == '-';
        let s5 = drop_dash(s4);
        if !end.is_prefix_of(s5) { None } else { Some((s5.skip(end.len() as int), outer)) }
    }
}
/// everything skip_tag strips is a prefix: the remainder is a suffix of the text
pub open spec fn suffix_of(r: Seq<char>, s: Seq<char>) -> bool { exists|k: int| 0 <= k <= s.len() && r == s.skip(k) }
pub proof fn lemma_suffix_blen(r: Seq<char>, s: Seq<char>)
    requires suffix_of(r, s)
    ensures blen(r) <= blen(s)
{
    let k = choose|k: int| 0 <= k <= s.len() && r == s.skip(k);
    assert(s =~= s.take(k) + s.skip(k));
    axiom_blen(s.take(k), s.skip(k));
}
pub proof fn lemma_suffix_skip(r: Seq<char>, s: Seq<char>, n: int)
    requires suffix_of(r, s), 0 <= n <= r.len()
    ensures suffix_of(r.skip(n), s)
{
    let k = choose|k: int| 0 <= k <= s.len() && r == s.skip(k);
    assert(r.skip(n) =~= s.skip(k + n));
}
