pub open spec fn entry_ok0(t: &Tera, is_known_component: &VxCompPred, e: (&String, &Vec<Span>)) -> bool {
    let self_ = t; e.1@.len() == 0 || reg_has(self_.filters, e.0@)
}
pub open spec fn prefix_ok0(t: &Tera, p: &VxCompPred, es: Seq<(&String, &Vec<Span>)>, n: int) -> bool
    decreases n
{
    if n <= 0 { true } else { prefix_ok0(t, p, es, n - 1) && entry_ok0(t, p, es[n - 1]) }
}
pub open spec fn table_ok0(t: &Tera, tpl: &Template, is_known_component: &VxCompPred) -> bool {
    let self_ = t;
    forall|n: Name| #[trigger] tpl.filter_calls.view_spec().dom().contains(n) ==> tpl.filter_calls.view_spec()[n]@.len() == 0 || reg_has(self_.filters, n)
}
pub proof fn lemma_prefix0(t: &Tera, p: &VxCompPred, es: Seq<(&String, &Vec<Span>)>, n: int)
    requires 0 <= n <= es.len()
    ensures prefix_ok0(t, p, es, n) <==> (forall|i: int| 0 <= i < n ==> entry_ok0(t, p, #[trigger] es[i]))
    decreases n
{
    if n > 0 { lemma_prefix0(t, p, es, n - 1); }
}
pub proof fn lemma_table0(t: &Tera, tpl: &Template, p: &VxCompPred, es: Seq<(&String, &Vec<Span>)>)
    requires entries_ok(tpl.filter_calls.view_spec(), es)
    ensures prefix_ok0(t, p, es, es.len() as int) <==> table_ok0(t, tpl, p)
{
    lemma_prefix0(t, p, es, es.len() as int);
    let m = tpl.filter_calls.view_spec();
    if table_ok0(t, tpl, p) {
        assert forall|i: int| 0 <= i < es.len() implies entry_ok0(t, p, #[trigger] es[i]) by { assert(m.dom().contains(es[i].0@)); }
    }
    if forall|i: int| 0 <= i < es.len() ==> entry_ok0(t, p, #[trigger] es[i]) {
        assert forall|n: Name| #[trigger] m.dom().contains(n) implies m[n]@.len() == 0 || (reg_has(t.filters, n)) by {
            assert(seen(es, es.len() as int, n));
            let i = choose|i: int| 0 <= i < es.len() && #[trigger] es[i].0@ == n;
            assert(entry_ok0(t, p, es[i]));
        }
    }
}
pub open spec fn entry_ok1(t: &Tera, is_known_component: &VxCompPred, e: (&String, &Vec<Span>)) -> bool {
    let self_ = t; e.1@.len() == 0 || reg_has(self_.tests, e.0@)
}
pub open spec fn prefix_ok1(t: &Tera, p: &VxCompPred, es: Seq<(&String, &Vec<Span>)>, n: int) -> bool
    decreases n
{
    if n <= 0 { true } else { prefix_ok1(t, p, es, n - 1) && entry_ok1(t, p, es[n - 1]) }
}
pub open spec fn table_ok1(t: &Tera, tpl: &Template, is_known_component: &VxCompPred) -> bool {
    let self_ = t;
    forall|n: Name| #[trigger] tpl.test_calls.view_spec().dom().contains(n) ==> tpl.test_calls.view_spec()[n]@.len() == 0 || reg_has(self_.tests, n)
}
pub proof fn lemma_prefix1(t: &Tera, p: &VxCompPred, es: Seq<(&String, &Vec<Span>)>, n: int)
    requires 0 <= n <= es.len()
    ensures prefix_ok1(t, p, es, n) <==> (forall|i: int| 0 <= i < n ==> entry_ok1(t, p, #[trigger] es[i]))
    decreases n
{
    if n > 0 { lemma_prefix1(t, p, es, n - 1); }
}
pub proof fn lemma_table1(t: &Tera, tpl: &Template, p: &VxCompPred, es: Seq<(&String, &Vec<Span>)>)
    requires entries_ok(tpl.test_calls.view_spec(), es)
    ensures prefix_ok1(t, p, es, es.len() as int) <==> table_ok1(t, tpl, p)
{
    lemma_prefix1(t, p, es, es.len() as int);
    let m = tpl.test_calls.view_spec();
    if table_ok1(t, tpl, p) {
        assert forall|i: int| 0 <= i < es.len() implies entry_ok1(t, p, #[trigger] es[i]) by { assert(m.dom().contains(es[i].0@)); }
    }
    if forall|i: int| 0 <= i < es.len() ==> entry_ok1(t, p, #[trigger] es[i]) {
        assert forall|n: Name| #[trigger] m.dom().contains(n) implies m[n]@.len() == 0 || (reg_has(t.tests, n)) by {
            assert(seen(es, es.len() as int, n));
            let i = choose|i: int| 0 <= i < es.len() && #[trigger] es[i].0@ == n;
            assert(entry_ok1(t, p, es[i]));
        }
    }
}
pub open spec fn entry_ok2(t: &Tera, is_known_component: &VxCompPred, e: (&String, &Vec<Span>)) -> bool {
    let self_ = t; e.1@.len() == 0 || (e.0@ == "super"@ || reg_has(self_.functions, e.0@))
}
pub open spec fn prefix_ok2(t: &Tera, p: &VxCompPred, es: Seq<(&String, &Vec<Span>)>, n: int) -> bool
    decreases n
{
    if n <= 0 { true } else { prefix_ok2(t, p, es, n - 1) && entry_ok2(t, p, es[n - 1]) }
}
pub open spec fn table_ok2(t: &Tera, tpl: &Template, is_known_component: &VxCompPred) -> bool {
    let self_ = t;
    forall|n: Name| #[trigger] tpl.function_calls.view_spec().dom().contains(n) ==> tpl.function_calls.view_spec()[n]@.len() == 0 || (n == "super"@ || reg_has(self_.functions, n))
}
pub proof fn lemma_prefix2(t: &Tera, p: &VxCompPred, es: Seq<(&String, &Vec<Span>)>, n: int)
    requires 0 <= n <= es.len()
    ensures prefix_ok2(t, p, es, n) <==> (forall|i: int| 0 <= i < n ==> entry_ok2(t, p, #[trigger] es[i]))
    decreases n
{
    if n > 0 { lemma_prefix2(t, p, es, n - 1); }
}
pub proof fn lemma_table2(t: &Tera, tpl: &Template, p: &VxCompPred, es: Seq<(&String, &Vec<Span>)>)
    requires entries_ok(tpl.function_calls.view_spec(), es)
    ensures prefix_ok2(t, p, es, es.len() as int) <==> table_ok2(t, tpl, p)
{
    lemma_prefix2(t, p, es, es.len() as int);
    let m = tpl.function_calls.view_spec();
    if table_ok2(t, tpl, p) {
        assert forall|i: int| 0 <= i < es.len() implies entry_ok2(t, p, #[trigger] es[i]) by { assert(m.dom().contains(es[i].0@)); }
    }
    if forall|i: int| 0 <= i < es.len() ==> entry_ok2(t, p, #[trigger] es[i]) {
        assert forall|n: Name| #[trigger] m.dom().contains(n) implies m[n]@.len() == 0 || ((n == "super"@ || reg_has(t.functions, n))) by {
            assert(seen(es, es.len() as int, n));
            let i = choose|i: int| 0 <= i < es.len() && #[trigger] es[i].0@ == n;
            assert(entry_ok2(t, p, es[i]));
        }
    }
}
pub open spec fn entry_ok3(t: &Tera, is_known_component: &VxCompPred, e: (&String, &Vec<Span>)) -> bool {
    let self_ = t; e.1@.len() == 0 || comp_known(*is_known_component, e.0@)
}
pub open spec fn prefix_ok3(t: &Tera, p: &VxCompPred, es: Seq<(&String, &Vec<Span>)>, n: int) -> bool
    decreases n
{
    if n <= 0 { true } else { prefix_ok3(t, p, es, n - 1) && entry_ok3(t, p, es[n - 1]) }
}
pub open spec fn table_ok3(t: &Tera, tpl: &Template, is_known_component: &VxCompPred) -> bool {
    let self_ = t;
    forall|n: Name| #[trigger] tpl.component_calls.view_spec().dom().contains(n) ==> tpl.component_calls.view_spec()[n]@.len() == 0 || comp_known(*is_known_component, n)
}
pub proof fn lemma_prefix3(t: &Tera, p: &VxCompPred, es: Seq<(&String, &Vec<Span>)>, n: int)
    requires 0 <= n <= es.len()
    ensures prefix_ok3(t, p, es, n) <==> (forall|i: int| 0 <= i < n ==> entry_ok3(t, p, #[trigger] es[i]))
    decreases n
{
    if n > 0 { lemma_prefix3(t, p, es, n - 1); }
}
pub proof fn lemma_table3(t: &Tera, tpl: &Template, p: &VxCompPred, es: Seq<(&String, &Vec<Span>)>)
    requires entries_ok(tpl.component_calls.view_spec(), es)
    ensures prefix_ok3(t, p, es, es.len() as int) <==> table_ok3(t, tpl, p)
{
    lemma_prefix3(t, p, es, es.len() as int);
    let m = tpl.component_calls.view_spec();
    if table_ok3(t, tpl, p) {
        assert forall|i: int| 0 <= i < es.len() implies entry_ok3(t, p, #[trigger] es[i]) by { assert(m.dom().contains(es[i].0@)); }
    }
    if forall|i: int| 0 <= i < es.len() ==> entry_ok3(t, p, #[trigger] es[i]) {
        assert forall|n: Name| #[trigger] m.dom().contains(n) implies m[n]@.len() == 0 || (comp_known(*p, n)) by {
            assert(seen(es, es.len() as int, n));
            let i = choose|i: int| 0 <= i < es.len() && #[trigger] es[i].0@ == n;
            assert(entry_ok3(t, p, es[i]));
        }
    }
}
pub open spec fn entry_ok4(t: &Tera, is_known_component: &VxCompPred, e: (&String, &Vec<Span>)) -> bool {
    let self_ = t; e.1@.len() == 0 || tpl_resolves(self_, e.0@)
}
pub open spec fn prefix_ok4(t: &Tera, p: &VxCompPred, es: Seq<(&String, &Vec<Span>)>, n: int) -> bool
    decreases n
{
    if n <= 0 { true } else { prefix_ok4(t, p, es, n - 1) && entry_ok4(t, p, es[n - 1]) }
}
pub open spec fn table_ok4(t: &Tera, tpl: &Template, is_known_component: &VxCompPred) -> bool {
    let self_ = t;
    forall|n: Name| #[trigger] tpl.include_calls.view_spec().dom().contains(n) ==> tpl.include_calls.view_spec()[n]@.len() == 0 || tpl_resolves(self_, n)
}
pub proof fn lemma_prefix4(t: &Tera, p: &VxCompPred, es: Seq<(&String, &Vec<Span>)>, n: int)
    requires 0 <= n <= es.len()
    ensures prefix_ok4(t, p, es, n) <==> (forall|i: int| 0 <= i < n ==> entry_ok4(t, p, #[trigger] es[i]))
    decreases n
{
    if n > 0 { lemma_prefix4(t, p, es, n - 1); }
}
pub proof fn lemma_table4(t: &Tera, tpl: &Template, p: &VxCompPred, es: Seq<(&String, &Vec<Span>)>)
    requires entries_ok(tpl.include_calls.view_spec(), es)
    ensures prefix_ok4(t, p, es, es.len() as int) <==> table_ok4(t, tpl, p)
{
    lemma_prefix4(t, p, es, es.len() as int);
    let m = tpl.include_calls.view_spec();
    if table_ok4(t, tpl, p) {
        assert forall|i: int| 0 <= i < es.len() implies entry_ok4(t, p, #[trigger] es[i]) by { assert(m.dom().contains(es[i].0@)); }
    }
    if forall|i: int| 0 <= i < es.len() ==> entry_ok4(t, p, #[trigger] es[i]) {
        assert forall|n: Name| #[trigger] m.dom().contains(n) implies m[n]@.len() == 0 || (tpl_resolves(t, n)) by {
            assert(seen(es, es.len() as int, n));
            let i = choose|i: int| 0 <= i < es.len() && #[trigger] es[i].0@ == n;
            assert(entry_ok4(t, p, es[i]));
        }
    }
}
