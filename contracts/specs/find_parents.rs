// ---- specification: the extends chain ----
/// parent of template `nm` (resolved), if it extends something that resolves
pub open spec fn parent_of(tera: &Tera, nm: Name) -> Option<Name> {
    match tera.tpl_spec(nm).extends { Some(p) => tera.resolve_spec(p@), None => None }
}
pub open spec fn has_dangling(tera: &Tera, nm: Name) -> bool {
    tera.tpl_spec(nm).extends is Some && tera.resolve_spec(tera.tpl_spec(nm).extends->Some_0@) is None
}
pub open spec fn names_of(v: Seq<String>) -> Seq<Name> { v.map_values(|s: String| s@) }
/// `ps` (nearest first) is the chain of ancestors walked from `cur0`: ps[0] = parent(cur0), ps[k+1] = parent(ps[k]).
/// (`link_ok` is a trigger predicate: a quantifier over `ps[k]` that mentions `ps[k-1]` would loop.)
pub open spec fn prev_of(cur0: Name, ps: Seq<Name>, k: int) -> Name { if k == 0 { cur0 } else { ps[k - 1] } }
pub open spec fn link_ok(tera: &Tera, cur0: Name, ps: Seq<Name>, k: int) -> bool { parent_of(tera, prev_of(cur0, ps, k)) == Some(ps[k]) }
pub open spec fn is_chain(tera: &Tera, cur0: Name, ps: Seq<Name>) -> bool {
    forall|k: int| 0 <= k < ps.len() ==> #[trigger] link_ok(tera, cur0, ps, k)
}
pub open spec fn distinct(ps: Seq<Name>) -> bool { forall|i: int, j: int| 0 <= i < j < ps.len() ==> ps[i] != ps[j] }


/// pigeonhole: a duplicate-free sequence of registered names is no longer than the registry
pub proof fn lemma_distinct_bounded(tera: &Tera, ps: Seq<Name>)
    requires tera.names().finite(), distinct(ps), forall|i: int| 0 <= i < ps.len() ==> tera.names().contains(#[trigger] ps[i])
    ensures ps.len() <= tera.names().len()
{
    assert(ps.no_duplicates()) by {
        assert forall|i: int, j: int| 0 <= i < ps.len() && 0 <= j < ps.len() && i != j implies ps[i] != ps[j] by {
            if i < j { } else { assert(ps[j] != ps[i]); }
        }
    }
    ps.unique_seq_to_set();
    assert(ps.to_set().subset_of(tera.names())) by {
        assert forall|x: Name| ps.to_set().contains(x) implies tera.names().contains(x) by {
            let i = choose|i: int| 0 <= i < ps.len() && ps[i] == x;
            assert(tera.names().contains(ps[i]));
        }
    }
    vstd::set_lib::lemma_len_subset(ps.to_set(), tera.names());
}

pub open spec fn last_or(c: Name, ps: Seq<Name>) -> Name { if ps.len() == 0 { c } else { ps[ps.len() - 1] } }
/// following the extends links from `s` along `ps` comes back to `s` or to a template already on the way
pub open spec fn revisits(tera: &Tera, s: Name, ps: Seq<Name>) -> bool {
    parent_of(tera, last_or(s, ps)) is Some
        && (parent_of(tera, last_or(s, ps))->Some_0 == s || ps.contains(parent_of(tera, last_or(s, ps))->Some_0))
}

pub open spec fn missing_witness(tera: &Tera, s: Name, ps: Seq<Name>) -> bool { is_chain(tera, s, ps) && has_dangling(tera, last_or(s, ps)) }
pub open spec fn circular_witness(tera: &Tera, s: Name, ps: Seq<Name>) -> bool { is_chain(tera, s, ps) && revisits(tera, s, ps) }
