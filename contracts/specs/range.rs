// C17 `range`: the arithmetic progression and the three nonlinear lemmas that bound it.
pub open spec fn at(start: int, step: int, i: int) -> int { start + i * step }


pub proof fn lemma_len_pos(span: int, step: int, len: int)
    requires span >= 0, step > 0, len == (span + step - 1) / step
    ensures len >= 0, (len - 1) * step < span <= len * step || (len == 0 && span == 0)
{
    vstd::arithmetic::div_mod::lemma_fundamental_div_mod(span + step - 1, step);
    vstd::arithmetic::div_mod::lemma_mod_bound(span + step - 1, step);
    let q = (span + step - 1) / step;
    let r = (span + step - 1) % step;
    assert(span + step - 1 == step * q + r);
    assert(0 <= r < step);
    assert(step * q == q * step) by (nonlinear_arith);
    assert((q - 1) * step == q * step - step) by (nonlinear_arith);
    if q < 0 { assert(step * q <= -step) by (nonlinear_arith) requires q <= -1, step > 0; }
}

pub proof fn lemma_within(start: int, end: int, step: int, len: int, i: int)
    requires step != 0, 0 <= i < len,
        step > 0 ==> start <= end && (len - 1) * step < end - start,
        step < 0 ==> start > end && (len - 1) * (-step) < start - end,
        i128::MIN <= start <= i128::MAX, i128::MIN <= end <= i128::MAX, i128::MIN <= step <= i128::MAX, len <= 100000,
        step > 0 ==> end - start <= i128::MAX, step < 0 ==> start - end <= i128::MAX,
    ensures i128::MIN <= i * step <= i128::MAX, i128::MIN <= start + i * step <= i128::MAX,
        step > 0 ==> start <= start + i * step < end,
        step < 0 ==> end < start + i * step <= start,
{
    if step > 0 {
        assert(i * step <= (len - 1) * step) by (nonlinear_arith) requires 0 <= i <= len - 1, step > 0;
        assert(i * step >= 0) by (nonlinear_arith) requires 0 <= i, step > 0;
    } else {
        assert(i * (-step) <= (len - 1) * (-step)) by (nonlinear_arith) requires 0 <= i <= len - 1, step < 0;
        assert(i * (-step) >= 0) by (nonlinear_arith) requires 0 <= i, step < 0;
        assert(i * (-step) == -(i * step)) by (nonlinear_arith);
    }
}

pub proof fn lemma_post(start: int, end: int, step: int, len: int)
    requires step != 0, len >= 0,
        step > 0 ==> (start <= end && (len - 1) * step < end - start <= len * step) || (len == 0 && start >= end),
        step < 0 && start > end ==> (len - 1) * (-step) < start - end <= len * (-step),
        step < 0 && start <= end ==> len == 0,
    ensures
        step > 0 ==> (forall|i: int| 0 <= i < len ==> #[trigger] at(start, step, i) < end) && at(start, step, len) >= end,
        step < 0 ==> (forall|i: int| 0 <= i < len ==> #[trigger] at(start, step, i) > end) && at(start, step, len) <= end,
{
    if step > 0 {
        assert forall|i: int| 0 <= i < len implies #[trigger] at(start, step, i) < end by {
            assert(i * step <= (len - 1) * step) by (nonlinear_arith) requires 0 <= i <= len - 1, step > 0;
        }
        if len == 0 { assert(0 * step == 0) by (nonlinear_arith); }
    } else {
        assert forall|i: int| 0 <= i < len implies #[trigger] at(start, step, i) > end by {
            assert(i * (-step) <= (len - 1) * (-step)) by (nonlinear_arith) requires 0 <= i <= len - 1, step < 0;
            assert(i * (-step) == -(i * step)) by (nonlinear_arith);
        }
        assert(len * (-step) == -(len * step)) by (nonlinear_arith);
        if len == 0 { assert(0 * step == 0) by (nonlinear_arith); }
    }
}


pub open spec fn kw_i128(k: &Kwargs, key: &str) -> TeraResult<Option<i128>> { kw_get::<i128>(k, key) }
