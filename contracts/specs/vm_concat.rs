/// `Value::from(String)`: a NORMAL (not safe) string with that text (engine K group safemark proves
/// the kind on the real From impls; here a trusted declaration)
pub uninterp spec fn normal_string(s: Seq<char>) -> Value;
impl vstd::std_specs::convert::FromSpecImpl<String> for Value {
    open spec fn obeys_from_spec() -> bool { true }
    open spec fn from_spec(s: String) -> Value { normal_string(s@) }
}
impl From<String> for Value {
    #[verifier::external_body]
    fn from(s: String) -> Value { unimplemented!() }
}
