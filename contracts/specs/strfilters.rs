// (no lemmas yet)
