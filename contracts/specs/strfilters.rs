pub open spec fn xml_one(c: char) -> Seq<char> {
    if c == '&' { "&amp;"@ } else if c == '<' { "&lt;"@ } else if c == '>' { "&gt;"@ } else if c == '"' { "&quot;"@ } else if c == '\'' { "&apos;"@ } else { seq![c] }
}
pub open spec fn xml_all(s: Seq<char>) -> Seq<char>
    decreases s.len()
{
    if s.len() == 0 { Seq::<char>::empty() } else { xml_all(s.drop_last()) + xml_one(s.last()) }
}
pub open spec fn clean(s: Seq<char>) -> bool { forall|i: int| 0 <= i < s.len() ==> s[i] != '<' && s[i] != '>' && s[i] != '"' && s[i] != '\'' }
pub proof fn lemma_xml_all_push(s: Seq<char>, k: int)
    requires 0 <= k < s.len()
    ensures xml_all(s.take(k + 1)) == xml_all(s.take(k)) + xml_one(s[k])
{
    assert(s.take(k + 1).drop_last() =~= s.take(k));
    assert(s.take(k + 1).last() == s[k]);
}
/// (output so far, "capitalize the next letter") after the first k characters
pub open spec fn title_fold(s: Seq<char>, k: int) -> (Seq<char>, bool)
    decreases k
{
    if k <= 0 { (Seq::<char>::empty(), true) } else {
        let (o, cap) = title_fold(s, k - 1);
        let c = s[k - 1];
        if is_ascii_punct(c) || is_ws_char(c) { (o.push(c), if c != '\'' { true } else { cap }) }
        else if cap { (o + upper_c(c), false) }
        else { (o + lower_c(c), false) }
    }
}
