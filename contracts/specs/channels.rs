/// the String-returning channel: the text of the bytes; an error if rendering fails or the bytes are not UTF-8
pub open spec fn string_channel(o: Outcome) -> Option<Seq<char>> {
    match o { Outcome::Fails => None, Outcome::Bytes(b) => utf8_text(b) }
}
/// C18: what `render*(name, [block,] context)` of an engine means on EVERY channel - the VM's outcome for the
/// registered template, the caller's context as the user context and the engine's global context as the global one
pub open spec fn engine_outcome(tera: &Tera, name: Seq<char>, block: Option<Seq<char>>, context: &Context) -> Outcome {
    match lookup(tera, name) {
        None => Outcome::Fails,
        Some(tpl) => if block is Some && !has_block(tpl, block->Some_0) { Outcome::Fails } else { vm_outcome(tera, tpl, block, context, &tera.global_context) },
    }
}
