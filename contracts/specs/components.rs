impl ComponentDefinition {
    #[verifier::external_body]
    pub fn kwargs_list(&self) -> Vec<&str> { unimplemented!() }
}
/// a provided key that is not a declared parameter
pub open spec fn undeclared(def: &ComponentDefinition, k: Name) -> bool { !def.kwargs.view_spec().dom().contains(k) }
pub open spec fn has_undeclared(def: &ComponentDefinition, provided: Seq<&str>) -> bool {
    exists|i: int| 0 <= i < provided.len() && undeclared(def, (#[trigger] provided[i])@)
}
/// the rest map: exactly the undeclared provided keys, each with its provided value
pub open spec fn rest_of(def: &ComponentDefinition, provided: Seq<&str>, gv: spec_fn(Name) -> Option<Value>, upto: int) -> Map<Name, Value>
    decreases upto
{
    if upto <= 0 { Map::<Name, Value>::empty() }
    else if undeclared(def, provided[upto - 1]@) { rest_of(def, provided, gv, upto - 1).insert(provided[upto - 1]@, gv(provided[upto - 1]@)->Some_0) }
    else { rest_of(def, provided, gv, upto - 1) }
}
/// what a declared parameter is bound to: the provided value if any, else its default
pub open spec fn bound_value(a: &ComponentArgument, given: Option<Value>) -> Option<Value> {
    match given { Some(v) => Some(v), None => a.default }
}
/// a parameter that makes the call fail: provided with a value of the wrong type, or required and missing
pub open spec fn bad_param(def: &ComponentDefinition, gv: spec_fn(Name) -> Option<Value>, k: Name) -> bool {
    def.kwargs.view_spec().dom().contains(k) && match gv(k) {
        Some(v) => !matches_spec(&def.kwargs.view_spec()[k], v),
        None => def.kwargs.view_spec()[k].default is None,
    }
}
/// the undeclared keys among the first `upto` provided keys
pub open spec fn unknown_of(def: &ComponentDefinition, provided: Seq<&str>, upto: int) -> Set<Name>
    decreases upto
{
    if upto <= 0 { Set::<Name>::empty() }
    else if undeclared(def, provided[upto - 1]@) { unknown_of(def, provided, upto - 1).insert(provided[upto - 1]@) }
    else { unknown_of(def, provided, upto - 1) }
}
pub proof fn lemma_unknown_nonempty(def: &ComponentDefinition, provided: Seq<&str>, upto: int)
    requires 0 <= upto <= provided.len()
    ensures (unknown_of(def, provided, upto) =~= Set::<Name>::empty()) == !(exists|i: int| 0 <= i < upto && undeclared(def, (#[trigger] provided[i])@))
    decreases upto
{
    if upto > 0 {
        lemma_unknown_nonempty(def, provided, upto - 1);
        if undeclared(def, provided[upto - 1]@) {
            assert(unknown_of(def, provided, upto).contains(provided[upto - 1]@));
        } else {
            if exists|i: int| 0 <= i < upto && undeclared(def, (#[trigger] provided[i])@) {
                let i = choose|i: int| 0 <= i < upto && undeclared(def, (#[trigger] provided[i])@);
                assert(i < upto - 1);
            }
        }
    }
}
/// processed entries: bound and of the right type
pub open spec fn entry_done(es: Seq<(&String, &ComponentArgument)>, gv: spec_fn(Name) -> Option<Value>, ctx: Map<Name, Value>, i: int) -> bool {
    &&& ctx.dom().contains(es[i].0@)
    &&& Some(ctx[es[i].0@]) == bound_value(es[i].1, gv(es[i].0@))
    &&& match gv(es[i].0@) { Some(v) => matches_spec(es[i].1, v), None => es[i].1.default is Some }
}
