/// where template output goes: the innermost capture buffer if any, else the caller's writer
pub open spec fn sink_bytes(st: &State, out: &VxWriter) -> Seq<u8> {
    if st.capture_buffers.len() > 0 { st.capture_buffers@[st.capture_buffers.len() - 1].bytes@ } else { out.bytes@ }
}
/// everything that is *not* the current sink is left alone
pub open spec fn other_sinks_untouched(s0: &State, o0: &VxWriter, s1: &State, o1: &VxWriter) -> bool {
    &&& s1.capture_buffers.len() == s0.capture_buffers.len()
    &&& (s0.capture_buffers.len() > 0 ==> o1.bytes@ == o0.bytes@)
    &&& forall|i: int| 0 <= i < s0.capture_buffers.len() - 1 ==> s1.capture_buffers@[i] == s0.capture_buffers@[i]
}
/// the escape decision of C01: escaped unless autoescape is off or the value is marked safe
pub open spec fn payload(vm: &VirtualMachine, v: Value) -> Seq<u8> {
    if !autoescape_spec(vm) || v.safe_spec() { v.fmt_spec() } else { escape_spec(vm.tera, v.fmt_spec()) }
}
pub open spec fn autoescape_spec(vm: &VirtualMachine) -> bool {
    match vm.autoescape_override { Some(b) => b, None => vm.template.autoescape_enabled }
}
pub broadcast proof fn lemma_prefix_trans(a: Seq<u8>, b: Seq<u8>, c: Seq<u8>)
    requires #[trigger] a.is_prefix_of(b), #[trigger] b.is_prefix_of(c)
    ensures a.is_prefix_of(c)
{
    assert forall|i: int| 0 <= i < a.len() implies a[i] == c[i] by { assert(a[i] == b[i]); assert(b[i] == c[i]); }
}

// ---- WritePath: root lookup and attribute walk
impl<'t> State<'t> {
    /// result of name lookup (the scope order itself is proved in unit state_scope)
    pub uninterp spec fn resolve_spec(&self, name: Seq<char>) -> Value;
    pub uninterp spec fn dump_spec(&self) -> Value;
    #[verifier::external_body]
    pub fn get_value(&self, name: &str) -> (r: Value) ensures r == self.resolve_spec(name@) { unimplemented!() }
    #[verifier::external_body]
    pub fn dump_context(&self) -> (r: Value) ensures r == self.dump_spec() { unimplemented!() }
}
impl<'tera> VirtualMachine<'tera> {
    #[verifier::external_body]
    pub fn undefined_var_error(&self, state: &State<'tera>, chunk: &Chunk, name: &str, span: &Span) -> Error { unimplemented!() }
    #[verifier::external_body]
    pub fn undefined_field_error(&self, parent: &Value, attr: &str, span: &Span, chunk: &Chunk) -> Error { unimplemented!() }
}
/// span presence for an erroring instruction is C07's undecided part: assumed, not proved
#[verifier::external_body]
pub fn vx_assume_some<T>(o: Option<T>) -> (r: T) { unimplemented!() }
#[verifier::external_body]
pub fn vx_string_eq_str(a: &String, b: &str) -> (r: bool) ensures r == (a@ == b@) { unimplemented!() }

pub open spec fn root_of(st: &State, path: Seq<String>) -> Value {
    if path.len() == 1 && path[0]@ == MAGICAL_DUMP_VAR@ { st.dump_spec() } else { st.resolve_spec(path[0]@) }
}
/// the value reached from v by the attributes path[1..=upto]; None as soon as one is missing
pub open spec fn follow(v: Value, path: Seq<String>, upto: int) -> Option<Value> decreases upto {
    if upto <= 0 { Some(v) } else {
        match follow(v, path, upto - 1) { Some(c) => c.attr_spec(path[upto]@), None => None }
    }
}
