/// where template output goes: the innermost capture buffer if any, else the caller's writer
pub open spec fn sink_bytes(st: &State, out: &VxWriter) -> Seq<u8> {
    if st.capture_buffers.len() > 0 { st.capture_buffers@[st.capture_buffers.len() - 1].bytes@ } else { out.bytes@ }
}
/// everything that is *not* the current sink is left alone
pub open spec fn other_sinks_untouched(s0: &State, o0: &VxWriter, s1: &State, o1: &VxWriter) -> bool {
    &&& s1.capture_buffers.len() == s0.capture_buffers.len()
    &&& (s0.capture_buffers.len() > 0 ==> o1.bytes@ == o0.bytes@)
    &&& forall|i: int| 0 <= i < s0.capture_buffers.len() - 1 ==> s1.capture_buffers@[i] == s0.capture_buffers@[i]
}
/// the escape decision of C01: escaped unless autoescape is off or the value is marked safe
pub open spec fn payload(vm: &VirtualMachine, v: Value) -> Seq<u8> {
    if !autoescape_spec(vm) || v.safe_spec() { v.fmt_spec() } else { escape_spec(vm.tera, v.fmt_spec()) }
}
pub open spec fn autoescape_spec(vm: &VirtualMachine) -> bool {
    match vm.autoescape_override { Some(b) => b, None => vm.template.autoescape_enabled }
}
pub broadcast proof fn lemma_prefix_trans(a: Seq<u8>, b: Seq<u8>, c: Seq<u8>)
    requires #[trigger] a.is_prefix_of(b), #[trigger] b.is_prefix_of(c)
    ensures a.is_prefix_of(c)
{
    assert forall|i: int| 0 <= i < a.len() implies a[i] == c[i] by { assert(a[i] == b[i]); assert(b[i] == c[i]); }
}

// ---- WritePath: root lookup and attribute walk
impl<'t> State<'t> {
    /// result of name lookup (the scope order itself is proved in unit state_scope)
    pub uninterp spec fn resolve_spec(&self, name: Seq<char>) -> Value;
    pub uninterp spec fn dump_spec(&self) -> Value;
    #[verifier::external_body]
    pub fn get_value(&self, name: &str) -> (r: Value) ensures r == self.resolve_spec(name@) { unimplemented!() }
    #[verifier::external_body]
    pub fn dump_context(&self) -> (r: Value) ensures r == self.dump_spec() { unimplemented!() }
}
impl<'tera> VirtualMachine<'tera> {
    /// include: appends to its output only (or fails leaving a prefix); the includer's state is read-only
    #[verifier::external_body]
    pub fn render_include(&self, name: &str, state: &State<'tera>, output: &mut VxWriter) -> (r: TeraResult<()>)
        ensures old(output).bytes@.is_prefix_of(final(output).bytes@),
            // whether and how rendering the included template fails: named, so that the arm's result can be tied to it
            r is Err == include_fails(*self, name@), r is Err ==> r->Err_0 == include_error(*self, name@)
    { unimplemented!() }
    /// the template named in reports about `chunk` (unit report_target)
    #[verifier::external_body]
    pub fn report_target(&self, chunk: &Chunk) -> (r: (&'tera str, &'tera str))
        ensures r.0@ == target_name(*self, *chunk)
    { unimplemented!() }
    #[verifier::external_body]
    pub fn rendering_error(&self, msg: String, chunk: &Chunk, span: &Span) -> Error { unimplemented!() }
    #[verifier::external_body]
    pub fn undefined_var_error(&self, state: &State<'tera>, chunk: &Chunk, name: &str, span: &Span) -> Error { unimplemented!() }
    #[verifier::external_body]
    pub fn undefined_field_error(&self, parent: &Value, attr: &str, span: &Span, chunk: &Chunk) -> Error { unimplemented!() }
}
pub uninterp spec fn include_fails(vm: VirtualMachine, name: Seq<char>) -> bool;
pub uninterp spec fn include_error(vm: VirtualMachine, name: Seq<char>) -> Error;
pub uninterp spec fn target_name(vm: VirtualMachine, chunk: Chunk) -> Seq<char>;
/// span presence for an erroring instruction is C07's undecided part: assumed, not proved
#[verifier::external_body]
pub fn vx_assume_some<T>(o: Option<T>) -> (r: T) ensures o is Some ==> r == o->Some_0, o is Some { unimplemented!() }
#[verifier::external_body]
pub fn vx_string_eq_str(a: &String, b: &str) -> (r: bool) ensures r == (a@ == b@) { unimplemented!() }

pub open spec fn root_of(st: &State, path: Seq<String>) -> Value {
    if path.len() == 1 && path[0]@ == MAGICAL_DUMP_VAR@ { st.dump_spec() } else { st.resolve_spec(path[0]@) }
}
/// the value reached from v by the attributes path[1..=upto]; None as soon as one is missing
pub open spec fn follow(v: Value, path: Seq<String>, upto: int) -> Option<Value> decreases upto {
    if upto <= 0 { Some(v) } else {
        match follow(v, path, upto - 1) { Some(c) => c.attr_spec(path[upto]@), None => None }
    }
}

// ---- LoadPath: the one-level-undefined rule over a whole path
/// walking attributes path[k+1..=n] from cur: an undefined intermediate value or a missing *inner*
/// field is an error; a missing *last* field is undefined (not an error)
pub open spec fn lp_walk(cur: Value, path: Seq<String>, k: int, n: int) -> Result<Value, ()>
    decreases n - k
{
    if k >= n { Ok(cur) }
    else if cur.undefined_spec() { Err(()) }
    else {
        match cur.attr_spec(path[k + 1]@) {
            Some(next) => lp_walk(next, path, k + 1, n),
            None => if k + 1 < n { Err(()) } else { Ok(Value::the_undefined()) },
        }
    }
}
impl Value {
    pub uninterp spec fn the_undefined() -> Value;
    #[verifier::external_body]
    pub fn undefined() -> (r: Value) ensures r == Self::the_undefined(), r.undefined_spec() { unimplemented!() }
}
impl Clone for Value { #[verifier::external_body] fn clone(&self) -> (r: Value) ensures r == *self { unimplemented!() } }

// ---- C09, semantic half at the level of the arm contracts: the fused arms compute what the
// unfused sequence LoadName; LoadAttr*; (WriteTop) computes (modulo error message and position).
/// the (non-optional) LoadAttr arm's contract as a function: undefined base => error, else the
/// attribute or undefined
pub open spec fn la_step(a: Value, attr: Seq<char>) -> Result<Value, ()> {
    if a.undefined_spec() { Err(()) } else { Ok(match a.attr_spec(attr) { Some(v) => v, None => Value::the_undefined() }) }
}
/// LoadName; LoadAttr(path[k+1]); ...; LoadAttr(path[n]) run one after the other from cur
pub open spec fn seq_walk(cur: Value, path: Seq<String>, k: int, n: int) -> Result<Value, ()>
    decreases n - k
{
    if k >= n { Ok(cur) } else {
        match la_step(cur, path[k + 1]@) { Ok(v) => seq_walk(v, path, k + 1, n), Err(e) => Err(e) }
    }
}
/// facts about Value that the lemmas rest on: `Value::undefined()` is undefined (its contract), and
/// an undefined value has no attributes (`get_attr` looks into maps only)
pub open spec fn value_facts() -> bool {
    &&& Value::the_undefined().undefined_spec()
    &&& forall|v: Value, a: Seq<char>| v.undefined_spec() ==> (#[trigger] v.attr_spec(a)) is None
}
/// LoadPath == LoadName; LoadAttr*   (same success/failure, same value)
pub proof fn lemma_load_path_is_sequential(cur: Value, path: Seq<String>, k: int, n: int)
    requires value_facts(), 0 <= k <= n
    ensures
        lp_walk(cur, path, k, n) is Ok == seq_walk(cur, path, k, n) is Ok,
        lp_walk(cur, path, k, n) is Ok ==> lp_walk(cur, path, k, n)->Ok_0 == seq_walk(cur, path, k, n)->Ok_0,
    decreases n - k
{
    if k < n && !cur.undefined_spec() {
        match cur.attr_spec(path[k + 1]@) {
            Some(next) => { lemma_load_path_is_sequential(next, path, k + 1, n); }
            None => {
                // unfused: undefined is pushed, and the next LoadAttr (if any) fails on it
                if k + 1 < n { assert(seq_walk(Value::the_undefined(), path, k + 1, n) is Err); }
            }
        }
    }
}
/// what WritePath renders / whether it fails, as a function (its arm contract)
pub open spec fn write_path_result(root: Value, path: Seq<String>, n: int) -> Option<Value> {
    if root.undefined_spec() { None } else {
        match follow(root, path, n) { Some(v) => if v.undefined_spec() { None } else { Some(v) }, None => None }
    }
}
/// what LoadPath; WriteTop renders / whether it fails (their arm contracts composed)
pub open spec fn load_then_write_result(root: Value, path: Seq<String>, n: int) -> Option<Value> {
    if n == 0 { if root.undefined_spec() { None } else { Some(root) } }
    else if root.undefined_spec() { None }
    else { match lp_walk(root, path, 0, n) { Ok(v) => if v.undefined_spec() { None } else { Some(v) }, Err(_) => None } }
}
pub proof fn lemma_follow_vs_walk(cur: Value, path: Seq<String>, k: int, n: int)
    requires value_facts(), 0 <= k <= n
    ensures
        // walking from position k: follow succeeds with a defined value iff lp_walk does, same value
        ({
            let f = follow_from(cur, path, k, n);
            let w = lp_walk(cur, path, k, n);
            &&& (f is Some && !f->Some_0.undefined_spec()) == (w is Ok && !w->Ok_0.undefined_spec())
            &&& (f is Some && !f->Some_0.undefined_spec()) ==> f->Some_0 == w->Ok_0
        }),
    decreases n - k
{
    if k < n {
        if cur.undefined_spec() {
            assert(cur.attr_spec(path[k + 1]@) is None);
        } else {
            match cur.attr_spec(path[k + 1]@) {
                Some(next) => { lemma_follow_vs_walk(next, path, k + 1, n); }
                None => { }
            }
        }
    }
}
/// follow, counted from position k (follow(v, path, n) == follow_from(v, path, 0, n))
pub open spec fn follow_from(cur: Value, path: Seq<String>, k: int, n: int) -> Option<Value>
    decreases n - k
{
    if k >= n { Some(cur) } else {
        match cur.attr_spec(path[k + 1]@) { Some(next) => follow_from(next, path, k + 1, n), None => None }
    }
}
pub proof fn lemma_follow_from(v: Value, path: Seq<String>, k: int, n: int)
    requires 0 <= k <= n
    ensures follow(v, path, n) == (match follow(v, path, k) { Some(c) => follow_from(c, path, k, n), None => None })
    decreases n - k
{
    if k < n {
        lemma_follow_from(v, path, k + 1, n);
        // follow(v, path, k+1) unfolds to follow(v, path, k) then one attribute
    }
}
/// WritePath == LoadPath; WriteTop   (same success/failure, same value written)
pub proof fn lemma_write_path_is_load_then_write(root: Value, path: Seq<String>, n: int)
    requires value_facts(), 0 <= n
    ensures write_path_result(root, path, n) == load_then_write_result(root, path, n)
{
    lemma_follow_vs_walk(root, path, 0, n);
    lemma_follow_from(root, path, 0, n);
}

// what a registered filter / test returns for (value, kwargs, state): uninterpreted
pub uninterp spec fn filter_result(f: &StoredFilter, v: Value, k: Value, st: State) -> Result<Value, ()>;
pub uninterp spec fn test_result(f: &StoredTest, v: Value, k: Value, st: State) -> Result<bool, ()>;
pub uninterp spec fn kw_of(k: &Kwargs) -> Value;
impl StoredFilter {
    #[verifier::external_body]
    pub fn call(&self, value: &Value, kwargs: Kwargs, state: &State) -> (r: TeraResult<Value>)
        ensures r is Ok == filter_result(self, *value, kw_of(&kwargs), *state) is Ok,
                r is Ok ==> r->Ok_0 == filter_result(self, *value, kw_of(&kwargs), *state)->Ok_0
    { unimplemented!() }
}
impl StoredTest {
    #[verifier::external_body]
    pub fn call(&self, value: &Value, kwargs: Kwargs, state: &State) -> (r: TeraResult<bool>)
        ensures r is Ok == test_result(self, *value, kw_of(&kwargs), *state) is Ok,
                r is Ok ==> r->Ok_0 == test_result(self, *value, kw_of(&kwargs), *state)->Ok_0
    { unimplemented!() }
}
/// `&self.tera.filters[name]` / `&self.tera.tests[name]`: the name was validated when the templates
/// were added (C07's undecided part): presence assumed, not proved
pub uninterp spec fn filter_named(t: &Tera, name: Seq<char>) -> StoredFilter;
pub uninterp spec fn test_named(t: &Tera, name: Seq<char>) -> StoredTest;
#[verifier::external_body]
pub fn vx_lookup_filter<'a>(t: &'a Tera, name: &str) -> (r: &'a StoredFilter) ensures *r == filter_named(t, name@) { unimplemented!() }
#[verifier::external_body]
pub fn vx_lookup_test<'a>(t: &'a Tera, name: &str) -> (r: &'a StoredTest) ensures *r == test_named(t, name@) { unimplemented!() }
/// `Kwargs::new(kwargs.into_map_arc().unwrap())`: the compiler always builds the kwargs map (assumed)
#[verifier::external_body]
pub fn vx_kwargs_of(k: Value) -> (r: Kwargs) ensures kw_of(&r) == k { unimplemented!() }

// ---- inheritance dispatch (C04): RenderBlock and super()
/// the lineage the registry computed for a block of this VM's template (most-derived first);
/// None when absent or empty (finalize_templates builds it: not decided here)
pub uninterp spec fn lineage_spec(t: &Template, block: Seq<char>) -> Option<&Vec<Chunk>>;
#[verifier::external_body]
pub fn vx_lineage_of<'a>(t: &'a Template, block: &String) -> (r: Option<&'a Vec<Chunk>>)
    ensures r == lineage_spec(t, block@), r is Some ==> r->Some_0.len() > 0
{ unimplemented!() }
/// Option::replace
#[verifier::external_body]
pub fn vx_option_replace<T>(o: &mut Option<T>, v: T) -> (r: Option<T>)
    ensures r == *old(o), *final(o) == Some(v)
{ unimplemented!() }
#[verifier::external_body]
pub fn vx_opt_str_eq(a: Option<&str>, b: Option<&str>) -> (r: bool) ensures r == ((a is None && b is None) || (a is Some && b is Some && a->Some_0@ == b->Some_0@)) { unimplemented!() }
/// `blocks.iter().rposition(|e| e.0 == name).expect(..)`: the topmost entry for that block
#[verifier::external_body]
pub fn vx_rposition_block<'t>(blocks: &Vec<(&'t str, &'t Vec<Chunk>, usize)>, name: &str) -> (r: usize)
    requires exists|i: int| 0 <= i < blocks.len() && #[trigger] blocks[i].0@ == name@
    ensures r < blocks.len(), blocks[r as int].0@ == name@,
            forall|i: int| r < i < blocks.len() ==> #[trigger] blocks[i].0@ != name@
{ unimplemented!() }
/// `blocks[pos].2 = level`
#[verifier::external_body]
pub fn vx_set_level<'t>(blocks: &mut Vec<(&'t str, &'t Vec<Chunk>, usize)>, pos: usize, level: usize)
    requires pos < old(blocks).len()
    ensures final(blocks)@ == old(blocks)@.update(pos as int, (old(blocks)[pos as int].0, old(blocks)[pos as int].1, level))
{ unimplemented!() }
/// `std::mem::take(&mut state.capture_buffers)`
#[verifier::external_body]
pub fn vx_take_caps(v: &mut Vec<VxWriter>) -> (r: Vec<VxWriter>)
    ensures r == *old(v), final(v).len() == 0
{ unimplemented!() }
#[verifier::external_body]
pub struct StoredFunction { _p: () }
impl StoredFunction {
    pub uninterp spec fn safe_spec(&self) -> bool;
    #[verifier::external_body]
    pub fn is_safe(&self) -> (r: bool) ensures r == self.safe_spec() { unimplemented!() }
    #[verifier::external_body]
    pub fn call(&self, kwargs: Kwargs, state: &State) -> TeraResult<Value> { unimplemented!() }
}
pub uninterp spec fn function_named(t: &Tera, name: Seq<char>) -> StoredFunction;
#[verifier::external_body]
pub fn vx_lookup_function<'a>(t: &'a Tera, name: &str) -> (r: &'a StoredFunction) ensures *r == function_named(t, name@) { unimplemented!() }
impl<'tera> VirtualMachine<'tera> {
    /// re-entry into the interpreter (RenderBlock, super()): the inductive hypothesis — it leaves the
    /// block bookkeeping, the current chunk, the capture stack depth and the value stack as it found
    /// them (each arm restores what it changes; assumed here, proved per arm where extracted)
    #[verifier::external_body]
    pub fn interpret(&self, state: &mut State<'tera>, output: &mut VxWriter) -> (r: TeraResult<()>)
        ensures
            final(state).blocks == old(state).blocks,
            final(state).current_block_name == old(state).current_block_name,
            final(state).chunk == old(state).chunk,
            final(state).capture_buffers@.len() == old(state).capture_buffers@.len(),
            final(state).stack == old(state).stack,
            final(state).capture_block == old(state).capture_block,
            old(output).bytes@.is_prefix_of(final(output).bytes@),
            // with no capture open, what the body writes goes to `output` - appended, all of it; with a
            // capture open its top-level writes go to the capture instead (nothing is promised then)
            (r is Ok && old(state).capture_buffers@.len() == 0) ==>
                final(output).bytes@ == old(output).bytes@ + body_text(old(state).chunk, blocks_key(old(state).blocks@)),
    { unimplemented!() }
}
/// the text the body of `chunk` writes when run with the block stack `blocks` (names by content) and the rest of
/// the state, which the RenderBlock arm does not touch between its entry and the nested run
pub uninterp spec fn body_text<'t>(chunk: Option<&'t Chunk>, blocks: Seq<(Seq<char>, &'t Vec<Chunk>, usize)>) -> Seq<u8>;
pub open spec fn blocks_key<'t>(blocks: Seq<(&'t str, &'t Vec<Chunk>, usize)>) -> Seq<(Seq<char>, &'t Vec<Chunk>, usize)> {
    blocks.map_values(|e: (&'t str, &'t Vec<Chunk>, usize)| (e.0@, e.1, e.2))
}
pub broadcast proof fn lemma_blocks_key_push<'t>(blocks: Seq<(&'t str, &'t Vec<Chunk>, usize)>, e: (&'t str, &'t Vec<Chunk>, usize))
    ensures #[trigger] blocks_key(blocks.push(e)) == blocks_key(blocks).push((e.0@, e.1, e.2))
{
    assert(blocks_key(blocks.push(e)) =~= blocks_key(blocks).push((e.0@, e.1, e.2)));
}
#[verifier::external_body]
pub fn vx_str_eq_str(a: &str, b: &str) -> (r: bool) ensures r == (a@ == b@) { unimplemented!() }
