pub enum Scope { Loop, Capture, Neither }
/// looking outwards from the keyword (the last context is the innermost): which comes first, a for loop or a capture
pub open spec fn innermost(cs: Seq<BodyContext>, n: int) -> Scope
    decreases n
{
    if n <= 0 { Scope::Neither } else {
        match cs[n - 1] {
            BodyContext::ForLoop => Scope::Loop,
            BodyContext::Capture => Scope::Capture,
            _ => innermost(cs, n - 1),
        }
    }
}
