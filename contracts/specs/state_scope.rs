// ---- the documented resolution order, as a spec ----
pub open spec fn loops_lookup(loops: Seq<ForLoop>, name: Name, upto: int) -> Option<Value> decreases upto {
    // innermost (last) first among loops[0..upto)
    if upto <= 0 { None } else {
        match loops[upto - 1].get_spec(name) { Some(v) => Some(v), None => loops_lookup(loops, name, upto - 1) }
    }
}
pub open spec fn depth(s: &State) -> nat decreases s {
    match s.include_parent { Some(p) => 1 + depth(p), None => 0 }
}
pub open spec fn resolve(s: &State, name: Name) -> Value decreases s {
    match loops_lookup(s.for_loops@, name, s.for_loops.len() as int) {
        Some(v) => v,
        None => match s.set_variables.get_spec(name) {
            Some(v) => v,
            None => {
                let from_parent = match s.include_parent { Some(p) => resolve(p, name), None => Value::the_undefined() };
                if s.include_parent is Some && !from_parent.undefined_spec() { from_parent }
                else { match s.context.data.get_spec(name) {
                    Some(v) => v,
                    None => match s.global_context {
                        Some(g) => match g.data.get_spec(name) { Some(v) => v, None => Value::the_undefined() },
                        None => Value::the_undefined(),
                    }
                } }
            }
        }
    }
}

