/// what a run of `interpret` writes to its output / leaves in the block buffer (uninterpreted:
/// a function of the VM and the initial state — rendering is deterministic in its inputs)
pub uninterp spec fn interp_out(vm: &VirtualMachine, s0: State) -> Seq<u8>;
pub uninterp spec fn interp_block(vm: &VirtualMachine, s0: State) -> Seq<u8>;
impl<'tera> VirtualMachine<'tera> {
    #[verifier::external_body]
    pub fn interpret(&self, state: &mut State<'tera>, output: &mut VxWriter) -> (r: TeraResult<()>)
        ensures
            r is Ok ==> final(output).bytes@ == old(output).bytes@ + interp_out(self, *old(state)),
            r is Ok ==> final(state).block_buffer@ == interp_block(self, *old(state)),
    { unimplemented!() }
}
