/// what a run of `interpret` writes to its output / leaves in the block buffer (uninterpreted:
/// a function of the VM and the initial state — rendering is deterministic in its inputs)
pub uninterp spec fn interp_out(vm: &VirtualMachine, s0: State) -> Seq<u8>;
pub uninterp spec fn interp_block(vm: &VirtualMachine, s0: State) -> Seq<u8>;
impl<'tera> VirtualMachine<'tera> {
    #[verifier::external_body]
    pub fn interpret(&self, state: &mut State<'tera>, output: &mut VxWriter) -> (r: TeraResult<()>)
        ensures
            r is Ok ==> final(output).bytes@ == old(output).bytes@ + interp_out(self, *old(state)),
            r is Ok ==> final(state).block_buffer@ == interp_block(self, *old(state)),
    { unimplemented!() }
}
/// the state a render starts from: the caller's context as the user context, the given global context, and the
/// block to capture (none for a full render)
pub open spec fn started(s: State, context: &Context, gctx: &Context, block: Option<&str>) -> bool {
    &&& s.context == context
    &&& s.global_context == Some(gctx)
    &&& match block { Some(b) => s.capture_block is Some && s.capture_block->Some_0@ == b@, None => s.capture_block is None }
}
/// what render_to writes into an empty writer that never fails (its own contract: obligation vm_render/render_to)
pub uninterp spec fn rt_spec(vm: VirtualMachine, block: Option<Seq<char>>, ctx: &Context, gctx: &Context) -> Result<Seq<u8>, Error>;
pub uninterp spec fn utf8_text(b: Seq<u8>) -> Option<Seq<char>>;
/// `self.render_to(block, ctx, gctx, &mut vec)`: a Vec<u8> never fails, so the call fails only if rendering does
#[verifier::external_body]
pub fn vx_render_to_mut<'tera>(vm: &mut VirtualMachine<'tera>, block: Option<&str>, ctx: &Context, gctx: &Context, out: &mut VxWriter) -> (r: TeraResult<()>)
    requires old(out).bytes@.len() == 0
    ensures
        r is Ok <==> rt_spec(*old(vm), (match block { Some(b) => Some(b@), None => None::<Seq<char>> }), ctx, gctx) is Ok,
        r is Ok ==> final(out).bytes@ == rt_spec(*old(vm), (match block { Some(b) => Some(b@), None => None::<Seq<char>> }), ctx, gctx)->Ok_0
{ unimplemented!() }
#[verifier::external_body]
pub fn vx_new_writer() -> (r: VxWriter) ensures r.bytes@.len() == 0 { unimplemented!() }
#[verifier::external_body]
pub struct VxUtf8Error { _p: () }
impl Error { #[verifier::external_body] pub fn from_utf8(e: VxUtf8Error) -> Error { unimplemented!() } }
/// `String::from_utf8(vec)`
#[verifier::external_body]
pub fn vx_string_from_writer(w: VxWriter) -> (r: Result<String, VxUtf8Error>)
    ensures r is Ok <==> utf8_text(w.bytes@) is Some, r is Ok ==> r->Ok_0@ == utf8_text(w.bytes@)->Some_0
{ unimplemented!() }
