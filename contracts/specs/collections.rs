/// v is the first of its class in s[..=i]: no earlier element compares Equal to s[i]
pub open spec fn first_of_class(s: Seq<Value>, i: int) -> bool { forall|j: int| 0 <= j < i ==> !veq(#[trigger] s[j], s[i]) }
/// res lists, in order, exactly the positions of s[..n] that are first of their class
pub open spec fn unique_upto(s: Seq<Value>, n: int, res: Seq<Value>, pos: Seq<int>) -> bool {
    &&& pos.len() == res.len()
    &&& forall|k: int| 0 <= k < res.len() ==> 0 <= #[trigger] pos[k] < n && res[k] == s[pos[k]] && first_of_class(s, pos[k])
    &&& forall|k: int, l: int| 0 <= k < l < res.len() ==> pos[k] < pos[l]
    &&& forall|i: int| 0 <= i < n && first_of_class(s, i) ==> exists|k: int| 0 <= k < res.len() && #[trigger] pos[k] == i
}
/// every class has a first member: below (or at) j there is a first-of-class element Equal to s[j]
pub proof fn lemma_first_rep(s: Seq<Value>, j: int)
    requires 0 <= j < s.len()
    ensures exists|f: int| 0 <= f <= j && first_of_class(s, f) && veq(#[trigger] s[f], s[j])
    decreases j
{
    broadcast use order_laws;
    if first_of_class(s, j) {
        assert(veq(s[j], s[j]));
    } else {
        let j2 = choose|j2: int| 0 <= j2 < j && veq(#[trigger] s[j2], s[j]);
        lemma_first_rep(s, j2);
        let f = choose|f: int| 0 <= f <= j2 && first_of_class(s, f) && veq(#[trigger] s[f], s[j2]);
        assert(veq(s[f], s[j]));
    }
}

impl Value {
    pub uninterp spec fn kind_spec(&self) -> ValueKind;
    #[verifier::external_body]
    pub fn kind(&self) -> (r: ValueKind) ensures r == self.kind_spec() { unimplemented!() }
}
