/// C20 for base64: whatever options were used to encode, decoding with the same `url_safe` gives the text back
pub proof fn lemma_b64_lossless(url_safe: bool, pad: bool, s: Seq<char>)
    ensures dec_text(url_safe, enc_text(url_safe, pad, s)) == Some(s)
{
    axiom_b64_roundtrip(url_safe, pad, s);
}
