impl<'a> Parser<'a> {
    #[verifier::external_body]
    pub fn parse_expr_bp(&mut self, min_bp: u8) -> (r: TeraResult<Expression>)
        requires old(self).recursion_depth <= MAX_RECURSION_DEPTH
        ensures final(self).recursion_depth == old(self).recursion_depth
    { unimplemented!() }
    #[verifier::external_body]
    pub fn parse_until_inner<F: Fn(&Token) -> bool>(&mut self, end_check_fn: F) -> (r: TeraResult<Vec<Node>>)
        requires old(self).recursion_depth <= MAX_RECURSION_DEPTH
        ensures final(self).recursion_depth == old(self).recursion_depth
    { unimplemented!() }
}
