/// the context key an entry's key becomes
pub open spec fn key_text(k: Key) -> Seq<char> {
    match k {
        Key::String(s) => s.text(), Key::Str(s) => s@, Key::Bool(b) => bool_text(b),
        Key::U64(u) => dec_u(u as int), Key::I64(i) => dec_u(i as int), Key::U128(u) => dec_u(u as int), Key::I128(i) => dec_u(i as int),
    }
}
/// `d` holds the entries es[from..]: exactly their key texts, and under a text that only one of ALL entries has, that entry's value
pub open spec fn filled(d: vstd::map::Map<Seq<char>, Value>, es: Seq<(Key<'static>, Value)>, from: int) -> bool {
    &&& forall|t: Seq<char>| #[trigger] d.dom().contains(t) <==> exists|i: int| from <= i < es.len() && #[trigger] key_text(es[i].0) == t
    &&& forall|i: int| from <= i < es.len() && lone(es, i) ==> d[#[trigger] key_text(es[i].0)] == es[i].1
}
pub open spec fn lone(es: Seq<(Key<'static>, Value)>, i: int) -> bool {
    forall|j: int| 0 <= j < es.len() && j != i ==> key_text(#[trigger] es[j].0) != key_text(es[i].0)
}
pub proof fn lemma_filled_step(d0: vstd::map::Map<Seq<char>, Value>, es: Seq<(Key<'static>, Value)>, k: int, d1: vstd::map::Map<Seq<char>, Value>)
    requires 0 <= k < es.len(), filled(d0, es, k + 1), d1 == d0.insert(key_text(es[k].0), es[k].1)
    ensures filled(d1, es, k)
{
    assert forall|t: Seq<char>| #[trigger] d1.dom().contains(t) <==> exists|i: int| k <= i < es.len() && #[trigger] key_text(es[i].0) == t by {
        if d0.dom().contains(t) { let i = choose|i: int| k + 1 <= i < es.len() && #[trigger] key_text(es[i].0) == t; assert(k <= i < es.len() && key_text(es[i].0) == t); }
        if exists|i: int| k <= i < es.len() && #[trigger] key_text(es[i].0) == t {
            let i = choose|i: int| k <= i < es.len() && #[trigger] key_text(es[i].0) == t;
            if i > k { assert(k + 1 <= i < es.len() && key_text(es[i].0) == t); }
        }
    }
    assert forall|i: int| k <= i < es.len() && lone(es, i) implies d1[#[trigger] key_text(es[i].0)] == es[i].1 by {
        if i > k { assert(key_text(es[k].0) != key_text(es[i].0)); }
    }
}
