/// abstract protocol state of a `for` loop: `all` = every item of the container, `k` = number of
/// advances done so far.  This is the documented meaning of loop.index0 / first / last / length.
pub open spec fn inv(fl: &ForLoop, all: Seq<(Option<Value>, Value)>, k: int) -> bool {
    &&& 0 <= k <= all.len()
    &&& all.len() < usize::MAX
    &&& fl.iterator.rest() == all.subrange(k, all.len() as int)
    &&& fl.loop_data.length == all.len()
    &&& fl.iterated == (k >= 1)
    &&& (k >= 1 ==> fl.current_values == all[k - 1])
    // loop.index0 / first / last as documented, for the iteration being rendered
    &&& (k <= 1 ==> fl.loop_data.index0 == 0 && fl.loop_data.first)
    &&& (k >= 1 ==> fl.loop_data.index0 == k - 1 && fl.loop_data.first == (k == 1) && fl.loop_data.last == (k == all.len()))
    &&& (k == 0 ==> fl.loop_data.last == (all.len() == 1))
    // interpreter convention: end_ip is 0 exactly until the first Iterate has run
    &&& (fl.end_ip == 0) == (k == 0)
}
