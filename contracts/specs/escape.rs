// C01/C18: the default escaper.  esc maps & < > " ' to the five entities and every other byte to itself.
pub open spec fn esc_byte(c: u8) -> Seq<u8> {
    if c == 38 { seq![38u8, 97, 109, 112, 59] }        // &amp;
    else if c == 60 { seq![38u8, 108, 116, 59] }       // &lt;
    else if c == 62 { seq![38u8, 103, 116, 59] }       // &gt;
    else if c == 34 { seq![38u8, 113, 117, 111, 116, 59] } // &quot;
    else if c == 39 { seq![38u8, 35, 51, 57, 59] }     // &#39;
    else { seq![c] }
}
pub open spec fn esc(s: Seq<u8>) -> Seq<u8> decreases s.len() {
    if s.len() == 0 { seq![] } else { esc(s.drop_last()) + esc_byte(s.last()) }
}
pub open spec fn dangerous(c: u8) -> bool { c == 60 || c == 62 || c == 34 || c == 39 }

pub proof fn lemma_esc_byte_safe(c: u8)
    ensures forall|i: int| 0 <= i < esc_byte(c).len() ==> !dangerous(#[trigger] esc_byte(c)[i])
{}

pub proof fn lemma_esc_safe(s: Seq<u8>)
    ensures forall|i: int| 0 <= i < esc(s).len() ==> !dangerous(#[trigger] esc(s)[i])
    decreases s.len()
{
    if s.len() > 0 {
        lemma_esc_safe(s.drop_last());
        lemma_esc_byte_safe(s.last());
        let a = esc(s.drop_last()); let b = esc_byte(s.last());
        assert(esc(s) == a + b);
        assert forall|i: int| 0 <= i < esc(s).len() implies !dangerous(#[trigger] esc(s)[i]) by {
            if i < a.len() { assert(esc(s)[i] == a[i]); } else { assert(esc(s)[i] == b[i - a.len()]); }
        }
    }
}

pub proof fn lemma_esc_take_step(all: Seq<u8>, k: int)
    requires 0 <= k < all.len()
    ensures esc(all.take(k + 1)) == esc(all.take(k)) + esc_byte(all[k])
{
    assert(all.take(k + 1).drop_last() == all.take(k));
    assert(all.take(k + 1).last() == all[k]);
}

pub proof fn lemma_esc_prefix(all: Seq<u8>, k: int)
    requires 0 <= k <= all.len()
    ensures esc(all.take(k)).is_prefix_of(esc(all))
    decreases all.len() - k
{
    if k == all.len() {
        assert(all.take(k) == all);
    } else {
        lemma_esc_take_step(all, k);
        lemma_esc_prefix(all, k + 1);
    }
}

pub broadcast proof fn lemma_prefix_trans(a: Seq<u8>, b: Seq<u8>, c: Seq<u8>)
    requires #[trigger] a.is_prefix_of(b), #[trigger] b.is_prefix_of(c)
    ensures a.is_prefix_of(c)
{
    assert forall|i: int| 0 <= i < a.len() implies a[i] == c[i] by { assert(a[i] == b[i]); assert(b[i] == c[i]); }
}


/// "<", ">", '"' and "'" never occur in escaped output; hence no markup can be opened from data
pub proof fn lemma_esc_no_dangerous(s: Seq<u8>)
    ensures forall|i: int| 0 <= i < esc(s).len() ==> !dangerous(#[trigger] esc(s)[i])
{ lemma_esc_safe(s); }
