// Python slice semantics (spec), after CPython's PySlice_AdjustIndices.  Division-free on
// purpose: the selected positions are s, s+step, s+2*step, ... for as long as they are on the
// near side of e.
pub open spec fn py_bound(param: Option<i128>, default: int, len: int, lo: int, hi: int) -> int {
    match param {
        None => default,
        Some(p) => {
            let q = if p < 0 { p + len } else { p as int };
            if q < lo { lo } else if q > hi { hi } else { q }
        }
    }
}
pub open spec fn py_start(start: Option<i128>, len: int, step: int) -> int {
    if step > 0 { py_bound(start, 0, len, 0, len) } else { py_bound(start, len - 1, len, -1, len - 1) }
}
pub open spec fn py_stop(end: Option<i128>, len: int, step: int) -> int {
    if step > 0 { py_bound(end, len, len, 0, len) } else { py_bound(end, -1, len, -1, len - 1) }
}
/// position k of the selection, and whether position k is selected
pub open spec fn py_pos(s: int, step: int, k: int) -> int { s + k * step }
pub open spec fn py_sel(s: int, e: int, step: int, k: int) -> bool {
    if step > 0 { py_pos(s, step, k) < e } else { py_pos(s, step, k) > e }
}
