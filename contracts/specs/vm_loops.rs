/// a `{% set %}`: inside a loop only the innermost loop's locals change; outside, the set variables
pub open spec fn stored_locally(s0: &State, s1: &State, name: Name, v: Value) -> bool {
    if s0.for_loops.len() > 0 {
        &&& s1.for_loops@.len() == s0.for_loops@.len()
        &&& s1.for_loops@.drop_last() == s0.for_loops@.drop_last()
        &&& s1.for_loops@.last().locals_spec() == s0.for_loops@.last().locals_spec().insert(name, v)
        &&& s1.for_loops@.last().rest_spec() == s0.for_loops@.last().rest_spec()
        &&& s1.set_variables.view_spec() == s0.set_variables.view_spec()
    } else {
        stored_globally(s0, s1, name, v)
    }
}
pub open spec fn stored_globally(s0: &State, s1: &State, name: Name, v: Value) -> bool {
    s1.for_loops@ == s0.for_loops@ && s1.set_variables.view_spec() == s0.set_variables.view_spec().insert(name, v)
}
