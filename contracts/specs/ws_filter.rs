/// the token opens with a `-` facing the text before it
pub open spec fn dash_start(t: Item) -> bool {
    t is Ok && match t->Ok_0.0 {
        Token::VariableStart(b) => b, Token::TagStart(b) => b, Token::Comment(b, _) => b, Token::RawContent(b, _, _) => b,
        _ => false,
    }
}
/// the token closes with a `-` facing the text after it
pub open spec fn dash_end(t: Item) -> bool {
    t is Ok && match t->Ok_0.0 {
        Token::VariableEnd(b) => b, Token::TagEnd(b) => b, Token::Comment(_, b) => b, Token::RawContent(_, _, b) => b,
        _ => false,
    }
}
/// C08: a literal text loses exactly the whitespace at the end facing a `-` of the DIRECTLY adjacent token
pub open spec fn out_text(d: Seq<char>, prev_dash: bool, next_dash: bool) -> Seq<char> {
    let d1 = if prev_dash { trim_start_spec(d) } else { d };
    if next_dash { trim_end_spec(d1) } else { d1 }
}
/// what the filter emits for token `t` standing between `prev_dash` and the token after it
pub open spec fn emit_ok(t: Item, prev_dash: bool, next_dash: bool, o: Item) -> bool {
    if t is Ok {
        match t->Ok_0.0 {
            Token::Content(d) => o is Ok && o->Ok_0.1 == t->Ok_0.1 && o->Ok_0.0 is Content && o->Ok_0.0->Content_0@ == out_text(d@, prev_dash, next_dash),
            Token::RawContent(_, d, _) => o is Ok && o->Ok_0.1 == t->Ok_0.1 && o->Ok_0.0 is Content && o->Ok_0.0->Content_0@ == out_text(d@, prev_dash, next_dash),
            // comments produce nothing
            Token::Comment(_, _) => o is Ok && o->Ok_0.1 == t->Ok_0.1 && o->Ok_0.0 is Content && o->Ok_0.0->Content_0@.len() == 0,
            _ => o == t,
        }
    } else { o == t }
}
/// one call of the filter closure: `carry` is "the token just before ended with `-`"
pub open spec fn step_post(rest0: Seq<Item>, carry0: bool, r: Option<Item>, rest1: Seq<Item>, carry1: bool) -> bool {
    if rest0.len() == 0 { r is None && rest1 == rest0 }
    else {
        &&& r is Some
        &&& rest1 == rest0.skip(1)
        &&& emit_ok(rest0[0], carry0, rest0.len() > 1 && dash_start(rest0[1]), r->Some_0)
        // the carry depends on the directly preceding token and on nothing older
        &&& carry1 == dash_end(rest0[0])
    }
}
pub open spec fn prev_dash(ts: Seq<Item>, i: int) -> bool { i > 0 && dash_end(ts[i - 1]) }
pub open spec fn next_dash(ts: Seq<Item>, i: int) -> bool { i + 1 < ts.len() && dash_start(ts[i + 1]) }
/// a whole run of the filter over the token stream `ts`: call i consumes ts[i] and yields outs[i];
/// carries[i] is the closure's captured flag before call i (false when the filter is created)
pub open spec fn run_ok(ts: Seq<Item>, outs: Seq<Item>, carries: Seq<bool>) -> bool {
    &&& outs.len() == ts.len() && carries.len() == ts.len() + 1 && !carries[0]
    &&& forall|i: int| 0 <= i < ts.len() ==> #[trigger] step_post(ts.skip(i), carries[i], Some(outs[i]), ts.skip(i + 1), carries[i + 1])
}
pub open spec fn local_ok(ts: Seq<Item>, outs: Seq<Item>, i: int) -> bool { emit_ok(ts[i], prev_dash(ts, i), next_dash(ts, i), outs[i]) }
/// C08 at stream level: what comes out at position i is decided by ts[i] and its two DIRECT
/// neighbours alone — a `-` reaches the adjacent text and nothing else
pub proof fn lemma_filter_is_local(ts: Seq<Item>, outs: Seq<Item>, carries: Seq<bool>)
    requires run_ok(ts, outs, carries)
    ensures forall|i: int| 0 <= i < ts.len() ==> #[trigger] local_ok(ts, outs, i)
{
    assert forall|i: int| 0 <= i < ts.len() implies #[trigger] local_ok(ts, outs, i) by {
        assert(step_post(ts.skip(i), carries[i], Some(outs[i]), ts.skip(i + 1), carries[i + 1]));
        assert(ts.skip(i)[0] == ts[i]);
        if i + 1 < ts.len() { assert(ts.skip(i)[1] == ts[i + 1]); }
        if i > 0 {
            assert(step_post(ts.skip(i - 1), carries[i - 1], Some(outs[i - 1]), ts.skip(i - 1 + 1), carries[i - 1 + 1]));
            assert(ts.skip(i - 1)[0] == ts[i - 1]);
        }
    }
}
/// corollary: where no neighbour carries a `-`, literal text goes through untouched
pub proof fn lemma_no_dash_is_verbatim(ts: Seq<Item>, outs: Seq<Item>, carries: Seq<bool>, i: int)
    requires run_ok(ts, outs, carries), 0 <= i < ts.len(), ts[i] is Ok, ts[i]->Ok_0.0 is Content,
        !prev_dash(ts, i), !next_dash(ts, i)
    ensures outs[i] is Ok, outs[i]->Ok_0.0 is Content, outs[i]->Ok_0.0->Content_0@ == ts[i]->Ok_0.0->Content_0@
{
    lemma_filter_is_local(ts, outs, carries);
    assert(local_ok(ts, outs, i));
}
