/// (line, column) after the first k characters of `s`, starting from (line, col): a newline starts a new
/// line at column 0, every other character is one column
pub open spec fn advance_fold(s: Seq<char>, k: int, line: int, col: int) -> (int, int)
    decreases k
{
    if k <= 0 { (line, col) } else {
        let (l, c) = advance_fold(s, k - 1, line, col);
        if s[k - 1] == '\n' { (l + 1, 0) } else { (l, c + 1) }
    }
}
