/// the pairs a vector of (&key, &value) refers to
pub open spec fn derefs<'a>(s: Seq<(&'a Key<'static>, &'a Value)>) -> Seq<(Key<'static>, Value)> {
    Seq::new(s.len(), |i: int| (*s[i].0, *s[i].1))
}
/// `s` lists the entries of `m`: every element is an entry, every key occurs, no key twice
pub open spec fn lists(s: Seq<(Key<'static>, Value)>, m: vstd::map::Map<Key<'static>, Value>) -> bool {
    &&& forall|i: int| 0 <= i < s.len() ==> m.dom().contains(#[trigger] s[i].0) && m[s[i].0] == s[i].1
    &&& forall|k: Key<'static>| m.dom().contains(k) ==> exists|i: int| 0 <= i < s.len() && #[trigger] s[i].0 == k
    &&& forall|i: int, j: int| 0 <= i < j < s.len() ==> #[trigger] s[i].0 != #[trigger] s[j].0
}
pub open spec fn ascending(s: Seq<(Key<'static>, Value)>) -> bool {
    forall|i: int, j: int| 0 <= i < j < s.len() ==> key_lt(#[trigger] s[i].0, #[trigger] s[j].0)
}
/// C18 (rendering is pure): the order in which a map's entries are visited is a function of the map's
/// CONTENT - the listing in ascending key order - and of nothing else (not of the hash state of the instance,
/// which differs between two renders for a map built at render time)
pub open spec fn canonical(s: Seq<(Key<'static>, Value)>, m: vstd::map::Map<Key<'static>, Value>) -> bool {
    lists(s, m) && ascending(s)
}
/// ... and it IS a function: two canonical listings of the same content are the same sequence
pub proof fn lemma_canonical_unique(s1: Seq<(Key<'static>, Value)>, s2: Seq<(Key<'static>, Value)>, m: vstd::map::Map<Key<'static>, Value>)
    requires canonical(s1, m), canonical(s2, m)
    ensures s1 == s2
    decreases s1.len()
{
    broadcast use axiom_key_lt_total;
    if s1.len() == 0 {
        if s2.len() > 0 { let k = s2[0].0; assert(m.dom().contains(k)); let i = choose|i: int| 0 <= i < s1.len() && #[trigger] s1[i].0 == k; }
        assert(s1 =~= s2);
    } else {
        let a = s1[0].0;
        assert(m.dom().contains(a));
        let j = choose|j: int| 0 <= j < s2.len() && #[trigger] s2[j].0 == a;
        let b = s2[0].0;
        assert(m.dom().contains(b));
        let i = choose|i: int| 0 <= i < s1.len() && #[trigger] s1[i].0 == b;
        // a is the least key of s1 and b the least key of s2, and each occurs in the other: a == b
        if j > 0 { assert(key_lt(s2[0].0, s2[j].0)); }
        if i > 0 { assert(key_lt(s1[0].0, s1[i].0)); }
        assert(a == b);
        assert(s1[0].1 == m[a] && s2[0].1 == m[a]);
        let m2 = m.remove(a);
        let t1 = s1.skip(1);
        let t2 = s2.skip(1);
        assert(canonical(t1, m2)) by {
            assert forall|k: Key<'static>| m2.dom().contains(k) implies exists|x: int| 0 <= x < t1.len() && #[trigger] t1[x].0 == k by {
                let y = choose|y: int| 0 <= y < s1.len() && #[trigger] s1[y].0 == k;
                assert(y > 0);
                assert(t1[y - 1].0 == k);
            }
            assert forall|x: int| 0 <= x < t1.len() implies m2.dom().contains(#[trigger] t1[x].0) && m2[t1[x].0] == t1[x].1 by {
                assert(t1[x] == s1[x + 1]);
                assert(key_lt(s1[0].0, s1[x + 1].0));
            }
            assert forall|x: int, y: int| 0 <= x < y < t1.len() implies key_lt(#[trigger] t1[x].0, #[trigger] t1[y].0) by {
                assert(t1[x] == s1[x + 1] && t1[y] == s1[y + 1]);
                assert(key_lt(s1[x + 1].0, s1[y + 1].0));
            }
        }
        assert(canonical(t2, m2)) by {
            assert forall|k: Key<'static>| m2.dom().contains(k) implies exists|x: int| 0 <= x < t2.len() && #[trigger] t2[x].0 == k by {
                let y = choose|y: int| 0 <= y < s2.len() && #[trigger] s2[y].0 == k;
                assert(y > 0);
                assert(t2[y - 1].0 == k);
            }
            assert forall|x: int| 0 <= x < t2.len() implies m2.dom().contains(#[trigger] t2[x].0) && m2[t2[x].0] == t2[x].1 by {
                assert(t2[x] == s2[x + 1]);
                assert(key_lt(s2[0].0, s2[x + 1].0));
            }
            assert forall|x: int, y: int| 0 <= x < y < t2.len() implies key_lt(#[trigger] t2[x].0, #[trigger] t2[y].0) by {
                assert(t2[x] == s2[x + 1] && t2[y] == s2[y + 1]);
                assert(key_lt(s2[x + 1].0, s2[y + 1].0));
            }
        }
        lemma_canonical_unique(t1, t2, m2);
        assert(s1 =~= seq![s1[0]] + t1);
        assert(s2 =~= seq![s2[0]] + t2);
    }
}
/// `s` is `s0` rearranged: position j of `s` holds what was at position p[j]; p is a bijection on positions
/// (q is its inverse)
pub open spec fn rearranged<T>(s0: Seq<T>, s: Seq<T>, p: Seq<int>, q: Seq<int>) -> bool {
    &&& s.len() == s0.len() && p.len() == s0.len() && q.len() == s0.len()
    &&& forall|j: int| 0 <= j < p.len() ==> 0 <= #[trigger] p[j] < s0.len() && s[j] == s0[p[j]] && q[p[j]] == j
    &&& forall|i: int| 0 <= i < q.len() ==> 0 <= #[trigger] q[i] < s0.len() && p[q[i]] == i
}
/// a sorted listing (what `sort_by` leaves of what `HashMap::iter` yields) is the canonical one
pub proof fn lemma_sorted_listing_is_canonical(s0: Seq<(Key<'static>, Value)>, s: Seq<(Key<'static>, Value)>, m: vstd::map::Map<Key<'static>, Value>, p: Seq<int>, q: Seq<int>)
    requires
        lists(s0, m), rearranged(s0, s, p, q),
        forall|i: int, j: int| 0 <= i < j < s.len() ==> !key_lt(#[trigger] s[j].0, #[trigger] s[i].0),
    ensures canonical(s, m)
{
    broadcast use axiom_key_lt_total;
    assert forall|k: Key<'static>| m.dom().contains(k) implies exists|x: int| 0 <= x < s.len() && #[trigger] s[x].0 == k by {
        let i = choose|i: int| 0 <= i < s0.len() && #[trigger] s0[i].0 == k;
        let j = q[i];
        assert(p[j] == i);
        assert(s[j].0 == k);
    }
    assert forall|x: int| 0 <= x < s.len() implies m.dom().contains(#[trigger] s[x].0) && m[s[x].0] == s[x].1 by {
        assert(s[x] == s0[p[x]]);
    }
    assert forall|x: int, y: int| 0 <= x < y < s.len() implies #[trigger] s[x].0 != #[trigger] s[y].0 by {
        assert(q[p[x]] == x && q[p[y]] == y);
        assert(p[x] != p[y]);
        if p[x] < p[y] { assert(s0[p[x]].0 != s0[p[y]].0); } else { assert(s0[p[y]].0 != s0[p[x]].0); }
    }
    assert forall|x: int, y: int| 0 <= x < y < s.len() implies key_lt(#[trigger] s[x].0, #[trigger] s[y].0) by {
        assert(!key_lt(s[y].0, s[x].0));
        assert(s[x].0 != s[y].0);
    }
}
