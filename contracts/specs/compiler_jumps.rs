/// a forward jump gets its target; every other instruction is left alone
pub open spec fn retarget(i: Instruction, t: usize) -> Instruction {
    match i {
        Instruction::Jump(_) => Instruction::Jump(t),
        Instruction::PopJumpIfFalse(_) => Instruction::PopJumpIfFalse(t),
        other => other,
    }
}
pub type Ins = Seq<(Instruction, Vec<Span>)>;
/// ASSUMED bound: a chunk stays far below the u32 range of instruction indices
pub open spec fn small(ins: Ins) -> bool { ins.len() < 0x4000_0000 }
pub open spec fn roomy(ins: Ins) -> bool { ins.len() < 0x7000_0000 }
pub open spec fn within(ins: Ins, k: int) -> bool { ins.len() <= 0x4000_0000 + k }
pub open spec fn prefix_of(a: Ins, b: Ins) -> bool { a.len() <= b.len() && b.take(a.len() as int) == a }
/// what compiling any node or expression keeps (the induction hypothesis for the recursive calls, and
/// part of every arm's own postcondition): earlier instructions untouched, open bodies closed again
pub open spec fn grown(c0: Compiler, c1: Compiler) -> bool {
    prefix_of(c0.chunk.instructions@, c1.chunk.instructions@) && c1.processing_bodies@ == c0.processing_bodies@
}
/// block bookkeeping kept by compiling any node: nesting depth as before; inside a block, no name is recorded for
/// the ancestor check (proved for compile_block; the other arms do not touch these fields - read, and part of the
/// induction hypothesis of compile_node)
pub open spec fn blocks_kept(c0: Compiler, c1: Compiler) -> bool {
    c1.block_depth == c0.block_depth && (c0.block_depth > 0 ==> c1.block_name_spans.names() == c0.block_name_spans.names())
}
impl Compiler {
    #[verifier::external_body]
    pub fn compile_expr(&mut self, e: Expression)
        requires roomy(old(self).chunk.instructions@)
        ensures grown(*old(self), *final(self)), small(final(self).chunk.instructions@), final(self).temp_variables@.len() == old(self).temp_variables@.len()
    { unimplemented!() }
    #[verifier::external_body]
    pub fn compile_node(&mut self, n: Node)
        requires roomy(old(self).chunk.instructions@)
        ensures grown(*old(self), *final(self)), small(final(self).chunk.instructions@), final(self).temp_variables@.len() == old(self).temp_variables@.len(),
            blocks_kept(*old(self), *final(self))
    { unimplemented!() }
}
pub proof fn lemma_prefix_trans(a: Ins, b: Ins, c: Ins)
    requires prefix_of(a, b), prefix_of(b, c)
    ensures prefix_of(a, c)
{
    assert(c.take(a.len() as int) =~= c.take(b.len() as int).take(a.len() as int));
}
/// the shape of a compiled if starting at n0: at idx the conditional jump, targeting the instruction right
/// after the true part's closing Jump (at jdx) when there is an else part, the end otherwise; that Jump targets the end
pub open spec fn if_shape(n0: int, ins: Ins, has_else: bool, idx: int, jdx: int) -> bool {
    &&& n0 <= idx < ins.len()
    &&& has_else ==> idx < jdx < ins.len() && ins[idx].0 == Instruction::PopJumpIfFalse((jdx + 1) as usize) && ins[jdx].0 == Instruction::Jump(ins.len() as usize)
    &&& !has_else ==> ins[idx].0 == Instruction::PopJumpIfFalse(ins.len() as usize)
}
/// the loop proper: Iterate at s exits to e, the instruction right after the back-jump (at e - 1) that returns to s;
/// at e the did-not-iterate flag is stored (for-else only) and the loop is popped
pub open spec fn loop_core(n0: int, ins: Ins, has_else: bool, s: int, e: int) -> bool {
    &&& n0 <= s < e - 1 && e < ins.len()
    &&& ins[s].0 == Instruction::Iterate(e as usize)
    &&& ins[e - 1].0 == Instruction::Jump(s as usize)
    &&& !has_else ==> ins[e].0 == Instruction::PopLoop
    &&& has_else ==> e + 2 < ins.len() && ins[e].0 == Instruction::StoreDidNotIterate && ins[e + 1].0 == Instruction::PopLoop
}
pub open spec fn loop_shape(n0: int, ins: Ins, has_else: bool, s: int, e: int) -> bool {
    &&& loop_core(n0, ins, has_else, s, e)
    // for-else: skip the else part (jump to the end) unless the loop did not iterate
    &&& has_else ==> ins[e + 2].0 == Instruction::PopJumpIfFalse(ins.len() as usize)
}
/// the start index recorded for the innermost open loop
pub open spec fn innermost_loop(bs: Seq<ProcessingBody>, n: int) -> Option<usize>
    decreases n
{
    if n <= 0 { None } else { match bs[n - 1] { ProcessingBody::Loop(i) => Some(i), _ => innermost_loop(bs, n - 1) } }
}
impl Compiler {
    /// `processing_bodies.iter().rev().find(|b| matches!(b, ProcessingBody::Loop(..)))`
    #[verifier::external_body]
    pub fn get_current_loop(&self) -> (r: Option<&ProcessingBody>)
        ensures
            r is Some <==> innermost_loop(self.processing_bodies@, self.processing_bodies@.len() as int) is Some,
            r is Some ==> *r->Some_0 == ProcessingBody::Loop(innermost_loop(self.processing_bodies@, self.processing_bodies@.len() as int)->Some_0)
    { unimplemented!() }
}
/// the instruction an operator compiles to (the documented operator table: `*` Mul, `/` Div, `%` Mod, `+` Plus, `-` Minus,
/// `//` FloorDiv, `**` Power, `<` `>` `<=` `>=` `==` `!=`, `~` StrConcat, `in` In)
pub open spec fn bin_instr(op: BinaryOperator) -> Instruction {
    match op {
        BinaryOperator::Mul => Instruction::Mul, BinaryOperator::Div => Instruction::Div, BinaryOperator::Mod => Instruction::Mod,
        BinaryOperator::Plus => Instruction::Plus, BinaryOperator::Minus => Instruction::Minus, BinaryOperator::FloorDiv => Instruction::FloorDiv,
        BinaryOperator::Power => Instruction::Power, BinaryOperator::LessThan => Instruction::LessThan, BinaryOperator::GreaterThan => Instruction::GreaterThan,
        BinaryOperator::LessThanOrEqual => Instruction::LessThanOrEqual, BinaryOperator::GreaterThanOrEqual => Instruction::GreaterThanOrEqual,
        BinaryOperator::Equal => Instruction::Equal, BinaryOperator::NotEqual => Instruction::NotEqual,
        BinaryOperator::StrConcat => Instruction::StrConcat, BinaryOperator::In => Instruction::In,
        _ => Instruction::Not,
    }
}
/// `a and b` / `a or b`: after `a`, at j, a conditional jump that keeps `a` and lands right after `b` (the end)
pub open spec fn short_circuit_shape(n0: int, ins: Ins, is_and: bool, j: int) -> bool {
    n0 <= j < ins.len() && ins[j].0 == (if is_and { Instruction::JumpIfFalseOrPop(ins.len() as usize) } else { Instruction::JumpIfTrueOrPop(ins.len() as usize) })
}
pub proof fn lemma_prefix_index(a: Ins, b: Ins, i: int)
    requires prefix_of(a, b), 0 <= i < a.len()
    ensures b[i] == a[i]
{
    assert(b.take(a.len() as int)[i] == b[i]);
}
impl Compiler {
    #[verifier::external_body]
    pub fn compile_kwargs(&mut self, k: VxKwargs)
        requires roomy(old(self).chunk.instructions@)
        ensures grown(*old(self), *final(self)), final(self).temp_variables@.len() == old(self).temp_variables@.len(), small(final(self).chunk.instructions@)
    { unimplemented!() }
}
pub proof fn lemma_prefix_push(a: Ins, b: Ins, c: Ins)
    requires prefix_of(a, b), c.len() == b.len() + 1, c.drop_last() == b
    ensures prefix_of(a, c)
{
    assert(c.take(a.len() as int) =~= b.take(a.len() as int));
}
/// the shape of a compiled list comprehension starting at n0 (st: Iterate, en: the instruction Iterate exits to, c: the condition's jump)
pub open spec fn comp_shape(n0: int, ins: Ins, has_cond: bool, st: int, en: int, c: int) -> bool {
    &&& n0 < st && st + 2 < en && en + 1 == ins.len()
    &&& ins[n0].0 == Instruction::BuildList(0)
    &&& ins[st].0 == Instruction::Iterate(en as usize)
    &&& ins[en - 2].0 == Instruction::AppendToList
    &&& ins[en - 1].0 == Instruction::Jump(st as usize)
    &&& ins[en].0 == Instruction::PopLoop
    // a false condition skips the append and lands on the back-jump
    &&& has_cond ==> st < c < en - 2 && ins[c].0 == Instruction::PopJumpIfFalse((en - 1) as usize)
}
/// transitivity as a broadcast fact, for arms that emit many instructions in a row
pub broadcast proof fn lemma_prefix_trans_b(a: Ins, b: Ins, c: Ins)
    requires #[trigger] prefix_of(a, b), #[trigger] prefix_of(b, c)
    ensures prefix_of(a, c)
{
    lemma_prefix_trans(a, b, c);
}
pub proof fn lemma_prefix_refl(a: Ins) ensures prefix_of(a, a) { assert(a.take(a.len() as int) =~= a); }
