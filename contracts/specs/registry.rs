impl Tera {
    /// ASSUMED contract: finalize computes into locals and commits only when no error was collected
    #[verifier::external_body]
    pub fn finalize_templates(&mut self) -> (r: TeraResult<()>)
        ensures r is Err ==> *final(self) == *old(self)
    { unimplemented!() }
}
pub type Log = Seq<(String, Option<Template>)>;
/// one recorded insertion: `prev` is what the map held under `k` before
pub open spec fn undo_one(m: Map<Name, Template>, e: (String, Option<Template>)) -> Map<Name, Template> {
    match e.1 { Some(old) => m.insert(e.0@, old), None => m.remove(e.0@) }
}
/// undoing a log from its last entry to its first
pub open spec fn undo_all(m: Map<Name, Template>, log: Log) -> Map<Name, Template>
    decreases log.len()
{
    if log.len() == 0 { m } else { undo_all(undo_one(m, log.last()), log.drop_last()) }
}
/// the recorded entry is faithful: it remembers exactly what was there
pub open spec fn faithful(before: Map<Name, Template>, e: (String, Option<Template>)) -> bool {
    e.1 == (if before.dom().contains(e.0@) { Some(before[e.0@]) } else { None::<Template> })
}
pub proof fn lemma_undo_one_restores(before: Map<Name, Template>, k: String, t: Template, e: (String, Option<Template>))
    requires e.0@ == k@, faithful(before, e)
    ensures undo_one(before.insert(k@, t), e) =~= before
{}
impl Tera {
    /// recomputes the autoescape flag of every template; does not touch the component table
    #[verifier::external_body]
    pub fn set_templates_auto_escape(&mut self)
        ensures final(self).components == old(self).components, final(self).delimiters == old(self).delimiters,
            autoescape_fresh(final(self).templates, final(self).vx_opaque)
    { unimplemented!() }
}
/// every template's autoescape flag agrees with the current suffix list (unit autoescape proves that
/// set_templates_auto_escape establishes it)
pub uninterp spec fn autoescape_fresh(t: HashMap<String, Template>, rest: VxOpaque) -> bool;
