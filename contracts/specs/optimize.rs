// C09: the structural + content postcondition of Chunk::optimize and the lemmas that carry the
// quantifier work (see DESIGN Appendix A.5).
pub type Ins = (Instruction, Vec<Span>);
// ---- spec vocabulary ----
pub open spec fn jt(ins: Instruction) -> Option<usize> {
    match ins {
        Instruction::Jump(t) => Some(t),
        Instruction::PopJumpIfFalse(t) => Some(t),
        Instruction::JumpIfFalseOrPop(t) => Some(t),
        Instruction::JumpIfTrueOrPop(t) => Some(t),
        Instruction::Iterate(t) => Some(t),
        _ => None,
    }
}
pub open spec fn targets_ok(s: Seq<Ins>, bound: int) -> bool {
    forall|k: int| 0 <= k < s.len() ==> (#[trigger] jt(s[k].0)) is Some ==> jt(s[k].0)->Some_0 <= bound
}
/// j is the target of some jump of s (seen among the first p instructions)
pub open spec fn is_tgt_upto(s: Seq<Ins>, j: int, p: int) -> bool {
    exists|k: int| 0 <= k < p && #[trigger] jt(s[k].0) == Some(j as usize)
}
pub open spec fn is_tgt(s: Seq<Ins>, j: int) -> bool { is_tgt_upto(s, j, s.len() as int) }

/// same instruction with its jump target replaced
pub open spec fn retarget(ins: Instruction, t: usize) -> Instruction {
    match ins {
        Instruction::Jump(_) => Instruction::Jump(t),
        Instruction::PopJumpIfFalse(_) => Instruction::PopJumpIfFalse(t),
        Instruction::JumpIfFalseOrPop(_) => Instruction::JumpIfFalseOrPop(t),
        Instruction::JumpIfTrueOrPop(_) => Instruction::JumpIfTrueOrPop(t),
        Instruction::Iterate(_) => Instruction::Iterate(t),
        other => other,
    }
}

/// position k is absorbed into the instruction that position k-1 belongs to
pub open spec fn cont(im: Seq<usize>, k: int) -> bool { k > 0 && im[k] == im[k - 1] }
pub open spec fn step_ok(im: Seq<usize>, k: int) -> bool { im[k] == im[k - 1] || im[k] == im[k - 1] + 1 }
pub open spec fn single(im: Seq<usize>, k: int, i: int) -> bool { !cont(im, k) && (k + 1 == i || !cont(im, k + 1)) }
pub open spec fn in_range(im: Seq<usize>, k: int, m: int) -> bool { im[k] < m }
pub open spec fn head_ok(old0: Seq<Ins>, k: int) -> bool { old0[k].0 is LoadName && old0[k].0->LoadName_0@ != MAGICAL_DUMP_VAR@ }
pub open spec fn is_attr(old0: Seq<Ins>, k: int) -> bool { old0[k].0 is LoadAttr }
pub open spec fn absorbed_ok(old0: Seq<Ins>, k: int) -> bool { (old0[k].0 is LoadAttr || old0[k].0 is WriteTop) && !is_tgt(old0, k) }


pub open spec fn name_of(ins: Instruction) -> String { ins->LoadName_0 }
pub open spec fn attr_of(ins: Instruction) -> String { ins->LoadAttr_0 }
/// [name] ++ attrs of old0[a+1..e)
pub open spec fn path_of(old0: Seq<Ins>, a: int, e: int) -> Seq<String> decreases e - a {
    if e <= a + 1 { seq![name_of(old0[a].0)] } else { path_of(old0, a, e - 1).push(attr_of(old0[e - 1].0)) }
}
/// concatenation of the span lists of old0[a..e)
pub open spec fn spans_of(old0: Seq<Ins>, a: int, e: int) -> Seq<Span> decreases e - a {
    if e <= a { Seq::<Span>::empty() } else { spans_of(old0, a, e - 1) + old0[e - 1].1@ }
}
/// x is the fusion of the group old0[a..e)
pub open spec fn fused_rel(old0: Seq<Ins>, a: int, e: int, x: Ins) -> bool {
    if old0[e - 1].0 is WriteTop {
        x.0 is WritePath && x.0->WritePath_0@ == path_of(old0, a, e - 1) && x.1@ == spans_of(old0, a, e - 1)
    } else {
        x.0 is LoadPath && x.0->LoadPath_0@ == path_of(old0, a, e) && x.1@ == spans_of(old0, a, e)
    }
}
/// k is the last position of a merged group that starts at a
pub open spec fn group_end(im: Seq<usize>, a: int, k: int, i: int) -> bool {
    0 <= a < k && !cont(im, a) && im[a] == im[k] && cont(im, k) && (k + 1 == i || !cont(im, k + 1))
}
#[verifier::opaque]
pub open spec fn content_ok(old0: Seq<Ins>, im: Seq<usize>, opt: Seq<Ins>, i: int) -> bool {
    forall|k: int| 0 < k < i && #[trigger] cont(im, k) && (k + 1 == i || !cont(im, k + 1)) ==>
        exists|a: int| #[trigger] group_end(im, a, k, i) && fused_rel(old0, a, k + 1, opt[im[k] as int])
}

/// structural relation between the old code, the index map and the new code *before* retargeting
#[verifier::opaque]
pub open spec fn map_ok(old0: Seq<Ins>, im: Seq<usize>, opt: Seq<Ins>, i: int) -> bool {
    &&& 0 <= i <= old0.len()
    &&& im.len() == old0.len() + 1
    &&& (i > 0 ==> im[0] == 0 && im[i - 1] + 1 == opt.len())
    &&& (i == 0 ==> opt.len() == 0)
    &&& forall|k: int| 0 <= k < i ==> #[trigger] in_range(im, k, opt.len() as int)
    &&& targets_ok(opt, old0.len() as int)
    &&& forall|k: int| 0 < k < i ==> #[trigger] step_ok(im, k)
    &&& forall|k: int| 0 < k < i && #[trigger] cont(im, k) ==> absorbed_ok(old0, k) && jt(opt[im[k] as int].0) is None
    &&& forall|k: int| 0 <= k < i && #[trigger] single(im, k, i) ==> opt[im[k] as int] == old0[k]
    &&& forall|k: int| 0 < k < i && #[trigger] cont(im, k) && (k == 1 || im[k - 1] != im[k - 2]) ==> head_ok(old0, k - 1)
}


pub open spec fn retarget_im(ins: Instruction, im: Seq<usize>) -> Instruction {
    match jt(ins) { Some(t) => retarget(ins, im[t as int]), None => ins }
}

/// The postcondition of `optimize`, for a witness index map `im`
#[verifier::opaque]
pub open spec fn final_ok(old0: Seq<Ins>, im: Seq<usize>, new: Seq<Ins>) -> bool {
    let n = old0.len() as int;
    &&& im.len() == n + 1
    &&& im[n] == new.len()
    &&& (n > 0 ==> im[0] == 0 && im[n - 1] + 1 == new.len())
    &&& forall|k: int| 0 <= k < n ==> #[trigger] in_range(im, k, new.len() as int)
    // old positions map to the same or the next new position: order is kept, nothing is dropped or duplicated
    &&& forall|k: int| 0 < k < n ==> #[trigger] step_ok(im, k)
    // only LoadAttr / WriteTop are ever absorbed, and never one that some jump targets
    &&& forall|k: int| 0 < k < n && #[trigger] cont(im, k) ==> absorbed_ok(old0, k) && jt(new[im[k] as int].0) is None
    // every merged group starts with a LoadName
    &&& forall|k: int| 0 < k < n && #[trigger] cont(im, k) && (k == 1 || im[k - 1] != im[k - 2]) ==> head_ok(old0, k - 1)
    // everything that is not merged is the old instruction, with its jump target (if any) sent through the map
    &&& forall|k: int| 0 <= k < n && #[trigger] single(im, k, n) ==> new[im[k] as int] == (retarget_im(old0[k].0, im), old0[k].1)
}

/// consequence spelled out: a jump lands on the instruction it pointed to before
pub proof fn lemma_jump_lands(old0: Seq<Ins>, im: Seq<usize>, new: Seq<Ins>, k: int)
    requires final_ok(old0, im, new), 0 <= k < old0.len(), jt(old0[k].0) is Some, jt(old0[k].0)->Some_0 < old0.len(),
    ensures !cont(im, jt(old0[k].0)->Some_0 as int)   // the target position starts its own new instruction
{
    reveal(final_ok);
    let t = jt(old0[k].0)->Some_0 as int;
    assert(is_tgt_upto(old0, t, old0.len() as int));
    if cont(im, t) { assert(absorbed_ok(old0, t)); }
}

pub proof fn lemma_map_frame(old0: Seq<Ins>, im0: Seq<usize>, im1: Seq<usize>, opt: Seq<Ins>, i: int)
    requires map_ok(old0, im0, opt, i), im1.len() == im0.len(), forall|k: int| 0 <= k < i ==> #[trigger] im1[k] == im0[k]
    ensures map_ok(old0, im1, opt, i)
{
    reveal(map_ok);
    if i > 0 { assert(im1[0] == im0[0]); assert(im1[i - 1] == im0[i - 1]); }
    assert forall|k: int| 0 <= k < i implies #[trigger] in_range(im1, k, opt.len() as int) by { assert(im1[k] == im0[k]); assert(in_range(im0, k, opt.len() as int)); }
    assert forall|k: int| 0 < k < i implies #[trigger] step_ok(im1, k) by { assert(im1[k] == im0[k]); assert(im1[k-1] == im0[k-1]); assert(step_ok(im0, k)); }
    assert forall|k: int| 0 < k < i && #[trigger] cont(im1, k) implies absorbed_ok(old0, k) && jt(opt[im1[k] as int].0) is None by { assert(im1[k] == im0[k]); assert(im1[k-1] == im0[k-1]); assert(cont(im0, k)); }
    assert forall|k: int| 0 <= k < i && #[trigger] single(im1, k, i) implies opt[im1[k] as int] == old0[k] by {
        assert(im1[k] == im0[k]); if k > 0 { assert(im1[k-1] == im0[k-1]); } if k + 1 < i { assert(im1[k+1] == im0[k+1]); }
        assert(single(im0, k, i));
    }
    assert forall|k: int| 0 < k < i && #[trigger] cont(im1, k) && (k == 1 || im1[k - 1] != im1[k - 2]) implies head_ok(old0, k - 1) by {
        assert(im1[k] == im0[k]); assert(im1[k-1] == im0[k-1]); if k >= 2 { assert(im1[k-2] == im0[k-2]); } assert(cont(im0, k));
    }
}

pub proof fn lemma_final(old0: Seq<Ins>, im: Seq<usize>, optb: Seq<Ins>, new: Seq<Ins>)
    requires
        map_ok(old0, im, optb, old0.len() as int), im[old0.len() as int] == optb.len(),
        new.len() == optb.len(),
        forall|q: int| 0 <= q < new.len() ==> #[trigger] new[q] == (retarget_im(optb[q].0, im), optb[q].1),
    ensures final_ok(old0, im, new)
{
    reveal(map_ok); reveal(final_ok);
    let n = old0.len() as int;
    assert forall|k: int| 0 < k < n && #[trigger] cont(im, k) implies absorbed_ok(old0, k) && jt(new[im[k] as int].0) is None by {
        assert(in_range(im, k, optb.len() as int));
        let q = im[k] as int;
        assert(new[q] == (retarget_im(optb[q].0, im), optb[q].1));
    }
    assert forall|k: int| 0 <= k < n && #[trigger] single(im, k, n) implies new[im[k] as int] == (retarget_im(old0[k].0, im), old0[k].1) by {
        assert(in_range(im, k, optb.len() as int));
        let q = im[k] as int;
        assert(new[q] == (retarget_im(optb[q].0, im), optb[q].1));
        assert(optb[q] == old0[k]);
    }
}

pub proof fn lemma_map_init(old0: Seq<Ins>, im: Seq<usize>)
    requires im.len() == old0.len() + 1
    ensures map_ok(old0, im, Seq::<Ins>::empty(), 0)
{ reveal(map_ok); }

pub proof fn lemma_copy(old0: Seq<Ins>, im0: Seq<usize>, opt0: Seq<Ins>, i: int, im1: Seq<usize>, opt1: Seq<Ins>)
    requires
        map_ok(old0, im0, opt0, i), i < old0.len(), targets_ok(old0, old0.len() as int),
        im1 == im0.update(i, opt0.len() as usize), opt0.len() < usize::MAX,
        opt1 == opt0.push(old0[i]),
    ensures map_ok(old0, im1, opt1, i + 1)
{
    reveal(map_ok);
    assert forall|q: int| 0 <= q < opt1.len() && (#[trigger] jt(opt1[q].0)) is Some implies jt(opt1[q].0)->Some_0 <= old0.len() by {
        if q < opt0.len() { assert(opt1[q] == opt0[q]); } else { assert(opt1[q] == old0[i]); }
    }
    assert forall|k: int| 0 <= k < i + 1 implies #[trigger] in_range(im1, k, opt1.len() as int) by {
        if k < i { assert(in_range(im0, k, opt0.len() as int)); }
    }
    assert forall|k: int| 0 < k < i + 1 implies #[trigger] step_ok(im1, k) by {
        if k < i { assert(step_ok(im0, k)); }
    }
    assert forall|k: int| 0 < k < i + 1 && #[trigger] cont(im1, k) implies absorbed_ok(old0, k) && jt(opt1[im1[k] as int].0) is None by {
        if k < i { assert(cont(im0, k)); assert(in_range(im0, k, opt0.len() as int)); assert(opt1[im1[k] as int] == opt0[im0[k] as int]); }
    }
    assert forall|k: int| 0 <= k < i + 1 && #[trigger] single(im1, k, i + 1) implies opt1[im1[k] as int] == old0[k] by {
        if k < i {
            if k + 1 < i { assert(cont(im1, k + 1) == cont(im0, k + 1)); }
            assert(cont(im1, k) == cont(im0, k));
            assert(single(im0, k, i));
            assert(in_range(im0, k, opt0.len() as int));
            assert(opt1[im1[k] as int] == opt0[im0[k] as int]);
        }
    }
    assert forall|k: int| 0 < k < i + 1 && #[trigger] cont(im1, k) && (k == 1 || im1[k - 1] != im1[k - 2]) implies head_ok(old0, k - 1) by {
        if k < i { assert(cont(im0, k)); }
    }
}

pub proof fn lemma_fuse(old0: Seq<Ins>, im0: Seq<usize>, opt0: Seq<Ins>, i: int, e: int, im1: Seq<usize>, opt1: Seq<Ins>, x: Ins)
    requires
        map_ok(old0, im0, opt0, i), i < e <= old0.len(), e - i >= 2, opt0.len() < usize::MAX,
        head_ok(old0, i),
        forall|k: int| i < k < e ==> #[trigger] absorbed_ok(old0, k),
        im1.len() == im0.len(),
        forall|k: int| 0 <= k < i ==> #[trigger] im1[k] == im0[k],
        forall|k: int| i <= k < e ==> #[trigger] im1[k] == opt0.len(),
        opt1 == opt0.push(x), jt(x.0) is None,
    ensures map_ok(old0, im1, opt1, e)
{
    reveal(map_ok);
    assert forall|q: int| 0 <= q < opt1.len() && (#[trigger] jt(opt1[q].0)) is Some implies jt(opt1[q].0)->Some_0 <= old0.len() by {
        if q < opt0.len() { assert(opt1[q] == opt0[q]); } else { assert(opt1[q] == x); }
    }
    assert(im1[i] == opt0.len());
    assert(im1[e - 1] == opt0.len());
    if i > 0 { assert(im1[i - 1] == im0[i - 1]); assert(im1[0] == im0[0]); }
    assert forall|k: int| 0 <= k < e implies #[trigger] in_range(im1, k, opt1.len() as int) by {
        if k < i { assert(im1[k] == im0[k]); assert(in_range(im0, k, opt0.len() as int)); } else { assert(im1[k] == opt0.len()); }
    }
    assert forall|k: int| 0 < k < e implies #[trigger] step_ok(im1, k) by {
        if k < i { assert(step_ok(im0, k)); assert(im1[k] == im0[k]); assert(im1[k - 1] == im0[k - 1]); }
        else if k == i { assert(im1[k - 1] == im0[k - 1]); assert(im1[k] == opt0.len()); }
        else { assert(im1[k] == opt0.len()); assert(im1[k - 1] == opt0.len()); }
    }
    assert forall|k: int| 0 < k < e && #[trigger] cont(im1, k) implies absorbed_ok(old0, k) && jt(opt1[im1[k] as int].0) is None by {
        if k < i { assert(im1[k] == im0[k]); assert(im1[k - 1] == im0[k - 1]); assert(cont(im0, k)); assert(in_range(im0, k, opt0.len() as int)); assert(opt1[im1[k] as int] == opt0[im0[k] as int]); }
        else if k == i { assert(im1[k - 1] == im0[k - 1]); assert(im1[k] == opt0.len()); assert(in_range(im0, k - 1, opt0.len() as int)); assert(false); }
        else { assert(absorbed_ok(old0, k)); assert(im1[k] == opt0.len()); }
    }
    assert forall|k: int| 0 <= k < e && #[trigger] single(im1, k, e) implies opt1[im1[k] as int] == old0[k] by {
        if k < i {
            assert(im1[k] == im0[k]);
            if k > 0 { assert(im1[k - 1] == im0[k - 1]); }
            if k + 1 < i { assert(im1[k + 1] == im0[k + 1]); }
            if k + 1 == i { assert(im1[k + 1] == opt0.len()); }
            assert(single(im0, k, i));
            assert(in_range(im0, k, opt0.len() as int));
            assert(opt1[im1[k] as int] == opt0[im0[k] as int]);
        } else if k == i {
            assert(im1[k + 1] == opt0.len()); assert(im1[k] == opt0.len()); assert(cont(im1, k + 1));
        } else {
            assert(im1[k] == opt0.len()); assert(im1[k - 1] == opt0.len()); assert(cont(im1, k));
        }
    }
    assert forall|k: int| 0 < k < e && #[trigger] cont(im1, k) && (k == 1 || im1[k - 1] != im1[k - 2]) implies head_ok(old0, k - 1) by {
        if k < i { assert(im1[k] == im0[k]); assert(im1[k - 1] == im0[k - 1]); if k >= 2 { assert(im1[k - 2] == im0[k - 2]); } assert(cont(im0, k)); }
        else if k == i { assert(im1[k - 1] == im0[k - 1]); assert(im1[k] == opt0.len()); assert(in_range(im0, k - 1, opt0.len() as int)); assert(false); }
        else if k == i + 1 { }
        else { assert(im1[k - 1] == opt0.len()); assert(im1[k - 2] == opt0.len()); }
    }
}


pub proof fn lemma_content_init(old0: Seq<Ins>, im: Seq<usize>)
    ensures content_ok(old0, im, Seq::<Ins>::empty(), 0)
{ reveal(content_ok); }

pub proof fn lemma_content_copy(old0: Seq<Ins>, im0: Seq<usize>, opt0: Seq<Ins>, i: int, im1: Seq<usize>, opt1: Seq<Ins>, y: Ins)
    requires
        content_ok(old0, im0, opt0, i), map_ok(old0, im0, opt0, i), i < old0.len(),
        im1 == im0.update(i, opt0.len() as usize), opt0.len() < usize::MAX,
        opt1 == opt0.push(y),
    ensures content_ok(old0, im1, opt1, i + 1)
{
    reveal(content_ok); reveal(map_ok);
    assert forall|k: int| 0 < k < i + 1 && #[trigger] cont(im1, k) && (k + 1 == i + 1 || !cont(im1, k + 1)) implies
        exists|a: int| #[trigger] group_end(im1, a, k, i + 1) && fused_rel(old0, a, k + 1, opt1[im1[k] as int]) by {
        if k < i {
            assert(cont(im0, k));
            if k + 1 < i { assert(cont(im1, k + 1) == cont(im0, k + 1)); }
            let a = choose|a: int| #[trigger] group_end(im0, a, k, i) && fused_rel(old0, a, k + 1, opt0[im0[k] as int]);
            assert(in_range(im0, k, opt0.len() as int));
            assert(opt1[im1[k] as int] == opt0[im0[k] as int]);
            assert(cont(im1, a) == cont(im0, a));
            assert(group_end(im1, a, k, i + 1));
        } else {
            // k == i: im1[i] = |opt0| = im0[i-1] + 1, so position i is not absorbed
            assert(im1[k - 1] == im0[k - 1]);
            assert(false);
        }
    }
}

pub proof fn lemma_content_fuse(old0: Seq<Ins>, im0: Seq<usize>, opt0: Seq<Ins>, i: int, e: int, im1: Seq<usize>, opt1: Seq<Ins>, x: Ins)
    requires
        content_ok(old0, im0, opt0, i), map_ok(old0, im0, opt0, i), i < e <= old0.len(), e - i >= 2, opt0.len() < usize::MAX,
        im1.len() == im0.len(),
        forall|k: int| 0 <= k < i ==> #[trigger] im1[k] == im0[k],
        forall|k: int| i <= k < e ==> #[trigger] im1[k] == opt0.len(),
        opt1 == opt0.push(x), fused_rel(old0, i, e, x),
    ensures content_ok(old0, im1, opt1, e)
{
    reveal(content_ok); reveal(map_ok);
    assert(im1[i] == opt0.len());
    if i > 0 { assert(im1[i - 1] == im0[i - 1]); assert(in_range(im0, i - 1, opt0.len() as int)); }
    assert(!cont(im1, i));
    assert forall|k: int| 0 < k < e && #[trigger] cont(im1, k) && (k + 1 == e || !cont(im1, k + 1)) implies
        exists|a: int| #[trigger] group_end(im1, a, k, e) && fused_rel(old0, a, k + 1, opt1[im1[k] as int]) by {
        if k < i {
            assert(im1[k] == im0[k]); assert(im1[k - 1] == im0[k - 1]);
            assert(cont(im0, k));
            if k + 1 < i { assert(im1[k + 1] == im0[k + 1]); assert(cont(im1, k + 1) == cont(im0, k + 1)); }
            let a = choose|a: int| #[trigger] group_end(im0, a, k, i) && fused_rel(old0, a, k + 1, opt0[im0[k] as int]);
            assert(in_range(im0, k, opt0.len() as int));
            assert(opt1[im1[k] as int] == opt0[im0[k] as int]);
            assert(im1[a] == im0[a]); if a > 0 { assert(im1[a - 1] == im0[a - 1]); }
            assert(group_end(im1, a, k, e));
        } else if k == i {
            assert(false);
        } else {
            // inside the new group: only its last position qualifies
            assert(im1[k] == opt0.len()); assert(im1[k - 1] == opt0.len());
            if k + 1 < e { assert(im1[k + 1] == opt0.len()); assert(cont(im1, k + 1)); assert(false); }
            assert(k == e - 1);
            assert(group_end(im1, i, k, e));
            assert(opt1[im1[k] as int] == x);
        }
    }
}

pub proof fn lemma_content_frame(old0: Seq<Ins>, im0: Seq<usize>, im1: Seq<usize>, opt: Seq<Ins>, i: int)
    requires content_ok(old0, im0, opt, i), im1.len() == im0.len(), forall|k: int| 0 <= k < i ==> #[trigger] im1[k] == im0[k]
    ensures content_ok(old0, im1, opt, i)
{
    reveal(content_ok);
    assert forall|k: int| 0 < k < i && #[trigger] cont(im1, k) && (k + 1 == i || !cont(im1, k + 1)) implies
        exists|a: int| #[trigger] group_end(im1, a, k, i) && fused_rel(old0, a, k + 1, opt[im1[k] as int]) by {
        assert(im1[k] == im0[k]); assert(im1[k - 1] == im0[k - 1]); assert(cont(im0, k));
        if k + 1 < i { assert(im1[k + 1] == im0[k + 1]); }
        let a = choose|a: int| #[trigger] group_end(im0, a, k, i) && fused_rel(old0, a, k + 1, opt[im0[k] as int]);
        assert(im1[a] == im0[a]); if a > 0 { assert(im1[a - 1] == im0[a - 1]); }
        assert(group_end(im1, a, k, i));
    }
}

pub proof fn lemma_content_final(old0: Seq<Ins>, im: Seq<usize>, optb: Seq<Ins>, new: Seq<Ins>)
    requires
        content_ok(old0, im, optb, old0.len() as int), map_ok(old0, im, optb, old0.len() as int),
        new.len() == optb.len(),
        forall|q: int| 0 <= q < new.len() ==> #[trigger] new[q] == (retarget_im(optb[q].0, im), optb[q].1),
    ensures content_ok(old0, im, new, old0.len() as int)
{
    reveal(content_ok); reveal(map_ok);
    let n = old0.len() as int;
    assert forall|k: int| 0 < k < n && #[trigger] cont(im, k) && (k + 1 == n || !cont(im, k + 1)) implies
        exists|a: int| #[trigger] group_end(im, a, k, n) && fused_rel(old0, a, k + 1, new[im[k] as int]) by {
        let a = choose|a: int| #[trigger] group_end(im, a, k, n) && fused_rel(old0, a, k + 1, optb[im[k] as int]);
        assert(in_range(im, k, optb.len() as int));
        let q = im[k] as int;
        assert(new[q] == (retarget_im(optb[q].0, im), optb[q].1));
        assert(jt(optb[q].0) is None);
        assert(new[q] == optb[q]);
        assert(group_end(im, a, k, n));
    }
}

/// the instruction is a call of the function of that name
pub open spec fn calls_fn(i: Instruction, name: Seq<char>) -> bool {
    match i { Instruction::CallFunction(s) => s@ == name, _ => false }
}
#[verifier::external_body]
pub fn vx_str_eq_ref(a: &String, b: &str) -> (r: bool) ensures r == (a@ == b@) { unimplemented!() }
