pub proof fn lemma_take_succ(s: Seq<char>, k: int)
    requires 0 <= k < s.len()
    ensures blen(s.take(k + 1)) == blen(s.take(k)) + blen(s.skip(k).take(1)), s.skip(k).take(1) =~= seq![s[k]]
{
    assert(s.take(k + 1) =~= s.take(k) + s.skip(k).take(1));
    axiom_blen(s.take(k), s.skip(k).take(1));
}
pub proof fn lemma_blen_mono(s: Seq<char>, k: int)
    requires 0 <= k <= s.len()
    ensures blen(s.take(k)) <= blen(s), k == s.len() ==> blen(s.take(k)) == blen(s)
{
    assert(s =~= s.take(k) + s.skip(k));
    axiom_blen(s.take(k), s.skip(k));
    if k == s.len() { assert(s.take(k) =~= s); }
}
