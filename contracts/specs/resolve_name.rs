/// documented resolution: the exact name if registered, else the first prefix (in order) whose
/// prefixed name is registered, else nothing
pub open spec fn resolve_from(t: &Tera, name: Name, k: int) -> Option<Name>
    decreases t.fallback_prefixes.len() - k
{
    if k >= t.fallback_prefixes.len() { None }
    else if t.templates.names().contains(t.fallback_prefixes[k].text() + name) { Some(t.fallback_prefixes[k].text() + name) }
    else { resolve_from(t, name, k + 1) }
}
pub open spec fn resolve_doc(t: &Tera, name: Name) -> Option<Name> {
    if t.templates.names().contains(name) { Some(name) } else { resolve_from(t, name, 0) }
}
