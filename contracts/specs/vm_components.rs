/// what rendering a component body in a nested VM returns (unit vm_depth: one level deeper, same override)
pub uninterp spec fn rc_spec(vm: &VirtualMachine, chunk: Chunk, ctx: Context) -> TeraResult<String>;
impl<'tera> VirtualMachine<'tera> {
    #[verifier::external_body]
    pub fn render_component(&self, chunk: &Chunk, context: Context) -> (r: TeraResult<String>)
        ensures r == rc_spec(self, *chunk, context)
    { unimplemented!() }
}
