/// the templates that `t` includes, after resolution (exact name first, then fallback prefixes)
pub open spec fn inc(tera: &Tera, t: Name, r: Name) -> bool {
    exists|k: Name| #[trigger] tera.tpl_spec(t).include_calls.keys_spec().contains(k) && tera.resolve_spec(k) == Some(r)
}
pub open spec fn inc_all_in(tera: &Tera, t: Name, s: Set<Name>) -> bool { forall|r: Name| #[trigger] inc(tera, t, r) ==> s.contains(r) }
pub open spec fn names_of(v: Seq<String>) -> Seq<Name> { v.map_values(|s: String| s@) }
pub open spec fn on_stack(stack: Seq<String>, n: Name) -> bool { exists|i: int| 0 <= i < stack.len() && #[trigger] stack[i]@ == n }
/// `ord` lists finished templates in completion order: everything a finished template includes
/// finished strictly earlier (a reverse topological order, hence no include cycle among them)
pub open spec fn earlier(ord: Seq<Name>, i: int, r: Name) -> bool { exists|j: int| 0 <= j < i && #[trigger] ord[j] == r }
pub open spec fn topo_at(tera: &Tera, ord: Seq<Name>, i: int) -> bool {
    forall|r: Name| #[trigger] inc(tera, ord[i], r) ==> earlier(ord, i, r)
}
pub open spec fn topo(tera: &Tera, ord: Seq<Name>) -> bool {
    forall|i: int| 0 <= i < ord.len() ==> #[trigger] topo_at(tera, ord, i)
}
pub open spec fn lists(ord: Seq<Name>, s: Set<Name>) -> bool {
    forall|n: Name| s.contains(n) <==> (exists|i: int| 0 <= i < ord.len() && #[trigger] ord[i] == n)
}
/// the visited set is finished work: listed by some completion order
pub open spec fn finished(tera: &Tera, visited: Set<Name>) -> bool {
    exists|ord: Seq<Name>| #[trigger] lists(ord, visited) && topo(tera, ord)
}

pub proof fn lemma_finish(tera: &Tera, v1: Set<Name>, child: Name)
    requires finished(tera, v1), inc_all_in(tera, child, v1)
    ensures finished(tera, v1.insert(child))
{
    let ord1 = choose|ord: Seq<Name>| #[trigger] lists(ord, v1) && topo(tera, ord);
    let ord2 = ord1.push(child);
    let n = ord1.len() as int;
    assert forall|m: Name| v1.insert(child).contains(m) <==> (exists|i: int| 0 <= i < ord2.len() && #[trigger] ord2[i] == m) by {
        if v1.insert(child).contains(m) {
            if m == child { assert(ord2[n] == m); }
            else { let i = choose|i: int| 0 <= i < ord1.len() && #[trigger] ord1[i] == m; assert(ord2[i] == m); }
        }
        if exists|i: int| 0 <= i < ord2.len() && #[trigger] ord2[i] == m {
            let i = choose|i: int| 0 <= i < ord2.len() && #[trigger] ord2[i] == m;
            if i < n { assert(ord1[i] == m); }
        }
    }
    assert forall|i: int| 0 <= i < ord2.len() implies #[trigger] topo_at(tera, ord2, i) by {
        assert forall|r: Name| #[trigger] inc(tera, ord2[i], r) implies earlier(ord2, i, r) by {
            if i < n {
                assert(topo_at(tera, ord1, i));
                assert(ord2[i] == ord1[i]);
                assert(earlier(ord1, i, r));
                let j = choose|j: int| 0 <= j < i && #[trigger] ord1[j] == r;
                assert(ord2[j] == r);
            } else {
                assert(v1.contains(r));
                let j = choose|j: int| 0 <= j < ord1.len() && #[trigger] ord1[j] == r;
                assert(ord2[j] == r);
            }
        }
    }
    assert(lists(ord2, v1.insert(child)) && topo(tera, ord2));
}
/// what `finished` buys: the first position of a name in the completion order strictly decreases
/// along include edges, so no include cycle runs inside a finished set
pub proof fn lemma_edge_goes_earlier(tera: &Tera, ord: Seq<Name>, i: int, r: Name)
    requires topo(tera, ord), 0 <= i < ord.len(), inc(tera, ord[i], r)
    ensures exists|j: int| 0 <= j < i && #[trigger] ord[j] == r
{
    assert(topo_at(tera, ord, i));
    assert(earlier(ord, i, r));
}

/// a chain of include edges
pub open spec fn edge_at(tera: &Tera, p: Seq<Name>, k: int) -> bool { inc(tera, p[k], p[k + 1]) }
pub open spec fn inc_path(tera: &Tera, p: Seq<Name>) -> bool {
    forall|k: int| 0 <= k < p.len() - 1 ==> #[trigger] edge_at(tera, p, k)
}
/// along a chain of include edges inside a completion order, positions strictly decrease
pub proof fn lemma_path_index(tera: &Tera, ord: Seq<Name>, p: Seq<Name>, i0: int, k: int)
    requires topo(tera, ord), 0 <= i0 < ord.len(), p.len() >= 1, ord[i0] == p[0], inc_path(tera, p), 0 <= k < p.len()
    ensures exists|i: int| 0 <= i <= i0 - k && #[trigger] ord[i] == p[k]
    decreases k
{
    if k == 0 {
        assert(ord[i0] == p[0]);
    } else {
        lemma_path_index(tera, ord, p, i0, k - 1);
        let i = choose|i: int| 0 <= i <= i0 - (k - 1) && #[trigger] ord[i] == p[k - 1];
        assert(edge_at(tera, p, k - 1));
        lemma_edge_goes_earlier(tera, ord, i, p[k]);
        let j = choose|j: int| 0 <= j < i && #[trigger] ord[j] == p[k];
        assert(0 <= j <= i0 - k);
    }
}
/// THE COROLLARY: no include cycle runs through a finished template
pub proof fn lemma_no_cycle_in_finished(tera: &Tera, v: Set<Name>, p: Seq<Name>)
    requires finished(tera, v), p.len() >= 2, v.contains(p[0]), inc_path(tera, p)
    ensures p[p.len() - 1] != p[0]
{
    let ord = choose|ord: Seq<Name>| #[trigger] lists(ord, v) && topo(tera, ord);
    // first position of p[0]
    let some = choose|i: int| 0 <= i < ord.len() && #[trigger] ord[i] == p[0];
    let i0 = first_index(ord, p[0], some);
    lemma_first_index(ord, p[0], some);
    lemma_path_index(tera, ord, p, i0, p.len() - 1);
    let i = choose|i: int| 0 <= i <= i0 - (p.len() - 1) && #[trigger] ord[i] == p[p.len() - 1];
    if p[p.len() - 1] == p[0] {
        assert(i < i0);
        assert(ord[i] == p[0]);
    }
}
pub open spec fn first_index(ord: Seq<Name>, n: Name, upto: int) -> int
    decreases upto
{
    if upto <= 0 { 0 } else if exists|j: int| 0 <= j < upto && #[trigger] ord[j] == n { first_index(ord, n, upto - 1) } else { upto }
}
pub proof fn lemma_first_index(ord: Seq<Name>, n: Name, upto: int)
    requires 0 <= upto < ord.len(), ord[upto] == n
    ensures 0 <= first_index(ord, n, upto) <= upto, ord[first_index(ord, n, upto)] == n,
            forall|j: int| 0 <= j < first_index(ord, n, upto) ==> #[trigger] ord[j] != n
    decreases upto
{
    if upto > 0 && exists|j: int| 0 <= j < upto && #[trigger] ord[j] == n {
        // some earlier occurrence exists: recurse on the largest candidate below, found by scanning down
        let j = choose|j: int| 0 <= j < upto && #[trigger] ord[j] == n;
        lemma_first_index_scan(ord, n, upto - 1, j);
    }
}
pub proof fn lemma_first_index_scan(ord: Seq<Name>, n: Name, upto: int, j: int)
    requires 0 <= j <= upto < ord.len(), ord[j] == n
    ensures 0 <= first_index(ord, n, upto) <= upto, ord[first_index(ord, n, upto)] == n,
            forall|q: int| 0 <= q < first_index(ord, n, upto) ==> #[trigger] ord[q] != n
    decreases upto
{
    if upto > 0 {
        if exists|q: int| 0 <= q < upto && #[trigger] ord[q] == n {
            let q = choose|q: int| 0 <= q < upto && #[trigger] ord[q] == n;
            lemma_first_index_scan(ord, n, upto - 1, q);
        } else {
            // no occurrence strictly below upto: then j == upto
            assert(j == upto);
        }
    }
}
/// and none through `start` either: everything reachable from start is finished, and a finished
/// template never includes start (else start would be listed)
pub proof fn lemma_no_cycle_through_start(tera: &Tera, v: Set<Name>, start: Name, p: Seq<Name>, k: int)
    requires finished(tera, v), inc_all_in(tera, start, v), !v.contains(start), p.len() >= 2, p[0] == start, inc_path(tera, p), 1 <= k < p.len()
    ensures v.contains(p[k]), p[k] != start
    decreases k
{
    if k == 1 {
        assert(edge_at(tera, p, 0));
    } else {
        lemma_no_cycle_through_start(tera, v, start, p, k - 1);
        let ord = choose|ord: Seq<Name>| #[trigger] lists(ord, v) && topo(tera, ord);
        let i = choose|i: int| 0 <= i < ord.len() && #[trigger] ord[i] == p[k - 1];
        assert(edge_at(tera, p, k - 1));
        lemma_edge_goes_earlier(tera, ord, i, p[k]);
    }
}
