/// the groups after the first n elements (None: some element lacks the attribute, or its value cannot be a key)
pub open spec fn groups(val: Seq<Value>, n: int, a: Seq<char>) -> Option<vstd::map::Map<KeyV, Seq<Value>>>
    decreases n
{
    if n <= 0 { Some(vstd::map::Map::<KeyV, Seq<Value>>::empty()) } else {
        match groups(val, n - 1, a) {
            None => None,
            Some(g) => match path_spec(val[n - 1], a) {
                None => None,
                Some(x) => if x.none_spec() { Some(g) } else {
                    match as_key_spec(x) {
                        Err(_) => None,
                        Ok(k) => Some(g.insert(k, (if g.dom().contains(k) { g[k] } else { Seq::<Value>::empty() }).push(val[n - 1]))),
                    }
                },
            },
        }
    }
}
pub proof fn lemma_groups_none_mono(val: Seq<Value>, k: int, n: int, a: Seq<char>)
    requires 0 <= k <= n
    ensures groups(val, k, a) is None ==> groups(val, n, a) is None
    decreases n - k
{
    if k < n { lemma_groups_none_mono(val, k + 1, n, a); }
}
