// vocabulary shared by the VM arm contracts
