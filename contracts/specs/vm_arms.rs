// vocabulary shared by the VM arm contracts

/// a slice operand: none = absent, an integer = that integer, undefined or anything else = error
pub open spec fn operand_spec(v: Value) -> Result<Option<i128>, ()> {
    if v.none_spec() { Ok(None) }
    else if v.undefined_spec() { Err(()) }
    else { match v.i128_spec() { Some(n) => Ok(Some(n)), None => Err(()) } }
}
