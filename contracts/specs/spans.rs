// #[derive(Clone)] on Span (checked to exist in the real source): the derived clone returns an equal value
impl Clone for Span {
    #[verifier::external_body]
    fn clone(&self) -> (r: Self) ensures r == *self { unimplemented!() }
}

/// the spans recorded for instruction `idx` (one per path element for a fused path load/write, in source order)
pub open spec fn spans_of(c: &Chunk, idx: u32) -> Seq<Span> {
    if (idx as int) < c.instructions@.len() { c.instructions@[idx as int].1@ } else { Seq::empty() }
}
/// where the code of instruction `idx` starts in the source
pub open spec fn first_span(c: &Chunk, idx: u32) -> Option<Span> {
    if spans_of(c, idx).len() > 0 { Some(spans_of(c, idx)[0]) } else { None }
}
/// where the code of instruction `idx` ends in the source: a fused path `a.b.c` ends with its LAST element
pub open spec fn last_span(c: &Chunk, idx: u32) -> Option<Span> {
    if spans_of(c, idx).len() > 0 { Some(spans_of(c, idx).last()) } else { None }
}
/// C12: the span reported for a value computed by instructions `s ..= e` covers the expression: it starts
/// where the first instruction's code starts and ends where the last instruction's code ends
pub open spec fn covers_range(r: Span, s: Span, e: Span) -> bool {
    &&& r.start_line == s.start_line && r.start_col == s.start_col && r.range.start == s.range.start
    &&& r.end_line == e.end_line && r.end_col == e.end_col && r.range.end == e.range.end
}
