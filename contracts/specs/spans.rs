impl Chunk {
    /// the first span recorded for instruction idx (None if it has none): the contract of get_span
    pub uninterp spec fn span_spec(&self, idx: u32) -> Option<Span>;
    #[verifier::external_body]
    pub fn get_span(&self, idx: u32) -> (r: Option<&Span>)
        ensures r is Some == self.span_spec(idx) is Some, r is Some ==> *r->Some_0 == self.span_spec(idx)->Some_0
    { unimplemented!() }
}

// #[derive(Clone)] on Span (checked to exist in the real source): the derived clone returns an equal value
impl Clone for Span {
    #[verifier::external_body]
    fn clone(&self) -> (r: Self) ensures r == *self { unimplemented!() }
}
