// Collaborators of Value::get_attr (C15): the map as a duplicate-free list of entries; Key observed through
// `as_str` only.  That Key::Str(a) and Key::String(a) are equal and hash alike, and that no other key equals
// them, is engine K's group keylaws (ASSUMED here in vx_hash_get).
#[verifier::external_body]
pub struct Key { _p: () }
pub uninterp spec fn key_str(k: Key) -> Option<Seq<char>>;
impl Key {
    #[verifier::external_body]
    pub fn as_str(&self) -> (r: Option<&str>) ensures r is Some <==> key_str(*self) is Some, r is Some ==> r->Some_0@ == key_str(*self)->Some_0 { unimplemented!() }
}
#[verifier::external_body]
pub fn vx_str_eq(a: &str, b: &str) -> (r: bool) ensures r == (a@ == b@) { unimplemented!() }
#[verifier::external_body]
pub struct VxPayload { _p: () }
#[verifier::external_body]
pub struct Map { _p: () }
pub enum ValueInner { Map(Map), VxOther(VxPayload) }
pub struct Value { pub inner: ValueInner }
/// the entries in iteration order; keys pairwise different
pub uninterp spec fn entries(m: Map) -> Seq<(Key, Value)>;
/// the value stored under the string key a, if any
pub uninterp spec fn attr_lookup(m: Map, a: Seq<char>) -> Option<&'static Value>;
impl Map {
    #[verifier::external_body]
    pub fn len(&self) -> (r: usize) ensures r == entries(*self).len() { unimplemented!() }
}
/// `m.iter().find_map(f)` with the scan predicate proved in get_attr/scan_entry: the value of the first (and, keys
/// being unique, only) entry whose key is the string attr
#[verifier::external_body]
pub fn vx_scan<'a>(m: &'a Map, attr: &str) -> (r: Option<&'a Value>) ensures r == attr_lookup(*m, attr@) { unimplemented!() }
/// `m.get(&Key::Str(attr))`: the entry whose key EQUALS Key::Str(attr)
#[verifier::external_body]
pub fn vx_hash_get<'a>(m: &'a Map, attr: &str) -> (r: Option<&'a Value>) ensures r == attr_lookup(*m, attr@) { unimplemented!() }
#[verifier::external_body]
pub fn vx_starts_with(s: &str, p: &str) -> (r: bool) ensures r == p@.is_prefix_of(s@) { unimplemented!() }
#[verifier::external_body]
pub fn vx_ends_with(s: &str, p: &str) -> (r: bool) ensures r == p@.is_suffix_of(s@) { unimplemented!() }
pub uninterp spec fn eq_ignore_case(a: Seq<char>, b: Seq<char>) -> bool;
#[verifier::external_body]
pub fn vx_eq_ignore_case(a: &str, b: &str) -> (r: bool) ensures r == eq_ignore_case(a@, b@) { unimplemented!() }
