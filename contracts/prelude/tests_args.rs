// Collaborators of the argument-taking built-in tests (C17): typed extraction of keyword arguments (proved in
// engine K group builtins_args) as uninterpreted results per (kwargs, name); values are opaque with spec accessors.
#[verifier::external_body]
pub struct Error { _p: () }
impl Error { #[verifier::external_body] pub fn message(m: String) -> Error { unimplemented!() } }
pub type TeraResult<T> = Result<T, Error>;
#[verifier::external_body]
pub fn vx_fmt() -> String { unimplemented!() }
#[verifier::external_body]
pub struct Kwargs { _p: () }
#[verifier::external_body]
pub struct State { _p: () }
#[verifier::external_body]
pub struct Value { _p: () }
#[verifier::external_body]
pub struct Key { _p: () }
#[verifier::external_body]
pub struct VxArray { _p: () }
#[verifier::external_body]
pub struct VxMap { _p: () }
pub uninterp spec fn kind_of(v: Value) -> ValueKind;
/// the text of a string value (None for any other kind)
pub uninterp spec fn str_of(v: Value) -> Option<Seq<char>>;
pub uninterp spec fn arr_of(v: Value) -> VxArray;
pub uninterp spec fn map_of(v: Value) -> VxMap;
/// Value::as_key: the key a value converts to, or the conversion error
pub uninterp spec fn key_of(v: Value) -> Result<Key, Error>;
/// `[Value]::contains` (by ==), `Map::contains_key`, `str::contains(&str)` (std contracts, the relations uninterpreted)
pub uninterp spec fn arr_contains(a: VxArray, v: Value) -> bool;
pub uninterp spec fn map_has(m: VxMap, k: Key) -> bool;
pub uninterp spec fn contains_sub(s: Seq<char>, pat: Seq<char>) -> bool;
#[verifier::external_body]
pub proof fn axiom_str_kind(v: Value) ensures str_of(v) is Some <==> kind_of(v) is String {}
impl Value {
    #[verifier::external_body]
    pub fn as_str(&self) -> (r: Option<&str>) ensures r is Some == str_of(*self) is Some, r is Some ==> r->Some_0@ == str_of(*self)->Some_0 { unimplemented!() }
    /// Value::contains, the helper behind `in` (its contract: proved in unit value_items): arrays by ==, strings by
    /// substring (a needle that is not a string is not in it), maps by key (what cannot be a key is not in it),
    /// any other container an error
    #[verifier::external_body]
    pub fn contains(&self, needle: &Value) -> (r: TeraResult<bool>)
        ensures match kind_of(*self) {
            ValueKind::String => r is Ok && r->Ok_0 == (str_of(*needle) is Some && contains_sub(str_of(*self)->Some_0, str_of(*needle)->Some_0)),
            ValueKind::Array => r is Ok && r->Ok_0 == arr_contains(arr_of(*self), *needle),
            ValueKind::Map => r is Ok && r->Ok_0 == (key_of(*needle) is Ok && map_has(map_of(*self), key_of(*needle)->Ok_0)),
            _ => r is Err,
        }
    { unimplemented!() }
    #[verifier::external_body]
    pub fn kind(&self) -> (r: ValueKind) ensures r == kind_of(*self) { unimplemented!() }
    #[verifier::external_body]
    pub fn as_key(&self) -> (r: TeraResult<Key>) ensures r is Ok == key_of(*self) is Ok, r is Ok ==> r->Ok_0 == key_of(*self)->Ok_0 { unimplemented!() }
}
/// `val.as_str().unwrap()`: panics unless the value is a string
#[verifier::external_body]
pub fn vx_as_str_unwrap(v: &Value) -> (r: &str) requires kind_of(*v) is String ensures str_of(*v) is Some, r@ == str_of(*v)->Some_0 { unimplemented!() }
#[verifier::external_body]
pub fn vx_as_array_unwrap(v: &Value) -> (r: &VxArray) requires kind_of(*v) is Array ensures *r == arr_of(*v) { unimplemented!() }
#[verifier::external_body]
pub fn vx_as_map_unwrap(v: &Value) -> (r: &VxMap) requires kind_of(*v) is Map ensures *r == map_of(*v) { unimplemented!() }
impl VxArray { #[verifier::external_body] pub fn contains(&self, v: &Value) -> (r: bool) ensures r == arr_contains(*self, *v) { unimplemented!() } }
impl VxMap { #[verifier::external_body] pub fn contains_key(&self, k: &Key) -> (r: bool) ensures r == map_has(*self, *k) { unimplemented!() } }
#[verifier::external_body]
pub fn vx_str_contains(s: &str, pat: &str) -> (r: bool) ensures r == contains_sub(s@, pat@) { unimplemented!() }
#[verifier::external_body]
pub fn vx_starts_with(s: &str, pat: &str) -> (r: bool) ensures r == pat@.is_prefix_of(s@) { unimplemented!() }
#[verifier::external_body]
pub fn vx_ends_with(s: &str, pat: &str) -> (r: bool) ensures r == pat@.is_suffix_of(s@) { unimplemented!() }
/// `<&str as ArgFromValue>::from_value(v)`: the text of a string value, a type error for anything else
#[verifier::external_body]
pub fn vx_arg_str(v: &Value) -> (r: TeraResult<&str>) ensures r is Ok == str_of(*v) is Some, r is Ok ==> r->Ok_0@ == str_of(*v)->Some_0 { unimplemented!() }
pub uninterp spec fn kw_must_str(k: Kwargs, name: Seq<char>) -> Result<Seq<char>, Error>;
pub uninterp spec fn kw_must_value(k: Kwargs, name: Seq<char>) -> Result<Value, Error>;
#[verifier::external_body]
pub fn vx_kw_must_str<'a>(k: &'a Kwargs, name: &str) -> (r: TeraResult<&'a str>)
    ensures r is Ok <==> kw_must_str(*k, name@) is Ok, r is Ok ==> r->Ok_0@ == kw_must_str(*k, name@)->Ok_0
{ unimplemented!() }
#[verifier::external_body]
pub fn vx_kw_must_value<'a>(k: &'a Kwargs, name: &str) -> (r: TeraResult<&'a Value>)
    ensures r is Ok <==> kw_must_value(*k, name@) is Ok, r is Ok ==> *r->Ok_0 == kw_must_value(*k, name@)->Ok_0
{ unimplemented!() }
