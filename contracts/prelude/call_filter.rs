#[verifier::external_body]
pub struct Error { _p: () }
impl Error { #[verifier::external_body] pub fn message(m: String) -> Error { unimplemented!() } }
pub type TeraResult<T> = Result<T, Error>;
#[verifier::external_body]
pub fn vx_fmt() -> String { unimplemented!() }
#[verifier::external_body]
pub struct Value { _p: () }
#[verifier::external_body]
pub struct Kwargs { _p: () }
#[verifier::external_body]
pub struct StoredFilter { _p: () }
#[verifier::external_body]
pub struct State<'t> { _p: core::marker::PhantomData<&'t ()> }
pub uninterp spec fn lookup(s: State, name: Seq<char>) -> Option<&'static StoredFilter>;
pub uninterp spec fn call_spec(f: &StoredFilter, v: Value, k: Kwargs, s: State) -> Result<Value, Error>;
pub uninterp spec fn safe_filter(f: &StoredFilter) -> bool;
pub uninterp spec fn mark_safe_spec(v: Value) -> Value;
/// `self.filters.and_then(|f| f.get(name))`
#[verifier::external_body]
pub fn vx_lookup_filter<'a>(s: &'a State, name: &str) -> (r: Option<&'a StoredFilter>) ensures r == lookup(*s, name@) { unimplemented!() }
impl StoredFilter {
    #[verifier::external_body]
    pub fn call(&self, v: &Value, k: Kwargs, s: &State) -> (r: TeraResult<Value>) ensures r == call_spec(self, *v, k, *s) { unimplemented!() }
    #[verifier::external_body]
    pub fn is_safe(&self) -> (r: bool) ensures r == safe_filter(self) { unimplemented!() }
}
impl Value {
    #[verifier::external_body]
    pub fn mark_safe(self) -> (r: Value) ensures r == mark_safe_spec(self) { unimplemented!() }
}
// `Value: Clone` (derived in the real source): the clone is an equal value
impl Clone for Value {
    #[verifier::external_body]
    fn clone(&self) -> (r: Self) ensures r == *self { unimplemented!() }
}
