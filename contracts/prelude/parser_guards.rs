// Parser projected to its counters (R15).  The rest of the parser is *not* extracted: the bodies
// the guards call are trusted declarations whose contract is the inductive hypothesis "leaves the
// counter as it found it" — and whose precondition "depth <= MAX" makes a call beyond the limit a
// proof failure.
#[verifier::external_body]
pub struct VxOpaque { _p: () }
#[verifier::external_body]
pub struct Error { _p: () }
pub type TeraResult<T> = Result<T, Error>;
#[verifier::external_body]
pub struct Span { _p: () }
#[verifier::external_body]
pub struct Expression { _p: () }
#[verifier::external_body]
pub struct Node { _p: () }
#[verifier::external_body]
pub struct Token<'a> { _p: core::marker::PhantomData<&'a ()> }
impl Error {
    #[verifier::external_body]
    pub fn syntax_error(message: String, span: &Span) -> Error { unimplemented!() }
}
#[verifier::external_body]
pub fn vx_fmt() -> String { unimplemented!() }
