// Collaborators of ComponentDefinition::build_context (C05: arguments checked and bound, nothing
// else visible).  Maps are opaque with Map views; Value opaque; the type table
// (ComponentArgument::type_matches) is a trusted declaration here — its table is proved by engine K
// group `types`.
#[verifier::external_body]
pub struct VxOpaque { _p: () }
#[verifier::external_body]
pub fn vx_fmt() -> String { unimplemented!() }
#[verifier::external_body]
pub fn vx_unreachable() -> !
    requires false
{ unreachable!() }
pub type Name = Seq<char>;
#[verifier::external_body]
pub struct Value { _p: () }
impl Clone for Value { #[verifier::external_body] fn clone(&self) -> (r: Value) ensures r == *self { unimplemented!() } }
impl Value {
    #[verifier::external_body]
    pub fn name(&self) -> &'static str { unimplemented!() }
}
#[verifier::external_body]
pub struct Type { _p: () }
impl Type {
    #[verifier::external_body]
    pub fn as_str(&self) -> &'static str { unimplemented!() }
}
pub struct ComponentArgument { pub default: Option<Value>, pub typ: Option<Type> }
pub uninterp spec fn matches_spec(a: &ComponentArgument, v: Value) -> bool;
impl ComponentArgument {
    #[verifier::external_body]
    pub fn type_matches(&self, value: &Value) -> (r: bool) ensures r == matches_spec(self, *value) { unimplemented!() }
}
/// text of a key-like argument (String or &str)
pub trait VxText { spec fn text(&self) -> Name; }
impl VxText for String { open spec fn text(&self) -> Name { self@ } }
impl VxText for &str { open spec fn text(&self) -> Name { self@ } }

#[verifier::external_body]
#[verifier::reject_recursive_types(K)]
#[verifier::reject_recursive_types(V)]
pub struct BTreeMap<K, V> { _p: core::marker::PhantomData<(K, V)> }
impl<V> BTreeMap<String, V> {
    pub uninterp spec fn view_spec(&self) -> Map<Name, V>;
    #[verifier::external_body]
    pub fn contains_key(&self, k: &str) -> (r: bool) ensures r == self.view_spec().dom().contains(k@) { unimplemented!() }
}
/// `for (k, v) in &map`: every entry exactly once (std contract of BTreeMap iteration)
pub open spec fn entries_of<V>(m: Map<Name, V>, es: Seq<(&String, &V)>) -> bool {
    &&& forall|i: int| 0 <= i < es.len() ==> m.dom().contains((#[trigger] es[i]).0@) && m[es[i].0@] == *es[i].1
    &&& forall|i: int, j: int| 0 <= i < j < es.len() ==> (#[trigger] es[i]).0@ != (#[trigger] es[j]).0@
    &&& forall|k: Name| m.dom().contains(k) ==> exists|i: int| 0 <= i < es.len() && (#[trigger] es[i]).0@ == k
}
#[verifier::external_body]
pub fn vx_map_entries<'a, V>(m: &'a BTreeMap<String, V>) -> (r: Vec<(&'a String, &'a V)>)
    ensures entries_of(m.view_spec(), r@)
{ unimplemented!() }

pub mod value {
    use crate::*;
    verus! {
    /// value::Map (HashMap<Key, Value>) keyed here by the key's text
    #[verifier::external_body]
    pub struct Map { _p: () }
    impl Map {
        pub uninterp spec fn view_spec(&self) -> vstd::map::Map<Name, Value>;
        #[verifier::external_body]
        pub fn new() -> (r: Self) ensures r.view_spec() == vstd::map::Map::<Name, Value>::empty() { unimplemented!() }
        #[verifier::external_body]
        pub fn insert(&mut self, k: Key, v: Value) -> (r: Option<Value>) ensures final(self).view_spec() == old(self).view_spec().insert(k.text(), v) { unimplemented!() }
    }
    }
}
#[verifier::external_body]
pub struct Key { _p: () }
impl Key {
    pub uninterp spec fn text(&self) -> Name;
    #[verifier::external_body]
    pub fn from(s: String) -> (r: Key) ensures r.text() == s@ { unimplemented!() }
}
pub uninterp spec fn map_value(m: Map<Name, Value>) -> Value;
impl vstd::std_specs::convert::FromSpecImpl<crate::value::Map> for Value {
    open spec fn obeys_from_spec() -> bool { true }
    open spec fn from_spec(m: crate::value::Map) -> Value { map_value(m.view_spec()) }
}
impl From<crate::value::Map> for Value {
    #[verifier::external_body]
    fn from(m: crate::value::Map) -> Value { unimplemented!() }
}
#[verifier::external_body]
#[verifier::reject_recursive_types(T)]
pub struct HashSet<T> { _p: core::marker::PhantomData<T> }
impl HashSet<String> {
    pub uninterp spec fn view_spec(&self) -> Set<Name>;
    #[verifier::external_body] pub fn new() -> (r: Self) ensures r.view_spec() == Set::<Name>::empty() { unimplemented!() }
    #[verifier::external_body] pub fn insert(&mut self, s: String) -> (r: bool) ensures final(self).view_spec() == old(self).view_spec().insert(s@) { unimplemented!() }
    #[verifier::external_body] pub fn is_empty(&self) -> (r: bool) ensures r == (self.view_spec() == Set::<Name>::empty()) { unimplemented!() }
}
/// crate::Context: name -> value
#[verifier::external_body]
pub struct Context { _p: () }
impl Context {
    pub uninterp spec fn view_spec(&self) -> Map<Name, Value>;
    #[verifier::external_body]
    pub fn new() -> (r: Self) ensures r.view_spec() == Map::<Name, Value>::empty() { unimplemented!() }
    #[verifier::external_body]
    pub fn insert_value<S: VxText>(&mut self, key: S, val: Value) ensures final(self).view_spec() == old(self).view_spec().insert(key.text(), val) { unimplemented!() }
}
#[verifier::external_body]
pub fn vx_to_string(a: &str) -> (r: String) ensures r@ == a@ { unimplemented!() }
#[verifier::external_body]
pub fn vx_clone_string(s: &String) -> (r: String) ensures r@ == s@ { unimplemented!() }
#[verifier::external_body]
pub struct Node { _p: () }
