// Collaborators of SourceLocation::new (C12): line starts as byte offsets on character boundaries.
pub uninterp spec fn line_count(s: Seq<char>) -> nat;
/// byte offset at which line i (0-based) starts
pub uninterp spec fn line_start(s: Seq<char>, i: int) -> int;
/// `get_line_starts`: offset 0 and the offset after every '\n' — all of them character boundaries, increasing
#[verifier::external_body]
pub fn vx_line_starts(source: &str) -> (r: Vec<usize>)
    ensures r@.len() == line_count(source@), r@.len() >= 1,
        forall|i: int| 0 <= i < r@.len() ==> #[trigger] r@[i] == line_start(source@, i) && is_boundary(source@, r@[i] as int),
        forall|i: int, j: int| 0 <= i <= j < r@.len() ==> r@[i] <= r@[j],
{ unimplemented!() }
pub uninterp spec fn sub_bytes(s: Seq<char>, a: int, b: int) -> Seq<char>;
/// `&s[a..]`
#[verifier::external_body]
pub fn vx_str_slice_from<'a>(s: &'a str, r: RangeFrom<usize>) -> (o: &'a str)
    requires is_boundary(s@, r.start as int)
    ensures o@ == skip_bytes(s@, r.start as int)
{ unimplemented!() }
/// `&s[a..b]`
#[verifier::external_body]
pub fn vx_str_slice_range<'a>(s: &'a str, r: Range<usize>) -> (o: &'a str)
    requires is_boundary(s@, r.start as int), is_boundary(s@, r.end as int), r.start <= r.end
    ensures o@ == sub_bytes(s@, r.start as int, r.end as int)
{ unimplemented!() }
pub uninterp spec fn trim_end_char_spec(s: Seq<char>, c: char) -> Seq<char>;
#[verifier::external_body]
pub fn vx_trim_end_matches_char<'a>(s: &'a str, c: char) -> (o: &'a str) ensures o@ == trim_end_char_spec(s@, c) { unimplemented!() }
