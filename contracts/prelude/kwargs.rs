// `Kwargs` (a HashMap behind an Arc) is opaque; its two typed getters are trusted declarations
// whose results are uninterpreted functions of (kwargs, key).  C17's `range` contract is stated
// over these results.
#[verifier::external_body]
pub struct Kwargs { _p: () }
#[verifier::external_body]
pub struct State { _p: () }
pub uninterp spec fn kw_get<T>(k: &Kwargs, key: &str) -> TeraResult<Option<T>>;
impl Kwargs {
    #[verifier::external_body]
    pub fn get<T>(&self, key: &str) -> (r: TeraResult<Option<T>>)
        ensures r == kw_get::<T>(self, key)
    { unimplemented!() }
    #[verifier::external_body]
    pub fn must_get<T>(&self, key: &str) -> (r: TeraResult<T>)
        ensures
            kw_get::<T>(self, key) is Err ==> r is Err,
            kw_get::<T>(self, key) is Ok && kw_get::<T>(self, key)->Ok_0 is None ==> r is Err,
            kw_get::<T>(self, key) is Ok && kw_get::<T>(self, key)->Ok_0 is Some ==> r == Ok::<T, Error>(kw_get::<T>(self, key)->Ok_0->Some_0),
    { unimplemented!() }
}
