// The stop conditions of the Pratt loop (C02 "grouping follows the documented precedence table exactly"): the
// tables are decided by engine K (group precedence) on the premise that an operator is taken iff its LEFT binding
// power is at least the minimum the caller asked for; here that premise is checked for the three places of
// parse_expr_bp that compare a binding power with `min_bp`.
pub enum VxFlow<T> { Next, Return(T), Break, Continue }
pub enum BinaryOperator { Mul, Div, FloorDiv, Mod, Plus, Minus, Power, LessThan, LessThanOrEqual, GreaterThan, GreaterThanOrEqual, Equal, NotEqual, StrConcat, In, And, Or, Is, Pipe }
pub uninterp spec fn l_bp_of(op: BinaryOperator) -> u8;
pub uninterp spec fn r_bp_of(op: BinaryOperator) -> u8;
#[verifier::external_body]
pub fn binary_binding_power(op: BinaryOperator) -> (r: (u8, u8)) ensures r.0 == l_bp_of(op), r.1 == r_bp_of(op) { unimplemented!() }
