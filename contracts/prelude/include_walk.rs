// Registry and containers as seen by check_include_cycles (C11).  Tera is opaque (names,
// resolution function, stored template); HashSet/HashMap are opaque with set views.
#[verifier::external_body]
pub struct VxOpaque { _p: () }
#[verifier::external_body]
pub struct Error { _p: () }
impl Error {
    #[verifier::external_body]
    pub fn circular_include(tpl: &str, chain: Vec<String>) -> Error { unimplemented!() }
}
#[verifier::external_body]
pub struct Span { _p: () }
pub type Name = Seq<char>;

#[verifier::external_body]
#[verifier::reject_recursive_types(K)]
#[verifier::reject_recursive_types(V)]
pub struct HashMap<K, V> { _p: core::marker::PhantomData<(K, V)> }
impl<V> HashMap<String, V> {
    pub uninterp spec fn keys_spec(&self) -> Set<Name>;
}
pub open spec fn has_name(v: Seq<&String>, k: Name) -> bool { exists|i: int| 0 <= i < v.len() && #[trigger] v[i]@ == k }
/// `m.keys().collect::<Vec<&String>>()`: every key (std contract of HashMap::keys)
#[verifier::external_body]
pub fn vx_collect_keys<'a, V>(m: &'a HashMap<String, V>) -> (r: Vec<&'a String>)
    ensures forall|k: Name| #[trigger] m.keys_spec().contains(k) == has_name(r@, k)
{ unimplemented!() }
/// `v.sort()`: a permutation (only "same elements" is used)
#[verifier::external_body]
pub fn vx_sort_refs(v: &mut Vec<&String>)
    ensures final(v).len() == old(v).len(),
            forall|k: Name| #[trigger] has_name(final(v)@, k) == has_name(old(v)@, k)
{ unimplemented!() }

#[verifier::external_body]
#[verifier::reject_recursive_types(T)]
pub struct HashSet<T> { _p: core::marker::PhantomData<T> }
impl HashSet<String> {
    pub uninterp spec fn view_spec(&self) -> Set<Name>;
    #[verifier::external_body] pub fn new() -> (r: Self) ensures r.view_spec() == Set::<Name>::empty() { unimplemented!() }
    #[verifier::external_body] pub fn contains(&self, s: &str) -> (r: bool) ensures r == self.view_spec().contains(s@) { unimplemented!() }
    #[verifier::external_body] pub fn insert(&mut self, s: String) -> (r: bool) ensures final(self).view_spec() == old(self).view_spec().insert(s@) { unimplemented!() }
}

/// `Tera.templates: HashMap<String, Template>` — opaque, with its std lookup contracts
#[verifier::external_body]
pub struct TplMap { _p: () }
impl TplMap {
    pub uninterp spec fn names(&self) -> Set<Name>;
    pub uninterp spec fn tpl_spec(&self, name: Name) -> Template;
    /// exact lookup (HashMap::get_key_value)
    #[verifier::external_body]
    pub fn get_key_value(&self, k: &String) -> (r: Option<(&String, &Template)>)
        ensures r is Some == self.names().contains(k@),
                r is Some ==> r->Some_0.0@ == k@ && *r->Some_0.1 == self.tpl_spec(k@)
    { unimplemented!() }
    /// `&map[name]` (panics when absent, hence the precondition)
    #[verifier::external_body]
    pub fn vx_index(&self, name: &str) -> (r: &Template)
        requires self.names().contains(name@)
        ensures *r == self.tpl_spec(name@)
    { unimplemented!() }
}
pub struct Tera { pub templates: TplMap, pub vx_opaque: VxOpaque }
impl Tera {
    pub open spec fn names(&self) -> Set<Name> { self.templates.names() }
    pub open spec fn tpl_spec(&self, name: Name) -> Template { self.templates.tpl_spec(name) }
    /// the contract of resolve_template_name (exact name first, then the fallback prefixes)
    pub uninterp spec fn resolve_spec(&self, name: Name) -> Option<Name>;
    pub open spec fn wf(&self) -> bool {
        &&& forall|nm: Name| #[trigger] self.names().contains(nm) ==> self.tpl_spec(nm).name@ == nm
        &&& forall|nm: Name| (#[trigger] self.resolve_spec(nm)) is Some ==> self.names().contains(self.resolve_spec(nm)->Some_0)
        &&& forall|nm: Name| #[trigger] self.names().contains(nm) ==> self.resolve_spec(nm) == Some(nm)
    }
    #[verifier::external_body]
    pub fn resolve_template_name(&self, name: &String) -> (r: Option<&str>)
        ensures r.is_some() == self.resolve_spec(name@).is_some(),
                r.is_some() ==> r.unwrap()@ == self.resolve_spec(name@)->Some_0,
    { unimplemented!() }
}
#[verifier::external_body]
pub fn vx_contains(v: &Vec<String>, y: &str) -> (r: bool)
    ensures r == exists|i: int| 0 <= i < v.len() && #[trigger] v[i]@ == y@
{ unimplemented!() }
#[verifier::external_body]
pub fn vx_to_string(a: &str) -> (r: String) ensures r@ == a@ { unimplemented!() }
#[verifier::external_body]
pub fn vx_clone_vec(v: &Vec<String>) -> (r: Vec<String>) ensures r@ == v@ { unimplemented!() }
#[verifier::external_body]
pub fn vx_clone_string(s: &String) -> (r: String) ensures r@ == s@ { unimplemented!() }
