// Collaborators of the scoping / loop arms (C03).  ForLoop is opaque here (its protocol is unit
// for_loop); maps are opaque with a Map view.
#[verifier::external_body]
pub struct VxOpaque { _p: () }
#[verifier::external_body]
pub struct Error { _p: () }
pub type TeraResult<T> = Result<T, Error>;
#[verifier::external_body]
pub fn vx_rendering_error() -> Error { unimplemented!() }
#[verifier::external_body]
pub fn vx_fmt() -> String { unimplemented!() }
#[verifier::external_body]
pub struct Value { _p: () }
impl Value {
    pub uninterp spec fn iterable_spec(&self) -> bool;
    pub uninterp spec fn map_spec(&self) -> bool;
    pub uninterp spec fn of_bool(b: bool) -> Value;
    #[verifier::external_body] pub fn can_be_iterated_on(&self) -> (r: bool) ensures r == self.iterable_spec() { unimplemented!() }
    #[verifier::external_body] pub fn is_map(&self) -> (r: bool) ensures r == self.map_spec() { unimplemented!() }
    #[verifier::external_body] pub fn name(&self) -> &'static str { unimplemented!() }
}
impl vstd::std_specs::convert::FromSpecImpl<bool> for Value {
    open spec fn obeys_from_spec() -> bool { true }
    open spec fn from_spec(v: bool) -> Value { Value::of_bool(v) }
}
impl From<bool> for Value {
    #[verifier::external_body]
    fn from(v: bool) -> Value { unimplemented!() }
}
pub type Name = Seq<char>;
#[verifier::external_body]
#[verifier::reject_recursive_types(K)]
#[verifier::reject_recursive_types(V)]
pub struct BTreeMap<K, V> { _p: core::marker::PhantomData<(K, V)> }
impl<V> BTreeMap<String, V> {
    pub uninterp spec fn view_spec(&self) -> Map<Name, V>;
    #[verifier::external_body]
    pub fn insert(&mut self, k: String, v: V) -> (r: Option<V>)
        ensures final(self).view_spec() == old(self).view_spec().insert(k@, v)
    { unimplemented!() }
}
/// R16b: what the dispatch loop does after an arm: `ip += 1` (Next) or `ip = t` (Jump(t))
pub enum VxNext { Next, Jump(usize) }
/// ForLoop: its `end_ip` field is real, the rest opaque (protocol proved in unit for_loop)
// the protocol state of a loop lives in its opaque part (so assigning `end_ip` cannot change it)
pub uninterp spec fn vx_fl_k_spec(o: VxOpaque) -> int;
pub uninterp spec fn vx_fl_len_spec(o: VxOpaque) -> int;
pub uninterp spec fn vx_fl_locals_spec(o: VxOpaque) -> Map<Name, Value>;
pub uninterp spec fn vx_fl_rest_spec(o: VxOpaque) -> int;
pub uninterp spec fn vx_fl_names_spec(o: VxOpaque) -> Seq<Name>;
pub uninterp spec fn vx_fl_iterated_spec(o: VxOpaque) -> bool;
pub struct ForLoop { pub end_ip: usize, pub vx_opaque: VxOpaque }
impl ForLoop {
    /// number of advances done / number of items (the protocol state of unit for_loop)
    pub open spec fn k_spec(&self) -> int { vx_fl_k_spec(self.vx_opaque) }
    pub open spec fn len_spec(&self) -> int { vx_fl_len_spec(self.vx_opaque) }
    #[verifier::external_body]
    pub fn is_over(&self) -> (r: bool) ensures r == (self.k_spec() == self.len_spec()) { unimplemented!() }
    #[verifier::external_body]
    pub fn advance(&mut self)
        ensures final(self).k_spec() == old(self).k_spec() + 1, final(self).len_spec() == old(self).len_spec(), final(self).end_ip == old(self).end_ip,
                final(self).names_spec() == old(self).names_spec(), final(self).rest_spec() == old(self).rest_spec()
    { unimplemented!() }
    /// per-iteration locals (`{% set %}` inside the loop body)
    pub open spec fn locals_spec(&self) -> Map<Name, Value> { vx_fl_locals_spec(self.vx_opaque) }
    /// everything else about the loop (iterator, counters, value/key names)
    pub open spec fn rest_spec(&self) -> int { vx_fl_rest_spec(self.vx_opaque) }
    pub open spec fn names_spec(&self) -> Seq<Name> { vx_fl_names_spec(self.vx_opaque) }
    pub open spec fn iterated_spec(&self) -> bool { vx_fl_iterated_spec(self.vx_opaque) }
    pub uninterp spec fn fresh_for(container: Value, comprehension: bool) -> ForLoop;
    #[verifier::external_body]
    pub fn store(&mut self, name: &str, value: Value)
        ensures final(self).locals_spec() == old(self).locals_spec().insert(name@, value), final(self).rest_spec() == old(self).rest_spec(),
                final(self).names_spec() == old(self).names_spec(), final(self).iterated_spec() == old(self).iterated_spec()
    { unimplemented!() }
    #[verifier::external_body]
    pub fn store_local(&mut self, name: &str)
        ensures final(self).names_spec() == old(self).names_spec().push(name@), final(self).locals_spec() == old(self).locals_spec(),
                final(self).rest_spec() == old(self).rest_spec(), final(self).iterated_spec() == old(self).iterated_spec()
    { unimplemented!() }
    #[verifier::external_body]
    pub fn iterated(&self) -> (r: bool) ensures r == self.iterated_spec() { unimplemented!() }
    #[verifier::external_body]
    pub fn new(container: Value) -> (r: ForLoop) ensures r == Self::fresh_for(container, false) { unimplemented!() }
    #[verifier::external_body]
    pub fn new_comprehension(container: Value) -> (r: ForLoop) ensures r == Self::fresh_for(container, true) { unimplemented!() }
}
#[verifier::external_body]
pub fn vx_to_string(a: &str) -> (r: String) ensures r@ == a@ { unimplemented!() }
#[verifier::external_body]
pub fn vx_expect<T>(o: Option<T>) -> (r: T)
    requires o is Some
    ensures r == o->Some_0
{ unimplemented!() }
// `Value: Clone` (derived in the real source): the clone is an equal value
impl Clone for Value {
    #[verifier::external_body]
    fn clone(&self) -> (r: Self) ensures r == *self { unimplemented!() }
}
