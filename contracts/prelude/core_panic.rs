// R2: every panic site becomes the obligation "this call is unreachable"
#[verifier::external_body]
pub fn vx_unreachable() -> !
    requires false
{ unreachable!() }
// `Option::expect(msg)`: panics on None, so None must be proved impossible
#[verifier::external_body]
pub fn vx_expect<T>(o: Option<T>) -> (r: T)
    requires o is Some
    ensures r == o->Some_0
{ unimplemented!() }
