// Collaborators of the compiler's jump back-patching (C03/C02)
#[verifier::external_body]
pub struct VxOpaque { _p: () }
#[verifier::external_body]
pub struct Value { _p: () }
#[verifier::external_body]
pub struct Span { _p: () }
/// `span.into_iter().collect()`: zero or one span
#[verifier::external_body]
pub fn vx_spans_of(s: Option<Span>) -> (r: Vec<Span>) ensures r@.len() == (if s is Some { 1nat } else { 0nat }) { unimplemented!() }
impl Chunk {
    /// `self.instructions.get_mut(idx)` (std): a mutable reference to the element, or None out of range;
    /// what the caller writes through it is what the vector holds afterwards
    #[verifier::external_body]
    pub fn get_mut(&mut self, idx: usize) -> (r: Option<&mut (Instruction, Vec<Span>)>)
        ensures
            idx < old(self).instructions@.len() ==> r is Some && *r->Some_0 == old(self).instructions@[idx as int]
                && final(self).instructions@ == old(self).instructions@.update(idx as int, *final(r->Some_0)),
            idx >= old(self).instructions@.len() ==> r is None && final(self).instructions@ == old(self).instructions@,
    { unimplemented!() }
}
// payloads of the real Expression enum (extracted from the source) that no arm under contract looks into
#[verifier::external_body] pub struct Array { _p: () }
#[verifier::external_body] pub struct Map { _p: () }
#[verifier::external_body] pub struct Var { _p: () }
#[verifier::external_body] pub struct GetAttr { _p: () }

#[verifier::external_body] pub struct Slice { _p: () }
#[verifier::external_body] pub struct Test { _p: () }
#[verifier::external_body] pub struct ComponentCall { _p: () }
#[verifier::external_body] pub struct FunctionCall { _p: () }
#[verifier::external_body] pub struct UnaryOperation { _p: () }
#[verifier::external_body]
pub struct Node { _p: () }
/// a set of variable names (HashSet<String>): contents not needed here
#[verifier::external_body]
pub struct VxSet { _p: () }
#[verifier::external_body]
pub fn vx_set_new() -> VxSet { unimplemented!() }
#[verifier::external_body]
pub fn vx_set_insert(s: &mut VxSet, v: String) -> bool { unimplemented!() }
#[verifier::external_body]
pub fn vx_clone_string(s: &String) -> (r: String) ensures r@ == s@ { unimplemented!() }
#[verifier::external_body]
#[verifier::accept_recursive_types(T)]
pub struct Spanned<T> { _p: core::marker::PhantomData<T> }
pub uninterp spec fn bop_of(e: Spanned<BinaryOperation>) -> BinaryOperator;
impl Spanned<BinaryOperation> {
    #[verifier::external_body]
    pub fn into_parts(self) -> (r: (BinaryOperation, Span)) ensures r.0.op == bop_of(self) { unimplemented!() }
}
/// `Vec::last_mut` (std): a mutable reference to the last element; what is written through it is what the vector holds afterwards
#[verifier::external_body]
pub fn vx_last_mut(v: &mut Vec<ProcessingBody>) -> (r: Option<&mut ProcessingBody>)
    ensures
        old(v)@.len() > 0 ==> r is Some && *r->Some_0 == old(v)@.last() && final(v)@ == old(v)@.drop_last().push(*final(r->Some_0)),
        old(v)@.len() == 0 ==> r is None && final(v)@ == old(v)@,
{ unimplemented!() }
impl<T> Spanned<T> {
    /// the node a span is attached to
    #[verifier::external_body]
    pub fn node(&self) -> &T { unimplemented!() }
}
impl Value {
    #[verifier::external_body]
    pub fn as_str(&self) -> Option<&str> { unimplemented!() }
}
#[verifier::external_body]
pub fn vx_str_to_string(s: &str) -> (r: String) ensures r@ == s@ { unimplemented!() }
pub uninterp spec fn item_optional(e: Spanned<GetItem>) -> bool;
impl Spanned<GetItem> {
    #[verifier::external_body]
    pub fn into_parts(self) -> (r: (GetItem, Span)) ensures r.0.optional == item_optional(self) { unimplemented!() }
}
impl Spanned<Ternary> {
    #[verifier::external_body]
    pub fn into_parts(self) -> (Ternary, Span) { unimplemented!() }
}
// ---- set / set block arms
#[verifier::external_body]
pub struct VxKwargs { _p: () }
#[verifier::external_body]
pub struct VxCalls { _p: () }
/// `calls.entry(name).or_default().push(span)`
#[verifier::external_body]
pub fn vx_record_call(c: &mut VxCalls, name: String, span: Span) { unimplemented!() }
#[verifier::external_body]
pub fn vx_clone_span(s: &Span) -> Span { unimplemented!() }
/// `Vec::first_mut` / `Vec::last_mut` on the scope stack: the stack keeps its length (what the sets hold is not modelled)
#[verifier::external_body]
pub fn vx_sets_first_mut(v: &mut Vec<VxSet>) -> (r: Option<&mut VxSet>)
    ensures r is Some <==> old(v)@.len() > 0, final(v)@.len() == old(v)@.len()
{ unimplemented!() }
#[verifier::external_body]
pub fn vx_sets_last_mut(v: &mut Vec<VxSet>) -> (r: Option<&mut VxSet>)
    ensures r is Some <==> old(v)@.len() > 0, final(v)@.len() == old(v)@.len()
{ unimplemented!() }
impl Spanned<Filter> {
    #[verifier::external_body]
    pub fn into_parts(self) -> (Filter, Span) { unimplemented!() }
}
/// `filters.first().map(|f| f.span().clone())`
#[verifier::external_body]
pub fn vx_first_span(v: &Vec<Expression>) -> Option<Span> { unimplemented!() }
/// ASSUMED bound: an AST list is far shorter than 2^27
#[verifier::external_body]
pub proof fn axiom_ast_small(n: nat) ensures n < 0x0800_0000 {}
pub uninterp spec fn cond_of(e: Spanned<ListComprehension>) -> bool;
impl Spanned<ListComprehension> {
    #[verifier::external_body]
    pub fn into_parts(self) -> (r: (ListComprehension, Span)) ensures (r.0.condition is Some) == cond_of(self) { unimplemented!() }
}
// ---- compile_block
/// a name-keyed table (HashMap<String, T>): only the set of names matters here
#[verifier::external_body]
#[verifier::accept_recursive_types(T)]
pub struct VxTable<T> { _p: core::marker::PhantomData<T> }
impl<T> VxTable<T> { pub uninterp spec fn names(&self) -> vstd::set::Set<Seq<char>>; }
#[verifier::external_body]
pub fn vx_table_insert<T>(t: &mut VxTable<T>, name: String, v: T) -> (r: Option<T>)
    ensures final(t).names() == old(t).names().insert(name@)
{ unimplemented!() }
/// `std::mem::replace(&mut self.chunk, c)`
#[verifier::external_body]
pub fn vx_swap_chunk(slot: &mut Chunk, c: Chunk) -> (r: Chunk) ensures r == *old(slot), *final(slot) == c { unimplemented!() }
/// `std::mem::take(&mut self.processing_bodies)`
#[verifier::external_body]
pub fn vx_take_bodies(v: &mut Vec<ProcessingBody>) -> (r: Vec<ProcessingBody>) ensures r@ == old(v)@, final(v)@.len() == 0 { unimplemented!() }
pub uninterp spec fn spanned_string(s: Spanned<String>) -> String;
pub open spec fn block_name_of(b: Block) -> String { spanned_string(b.name) }
impl Spanned<String> {
    #[verifier::external_body]
    pub fn into_parts(self) -> (r: (String, Span)) ensures r.0 == spanned_string(self) { unimplemented!() }
}
impl Chunk {
    #[verifier::external_body]
    pub fn new(name: &str) -> (r: Chunk) ensures r.instructions@.len() == 0 { unimplemented!() }
}
// `Value: Clone` (derived in the real source): the clone is an equal value
impl Clone for Value {
    #[verifier::external_body]
    fn clone(&self) -> (r: Self) ensures r == *self { unimplemented!() }
}
