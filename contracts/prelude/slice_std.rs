// std contracts used by slice_items (assumed)
pub assume_specification[ i128::saturating_add ](a: i128, b: i128) -> (r: i128)
    ensures
        i128::MIN <= a + b <= i128::MAX ==> r == a + b,
        a + b > i128::MAX ==> r == i128::MAX,
        a + b < i128::MIN ==> r == i128::MIN;

pub assume_specification[ <i128 as Ord>::clamp ](a: i128, lo: i128, hi: i128) -> (r: i128)
    ensures lo <= hi ==> r == if a < lo { lo } else if a > hi { hi } else { a };
