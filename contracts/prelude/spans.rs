#[verifier::external_body]
pub struct VxOpaque { _p: () }
// RangeInclusive accessors (std contract: the two endpoints it was built from)
pub uninterp spec fn ri_start<T>(r: &core::ops::RangeInclusive<T>) -> T;
pub uninterp spec fn ri_end<T>(r: &core::ops::RangeInclusive<T>) -> T;
pub assume_specification<T>[ core::ops::RangeInclusive::<T>::start ](r: &core::ops::RangeInclusive<T>) -> (s: &T)
    ensures *s == ri_start(r);
pub assume_specification<T>[ core::ops::RangeInclusive::<T>::end ](r: &core::ops::RangeInclusive<T>) -> (s: &T)
    ensures *s == ri_end(r);
