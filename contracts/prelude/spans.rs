#[verifier::external_body]
pub struct VxOpaque { _p: () }
// RangeInclusive accessors (std contract: the two endpoints it was built from)
pub uninterp spec fn ri_start<T>(r: &core::ops::RangeInclusive<T>) -> T;
pub uninterp spec fn ri_end<T>(r: &core::ops::RangeInclusive<T>) -> T;
pub assume_specification<T>[ core::ops::RangeInclusive::<T>::start ](r: &core::ops::RangeInclusive<T>) -> (s: &T)
    ensures *s == ri_start(r);
pub assume_specification<T>[ core::ops::RangeInclusive::<T>::end ](r: &core::ops::RangeInclusive<T>) -> (s: &T)
    ensures *s == ri_end(r);
/// an instruction: its content plays no role for spans
#[verifier::external_body]
pub struct VxInstr { _p: () }
// std contracts of the slice accessors the span lookups go through
#[verifier::external_body]
pub fn vx_ins_get(v: &Vec<(VxInstr, Vec<Span>)>, i: usize) -> (r: Option<&(VxInstr, Vec<Span>)>)
    ensures r is Some == (i < v@.len()), r is Some ==> *r->Some_0 == v@[i as int]
{ unimplemented!() }
#[verifier::external_body]
pub fn vx_span_get(v: &Vec<Span>, i: usize) -> (r: Option<&Span>)
    ensures r is Some == (i < v@.len()), r is Some ==> *r->Some_0 == v@[i as int]
{ unimplemented!() }
#[verifier::external_body]
pub fn vx_first(v: &Vec<Span>) -> (r: Option<&Span>)
    ensures r is Some == (v@.len() > 0), r is Some ==> *r->Some_0 == v@[0]
{ unimplemented!() }
#[verifier::external_body]
pub fn vx_last(v: &Vec<Span>) -> (r: Option<&Span>)
    ensures r is Some == (v@.len() > 0), r is Some ==> *r->Some_0 == v@[v@.len() - 1]
{ unimplemented!() }
// Parser::eoi: the report and the error are opaque; what matters is the span they are built from
#[verifier::external_body]
pub struct Error { _p: () }
#[verifier::external_body]
pub struct ReportError { _p: () }
#[verifier::external_body]
pub fn vx_eoi_report(span: &Span) -> ReportError { unimplemented!() }
#[verifier::external_body]
pub fn vx_syntax_error(k: ErrorKind) -> Error { unimplemented!() }
pub enum ErrorKind { SyntaxError(Box<ReportError>) }
