// The registry (`Tera`) is opaque: a finite set of names, a resolution function (the contract of
// `resolve_template_name`: exact match first, then the fallback prefixes — its own body is a
// separate obligation) and the template stored under each name.
#[verifier::external_body]
pub struct VxOpaque { _p: () }
#[verifier::external_body]
pub struct Error { _p: () }
pub enum ErrKind { Circular, Missing }
impl Error {
    pub uninterp spec fn kind(&self) -> ErrKind;
    #[verifier::external_body]
    pub fn circular_extend(tpl: &String, chain: Vec<String>) -> (r: Error) ensures r.kind() == ErrKind::Circular { unimplemented!() }
    #[verifier::external_body]
    pub fn circular_include(tpl: &str, chain: Vec<String>) -> (r: Error) ensures r.kind() == ErrKind::Circular { unimplemented!() }
    #[verifier::external_body]
    pub fn missing_parent(cur: &String, parent: &String) -> (r: Error) ensures r.kind() == ErrKind::Missing { unimplemented!() }
}
#[verifier::external_body]
pub struct Tera { _p: () }
pub type Name = Seq<char>;

impl Tera {
    pub uninterp spec fn names(&self) -> Set<Name>;
    pub uninterp spec fn resolve_spec(&self, name: Name) -> Option<Name>;
    pub uninterp spec fn tpl_spec(&self, name: Name) -> Template;

    /// registry well-formedness (an invariant of `Tera.templates`: the map key is the template's name)
    pub open spec fn wf(&self) -> bool {
        &&& self.names().finite()
        &&& forall|nm: Name| #[trigger] self.names().contains(nm) ==> self.tpl_spec(nm).name@ == nm
        &&& forall|nm: Name| (#[trigger] self.resolve_spec(nm)) is Some ==> self.names().contains(self.resolve_spec(nm)->Some_0)
    }

    #[verifier::external_body]
    pub fn resolve_template_name(&self, name: &String) -> (r: Option<&str>)
        ensures r.is_some() == self.resolve_spec(name@).is_some(),
                r.is_some() ==> r.unwrap()@ == self.resolve_spec(name@)->Some_0,
    { unimplemented!() }

    /// `&tera.templates[resolved]` (HashMap index: panics when absent, hence the precondition)
    #[verifier::external_body]
    pub fn vx_get_tpl(&self, name: &str) -> (r: &Template)
        requires self.names().contains(name@)
        ensures *r == self.tpl_spec(name@)
    { unimplemented!() }
}

// R8 / R14 shims and std contracts (assumed)
#[verifier::external_body]
pub fn vx_contains(v: &Vec<String>, y: &str) -> (r: bool)
    ensures r == exists|i: int| 0 <= i < v.len() && #[trigger] v[i]@ == y@
{ unimplemented!() }
#[verifier::external_body]
pub fn vx_str_eq(a: &str, b: &String) -> (r: bool) ensures r == (a@ == b@) { unimplemented!() }
#[verifier::external_body]
pub fn vx_to_string(a: &str) -> (r: String) ensures r@ == a@ { unimplemented!() }
#[verifier::external_body]
pub fn vx_reverse(v: &mut Vec<String>) ensures final(v)@ == old(v)@.reverse() { unimplemented!() }
#[verifier::external_body]
pub fn vx_clone_string(s: &String) -> (r: String) ensures r@ == s@ { unimplemented!() }
#[verifier::external_body]
pub fn vx_clone_vec(v: &Vec<String>) -> (r: Vec<String>) ensures r@ == v@ { unimplemented!() }
/// `v.extend(w.iter().cloned())` / `v.extend(w.iter().rev().cloned())` (std): the clones, in that order, appended
#[verifier::external_body]
pub fn vx_extend_cloned(v: &mut Vec<String>, w: &Vec<String>)
    ensures final(v)@.len() == old(v)@.len() + w@.len(),
        forall|i: int| 0 <= i < old(v)@.len() ==> final(v)@[i] == old(v)@[i],
        forall|i: int| 0 <= i < w@.len() ==> #[trigger] final(v)@[old(v)@.len() + i]@ == w@[i]@
{ unimplemented!() }
#[verifier::external_body]
pub fn vx_extend_rev_cloned(v: &mut Vec<String>, w: &Vec<String>)
    ensures final(v)@.len() == old(v)@.len() + w@.len(),
        forall|i: int| 0 <= i < old(v)@.len() ==> final(v)@[i] == old(v)@[i],
        forall|i: int| 0 <= i < w@.len() ==> #[trigger] final(v)@[old(v)@.len() + i]@ == w@[w@.len() - 1 - i]@
{ unimplemented!() }
