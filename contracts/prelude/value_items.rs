// Collaborators of Value::get_item (C14 / C02 / C01): real ValueInner / Value, opaque payloads
#[verifier::external_body]
pub struct Error { _p: () }
impl Error { #[verifier::external_body] pub fn message(m: String) -> Error { unimplemented!() } }
pub type TeraResult<T> = Result<T, Error>;
#[verifier::external_body]
pub fn vx_fmt() -> String { unimplemented!() }
#[verifier::external_body]
pub struct Map { _p: () }
#[verifier::external_body]
pub struct Key { _p: () }
#[verifier::external_body]
pub struct KeyV { _p: () }
pub uninterp spec fn key_view(k: Key) -> KeyV;
pub uninterp spec fn as_key_spec(v: Value) -> Result<KeyV, Error>;
pub uninterp spec fn map_has(m: Map, k: KeyV) -> bool;
pub uninterp spec fn map_at(m: Map, k: KeyV) -> Value;
pub open spec fn the_undefined() -> Value { Value { inner: ValueInner::Undefined } }
/// `m.get(&k).cloned().unwrap_or(d)`
#[verifier::external_body]
pub fn vx_map_get_or(m: &Arc<Map>, k: &Key, d: Value) -> (r: Value)
    ensures r == (if map_has(**m, key_view(*k)) { map_at(**m, key_view(*k)) } else { d })
{ unimplemented!() }
#[verifier::external_body]
pub struct SmartString { _p: () }
impl SmartString {
    pub uninterp spec fn text(&self) -> Seq<char>;
    pub uninterp spec fn kind_spec(&self) -> StringKind;
    #[verifier::external_body]
    pub fn kind(&self) -> (r: StringKind) ensures r == self.kind_spec() { unimplemented!() }
    #[verifier::external_body]
    pub fn as_str(&self) -> (r: &str) ensures r@ == self.text() { unimplemented!() }
    #[verifier::external_body]
    pub fn new(s: &String, kind: StringKind) -> (r: SmartString) ensures r.text() == s@, r.kind_spec() == kind { unimplemented!() }
}
/// `s.chars().collect::<Vec<char>>()`
#[verifier::external_body]
pub fn vx_chars_vec(s: &SmartString) -> (r: Vec<char>) ensures r@ == s.text() { unimplemented!() }
#[verifier::external_body]
pub fn vx_char_to_string(c: &char) -> (r: String) ensures r@ == seq![*c] { unimplemented!() }
/// index normalisation (engine K group index proves it over all integer kinds and lengths)
pub uninterp spec fn index_spec(item: Value, len: int) -> Result<Option<usize>, Error>;
#[verifier::external_body]
pub fn resolve_index(item: &Value, len: usize, what: &str) -> (r: TeraResult<Option<usize>>)
    ensures r is Ok <==> index_spec(*item, len as int) is Ok, r is Ok ==> r->Ok_0 == index_spec(*item, len as int)->Ok_0,
        r is Ok && r->Ok_0 is Some ==> r->Ok_0->Some_0 < len
{ unimplemented!() }
impl Value {
    #[verifier::external_body]
    pub fn as_key(&self) -> (r: TeraResult<Key>)
        ensures r is Ok <==> as_key_spec(*self) is Ok, r is Ok ==> key_view(r->Ok_0) == as_key_spec(*self)->Ok_0
    { unimplemented!() }
    #[verifier::external_body]
    pub fn name(&self) -> &'static str { unimplemented!() }
    #[verifier::external_body]
    pub fn undefined() -> (r: Value) ensures r == the_undefined() { unimplemented!() }
}
impl Clone for Value { #[verifier::external_body] fn clone(&self) -> (r: Value) ensures r == *self { unimplemented!() } }
