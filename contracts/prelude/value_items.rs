// Collaborators of Value::get_item (C14 / C02 / C01): real ValueInner / Value, opaque payloads
#[verifier::external_body]
pub struct Error { _p: () }
impl Error { #[verifier::external_body] pub fn message(m: String) -> Error { unimplemented!() } }
pub type TeraResult<T> = Result<T, Error>;
#[verifier::external_body]
pub fn vx_fmt() -> String { unimplemented!() }
#[verifier::external_body]
pub struct Map { _p: () }
#[verifier::external_body]
pub struct Key { _p: () }
#[verifier::external_body]
pub struct KeyV { _p: () }
pub uninterp spec fn key_view(k: Key) -> KeyV;
pub uninterp spec fn as_key_spec(v: Value) -> Result<KeyV, Error>;
pub uninterp spec fn map_has(m: Map, k: KeyV) -> bool;
pub uninterp spec fn map_at(m: Map, k: KeyV) -> Value;
pub open spec fn the_undefined() -> Value { Value { inner: ValueInner::Undefined } }
/// `m.get(&k).cloned().unwrap_or(d)`
#[verifier::external_body]
pub fn vx_map_get_or(m: &Arc<Map>, k: &Key, d: Value) -> (r: Value)
    ensures r == (if map_has(**m, key_view(*k)) { map_at(**m, key_view(*k)) } else { d })
{ unimplemented!() }
#[verifier::external_body]
pub struct SmartString { _p: () }
impl SmartString {
    pub uninterp spec fn text(&self) -> Seq<char>;
    pub uninterp spec fn kind_spec(&self) -> StringKind;
    #[verifier::external_body]
    pub fn kind(&self) -> (r: StringKind) ensures r == self.kind_spec() { unimplemented!() }
    #[verifier::external_body]
    pub fn as_str(&self) -> (r: &str) ensures r@ == self.text() { unimplemented!() }
    #[verifier::external_body]
    pub fn new(s: &String, kind: StringKind) -> (r: SmartString) ensures r.text() == s@, r.kind_spec() == kind { unimplemented!() }
}
/// `s.chars().collect::<Vec<char>>()`
#[verifier::external_body]
pub fn vx_chars_vec(s: &SmartString) -> (r: Vec<char>) ensures r@ == s.text() { unimplemented!() }
#[verifier::external_body]
pub fn vx_char_to_string(c: &char) -> (r: String) ensures r@ == seq![*c] { unimplemented!() }
/// index normalisation (engine K group index proves it over all integer kinds and lengths)
pub uninterp spec fn index_spec(item: Value, len: int) -> Result<Option<usize>, Error>;
#[verifier::external_body]
pub fn resolve_index(item: &Value, len: usize, what: &str) -> (r: TeraResult<Option<usize>>)
    ensures r is Ok <==> index_spec(*item, len as int) is Ok, r is Ok ==> r->Ok_0 == index_spec(*item, len as int)->Ok_0,
        r is Ok && r->Ok_0 is Some ==> r->Ok_0->Some_0 < len
{ unimplemented!() }
impl Value {
    #[verifier::external_body]
    pub fn as_key(&self) -> (r: TeraResult<Key>)
        ensures r is Ok <==> as_key_spec(*self) is Ok, r is Ok ==> key_view(r->Ok_0) == as_key_spec(*self)->Ok_0
    { unimplemented!() }
    #[verifier::external_body]
    pub fn name(&self) -> &'static str { unimplemented!() }
    #[verifier::external_body]
    pub fn undefined() -> (r: Value) ensures r == the_undefined() { unimplemented!() }
}
impl Clone for Value { #[verifier::external_body] fn clone(&self) -> (r: Value) ensures r == *self { unimplemented!() } }
// ---- Value::contains (`in`), Value::reverse
/// `==` on values (C15: engine K groups valuelaws / numcmp decide what it means)
pub uninterp spec fn value_eq(a: Value, b: Value) -> bool;
/// `arr.contains(needle)` (std): some element is == the needle
#[verifier::external_body]
pub fn vx_vec_contains(v: &Arc<Vec<Value>>, needle: &Value) -> (r: bool)
    ensures r == exists|i: int| 0 <= i < (**v)@.len() && value_eq(#[trigger] (**v)@[i], *needle)
{ unimplemented!() }
/// `hay.contains(needle)` on texts (std): the needle occurs as a contiguous run of characters
pub open spec fn occurs_in(needle: Seq<char>, hay: Seq<char>) -> bool { exists|i: int| 0 <= i && i + needle.len() <= hay.len() && #[trigger] hay.subrange(i, i + needle.len()) == needle }
#[verifier::external_body]
pub fn vx_str_contains(hay: &str, needle: &str) -> (r: bool) ensures r == occurs_in(needle@, hay@) { unimplemented!() }
#[verifier::external_body]
pub fn vx_map_contains_key(m: &Arc<Map>, k: &Key) -> (r: bool) ensures r == map_has(**m, key_view(*k)) { unimplemented!() }
pub uninterp spec fn as_str_spec(v: Value) -> Option<Seq<char>>;
impl Value {
    #[verifier::external_body]
    pub fn as_str(&self) -> (r: Option<&str>)
        ensures r is Some == as_str_spec(*self) is Some, r is Some ==> r->Some_0@ == as_str_spec(*self)->Some_0
    { unimplemented!() }
}
/// `(**v).clone()` followed by `reverse()` (std), `Self::from(vec)`
#[verifier::external_body]
pub fn vx_clone_values(v: &Arc<Vec<Value>>) -> (r: Vec<Value>) ensures r@ == (**v)@ { unimplemented!() }
#[verifier::external_body]
pub fn vx_reverse_values(v: &mut Vec<Value>) ensures final(v)@ == old(v)@.reverse() { unimplemented!() }
pub uninterp spec fn array_value(s: Seq<Value>) -> Value;
pub uninterp spec fn bytes_value(s: Seq<u8>) -> Value;
pub uninterp spec fn string_value(s: Seq<char>) -> Value;
#[verifier::external_body]
pub fn vx_value_from_vec(v: Vec<Value>) -> (r: Value) ensures r == array_value(v@) { unimplemented!() }
#[verifier::external_body]
pub fn vx_value_from_bytes_rev(v: &Arc<Vec<u8>>) -> (r: Value) ensures r == bytes_value((**v)@.reverse()) { unimplemented!() }
/// `s.as_str().chars().rev().collect::<String>()` then `Self::from(..)`: the CHARACTERS in reverse order
#[verifier::external_body]
pub fn vx_chars_rev_string(s: &str) -> (r: String) ensures r@ == s@.reverse() { unimplemented!() }
#[verifier::external_body]
pub fn vx_value_from_string(s: String) -> (r: Value) ensures r == string_value(s@) { unimplemented!() }
