// u8 / char classification methods (std contracts)
pub open spec fn ascii_alpha(c: u8) -> bool { (0x41 <= c && c <= 0x5a) || (0x61 <= c && c <= 0x7a) }
pub open spec fn ascii_digit(c: u8) -> bool { 0x30 <= c && c <= 0x39 }
#[verifier::external_body]
pub fn vx_u8_is_ascii_alphabetic(c: u8) -> (r: bool) ensures r == ascii_alpha(c) { unimplemented!() }
#[verifier::external_body]
pub fn vx_u8_is_ascii_alphanumeric(c: u8) -> (r: bool) ensures r == (ascii_alpha(c) || ascii_digit(c)) { unimplemented!() }
/// Unicode classes: true for many non-ASCII characters (no relation to ASCII-ness is promised)
pub uninterp spec fn uni_alnum(c: char) -> bool;
pub uninterp spec fn uni_alpha(c: char) -> bool;
#[verifier::external_body]
pub fn vx_char_is_alphanumeric(c: char) -> (r: bool) ensures r == uni_alnum(c) { unimplemented!() }
#[verifier::external_body]
pub fn vx_char_is_alphabetic(c: char) -> (r: bool) ensures r == uni_alpha(c) { unimplemented!() }
#[verifier::external_body]
pub fn vx_u8_is_ascii_digit(c: u8) -> (r: bool) ensures r == ascii_digit(c) { unimplemented!() }
pub uninterp spec fn uni_numeric(c: char) -> bool;
#[verifier::external_body]
pub fn vx_char_is_numeric(c: char) -> (r: bool) ensures r == uni_numeric(c) { unimplemented!() }
