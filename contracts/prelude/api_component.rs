// Collaborators of Tera::render_component_to (C05 scope isolation, C01 per-call autoescape, C18): the component
// table, ComponentDefinition::build_context (unit `components`), the VM constructor (unit vm_depth) and the
// interpreter as declarations.
#[verifier::external_body]
pub struct Error { _p: () }
pub type TeraResult<T> = Result<T, Error>;
impl Error {
    #[verifier::external_body]
    pub fn component_not_found(name: &str) -> Error { unimplemented!() }
}
#[verifier::external_body]
pub struct Context { _p: () }
#[verifier::external_body]
pub struct Value { _p: () }
#[verifier::external_body]
pub struct VxOpaque { _p: () }
#[verifier::external_body]
pub struct ComponentDefinition { _p: () }
pub struct Chunk { pub name: String, pub vx_opaque: VxOpaque }
#[verifier::external_body]
pub struct Template { _p: () }
#[verifier::external_body]
pub struct VxWriter { _p: () }
pub struct Tera { pub filters: VxOpaque, pub global_context: Context, pub vx_opaque: VxOpaque }
/// the global component table and the template registry, by content
pub uninterp spec fn component_of(t: &Tera, name: Seq<char>) -> Option<(&ComponentDefinition, &Chunk)>;
pub uninterp spec fn template_of(t: &Tera, name: Seq<char>) -> Option<&Template>;
/// what build_context makes of (definition, caller's context, optional body value): unit `components`
pub uninterp spec fn built_context(d: &ComponentDefinition, c: &Context, body: Option<Value>) -> Result<Context, ()>;
pub uninterp spec fn safe_string_value(s: Seq<char>) -> Value;
/// registry invariant kept by finalize_templates (unit comp_table): a component's chunk is named after a registered template
pub open spec fn components_wf(t: &Tera) -> bool {
    forall|n: Seq<char>| #[trigger] component_of(t, n) is Some ==> template_of(t, component_of(t, n)->Some_0.1.name@) is Some
}
/// `self.components.get(name)` (std contract of HashMap::get, the entry as a pair of references)
#[verifier::external_body]
pub fn vx_component_get<'a>(t: &'a Tera, name: &str) -> (r: Option<(&'a ComponentDefinition, &'a Chunk)>)
    ensures r is Some == component_of(t, name@) is Some, r is Some ==> r->Some_0 == component_of(t, name@)->Some_0
{ unimplemented!() }
#[verifier::external_body]
pub fn vx_template_lookup<'a>(t: &'a Tera, name: &String) -> (r: &'a Template)
    requires template_of(t, name@) is Some
    ensures r == template_of(t, name@)->Some_0
{ unimplemented!() }
#[verifier::external_body]
pub fn vx_safe_body(body: Option<&str>) -> (r: Option<Value>)
    ensures r is Some == body is Some, r is Some ==> r->Some_0 == safe_string_value(body->Some_0@)
{ unimplemented!() }
#[verifier::external_body]
pub fn vx_build_context(d: &ComponentDefinition, c: &Context, body: Option<Value>) -> (r: TeraResult<Context>)
    ensures r is Ok == built_context(d, c, body) is Ok, r is Ok ==> r->Ok_0 == built_context(d, c, body)->Ok_0
{ unimplemented!() }
pub struct VirtualMachine<'t> { pub tera: &'t Tera, pub template: &'t Template, pub autoescape_override: Option<bool>, pub component_recursion_depth: usize }
pub struct State<'t> {
    pub context: &'t Context,
    pub chunk_spec: Ghost<Option<&'t Chunk>>,
    pub filters: Option<&'t VxOpaque>,
    pub global_context: Option<&'t Context>,
    pub include_parent: Option<&'t State<'t>>,
    pub vx_opaque: VxOpaque,
}
impl<'t> State<'t> {
    #[verifier::external_body]
    pub fn new_with_chunk(context: &'t Context, chunk: &'t Chunk) -> (r: Self)
        ensures r.context == context, r.chunk_spec@ == Some(chunk), r.include_parent is None, r.global_context is None, r.filters is None
    { unimplemented!() }
}
/// what running a component body produces: a function of the VM settings and the state it starts from
pub uninterp spec fn interp_fails(vm: VirtualMachine, context: &Context, chunk: &Chunk) -> bool;
impl<'t> VirtualMachine<'t> {
    /// contract of VirtualMachine::new_with_autoescape (unit vm_depth)
    #[verifier::external_body]
    pub fn new_with_autoescape(tera: &'t Tera, template: &'t Template, autoescape: bool) -> (r: Self)
        ensures r.tera == tera, r.template == template, r.autoescape_override == Some(autoescape), r.component_recursion_depth == 0
    { unimplemented!() }
    #[verifier::external_body]
    pub fn new(tera: &'t Tera, template: &'t Template) -> (r: Self)
        ensures r.tera == tera, r.template == template, r.autoescape_override is None, r.component_recursion_depth == 0
    { unimplemented!() }
    #[verifier::external_body]
    pub fn interpret(&self, state: &mut State<'t>, output: &mut VxWriter) -> (r: TeraResult<()>)
        requires old(state).chunk_spec@ is Some
        ensures r is Err == interp_fails(*self, old(state).context, old(state).chunk_spec@->Some_0)
    { unimplemented!() }
}
