// Collaborators of render_component / render_include (C05 recursion bound, C11 include depth).
// `interpret` is a trusted declaration whose *precondition* is the depth invariant: calling it
// with a deeper VM than allowed is a proof failure.
#[verifier::external_body]
pub struct VxOpaque { _p: () }
#[verifier::external_body]
pub struct Error { _p: () }
pub type TeraResult<T> = Result<T, Error>;
impl Error {
    #[verifier::external_body]
    pub fn message<T>(message: T) -> Error { unimplemented!() }
}
#[verifier::external_body]
pub struct Chunk { _p: () }
#[verifier::external_body]
pub struct Context { _p: () }
pub struct Template { pub chunk: Chunk, pub vx_opaque: VxOpaque }
pub struct Tera { pub filters: VxOpaque, pub global_context: Context, pub vx_opaque: VxOpaque }
impl Tera {
    #[verifier::external_body]
    pub fn must_get_template(&self, name: &str) -> TeraResult<&Template> { unimplemented!() }
}
pub struct State<'t> {
    pub context: &'t Context,
    pub filters: Option<&'t VxOpaque>,
    pub global_context: Option<&'t Context>,
    pub include_parent: Option<&'t State<'t>>,
    pub vx_opaque: VxOpaque,
}
impl<'t> State<'t> {
    #[verifier::external_body]
    pub fn new_with_chunk(context: &'t Context, chunk: &'t Chunk) -> (r: Self)
        ensures r.context == context, r.include_parent is None, r.global_context is None
    { unimplemented!() }
}
#[verifier::external_body]
pub fn vx_string_from_utf8(v: Vec<u8>) -> TeraResult<String> { unimplemented!() }
