#[verifier::external_body]
pub struct VxOpaque { _p: () }
#[verifier::external_body]
pub struct Error { _p: () }
#[verifier::external_body]
pub struct Span { _p: () }
impl Error { #[verifier::external_body] pub fn syntax_error(m: String, span: &Span) -> Error { unimplemented!() } }
pub type TeraResult<T> = Result<T, Error>;
#[verifier::external_body]
pub fn vx_fmt() -> String { unimplemented!() }
#[verifier::external_body]
pub struct Token { _p: () }
pub uninterp spec fn is_break_tok(t: Token) -> bool;
/// `tag_token == Token::Ident("break")`
#[verifier::external_body]
pub fn vx_is_break(t: &Token) -> (r: bool) ensures r == is_break_tok(*t) { unimplemented!() }
/// the two nodes this arm builds (every other variant of the real enum collapsed)
pub enum Node { Break, Continue, VxOther(VxOpaque) }
pub struct Parser { pub body_contexts: Vec<BodyContext>, pub current_span: Span, pub vx_opaque: VxOpaque }
/// `Vec<BodyContext>::contains(&x)` (std: some element == x; derived PartialEq of a field-less enum)
#[verifier::external_body]
pub fn vx_ctx_contains(v: &Vec<BodyContext>, x: &BodyContext) -> (r: bool)
    ensures r == exists|i: int| 0 <= i < v@.len() && #[trigger] v@[i] == *x
{ unimplemented!() }
