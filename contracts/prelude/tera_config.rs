// Tera as seen by set_delimiters (C08/C06) and get_template_priority (C05)
#[verifier::external_body]
pub struct VxOpaque { _p: () }
#[verifier::external_body]
pub struct Error { _p: () }
pub type TeraResult<T> = Result<T, Error>;
impl Error { #[verifier::external_body] pub fn message<T>(m: T) -> Error { unimplemented!() } }
#[verifier::external_body]
pub struct Delimiters { _p: () }
/// what Delimiters::validate accepts (engine K, group delims: exactly the sets of six 2-byte markers whose three
/// start markers are pairwise different)
pub uninterp spec fn valid_delims(d: Delimiters) -> bool;
impl Delimiters {
    #[verifier::external_body]
    pub fn validate(&self) -> (r: TeraResult<()>) ensures r is Ok == valid_delims(*self) { unimplemented!() }
}
#[verifier::external_body]
pub struct VxTemplates { _p: () }
impl VxTemplates {
    pub uninterp spec fn count(&self) -> nat;
    #[verifier::external_body]
    pub fn is_empty(&self) -> (r: bool) ensures r == (self.count() == 0) { unimplemented!() }
}
pub struct Tera { pub templates: VxTemplates, pub delimiters: Delimiters, pub fallback_prefixes: Vec<String>, pub vx_opaque: VxOpaque }
pub assume_specification[ <String as AsRef<str>>::as_ref ](s: &String) -> (r: &str) ensures r@ == s@;
#[verifier::external_body]
pub fn vx_starts_with(s: &str, p: &str) -> (r: bool) ensures r == p@.is_prefix_of(s@) { unimplemented!() }
