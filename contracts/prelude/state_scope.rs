// Opaque collaborators of State::get_value (C03 scope order).  Maps are opaque with a lookup
// view; `ForLoop::get` is abstracted to its result (its own body: loop.* names, locals, value,
// key — covered by unit for_loop and a bounded K harness).
#[verifier::external_body]
pub struct VxOpaque { _p: () }
#[verifier::external_body]
pub struct Value { _p: () }
impl Clone for Value { #[verifier::external_body] fn clone(&self) -> (r: Value) ensures r == *self { unimplemented!() } }
impl Value {
    pub uninterp spec fn undefined_spec(&self) -> bool;
    pub uninterp spec fn the_undefined() -> Value;
    #[verifier::external_body] pub fn is_undefined(&self) -> (r: bool) ensures r == self.undefined_spec() { unimplemented!() }
    #[verifier::external_body] pub fn undefined() -> (r: Value) ensures r == Self::the_undefined(), r.undefined_spec() { unimplemented!() }
}
pub type Name = Seq<char>;

#[verifier::external_body]
#[verifier::reject_recursive_types(B)]
pub struct Cow<'a, B: ?Sized> { _p: core::marker::PhantomData<&'a B> }

#[verifier::external_body]
#[verifier::reject_recursive_types(K)]
#[verifier::reject_recursive_types(V)]
pub struct BTreeMap<K, V> { _p: core::marker::PhantomData<(K, V)> }
impl<K, V> BTreeMap<K, V> {
    pub uninterp spec fn get_spec(&self, name: Name) -> Option<V>;
    #[verifier::external_body]
    pub fn get(&self, name: &str) -> (r: Option<&V>)
        ensures r.is_some() == self.get_spec(name@).is_some(), r.is_some() ==> *r.unwrap() == self.get_spec(name@)->Some_0
    { unimplemented!() }
}

#[verifier::external_body]
pub struct ForLoop { _p: () }
impl ForLoop {
    pub uninterp spec fn get_spec(&self, name: Name) -> Option<Value>;
    #[verifier::external_body]
    pub fn get(&self, name: &str) -> (r: Option<Value>) ensures r == self.get_spec(name@) { unimplemented!() }
}
