// parse_component_definition, the end of the "default value" branch (C05 "arguments checked and bound"): the
// declared type of a parameter wins; the type of the default value is used only when none was declared
#[verifier::external_body]
pub struct Value { _p: () }
impl Clone for Value { #[verifier::external_body] fn clone(&self) -> (r: Self) ensures r == *self { unimplemented!() } }
pub uninterp spec fn type_of_value(v: Value) -> Option<Type>;
impl Type {
    /// unit `components` / engine K group types decide what this is per value kind
    #[verifier::external_body]
    pub fn from_value(v: &Value) -> (r: Option<Type>) ensures r == type_of_value(*v) { unimplemented!() }
}
// std combinator a body may use (its definition, as a contract)
pub assume_specification<T>[ Option::<T>::or ](a: Option<T>, b: Option<T>) -> (o: Option<T>)
    ensures o == (match a { Some(v) => Some(v), None => b });
