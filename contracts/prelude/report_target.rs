#[verifier::external_body]
pub struct VxOpaque { _p: () }
pub struct Template { pub name: String, pub source: String, pub vx_opaque: VxOpaque }
pub struct Chunk { pub name: String, pub vx_opaque: VxOpaque }
#[verifier::external_body]
#[verifier::reject_recursive_types(K)]
#[verifier::reject_recursive_types(V)]
pub struct HashMap<K, V> { _p: core::marker::PhantomData<(K, V)> }
impl HashMap<String, Template> { pub uninterp spec fn view_spec(&self) -> Map<Seq<char>, Template>; }
/// `&m[&k]`: indexing a map panics on a missing key
#[verifier::external_body]
pub fn vx_map_index<'a>(m: &'a HashMap<String, Template>, k: &String) -> (r: &'a Template)
    requires m.view_spec().dom().contains(k@)
    ensures *r == m.view_spec()[k@]
{ unimplemented!() }
#[verifier::external_body]
pub fn vx_string_eq(a: &String, b: &String) -> (r: bool) ensures r == (a@ == b@) { unimplemented!() }
pub struct Tera { pub templates: HashMap<String, Template>, pub vx_opaque: VxOpaque }
pub struct VirtualMachine<'tera> { pub tera: &'tera Tera, pub template: &'tera Template, pub vx_opaque: VxOpaque }
