// Types of `Value` that Verus cannot take (unsafe code, HashMap): opaque.
#[verifier::external_body]
pub struct SmartString { _p: () }
#[verifier::external_body]
pub struct Map { _p: () }
