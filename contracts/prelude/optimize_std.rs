// opaque payload types of Instruction, and std contracts used by optimize (assumed)
#[verifier::external_body]
pub struct Value { _p: () }
#[verifier::external_body]
pub struct Span { _p: () }

// R6: std::mem::replace(&mut v[i], p.clone()) — returns the old element, stores a clone of p
#[verifier::external_body]
pub fn vx_replace_at(v: &mut Vec<(Instruction, Vec<Span>)>, i: usize, p: &(Instruction, Vec<Span>)) -> (r: (Instruction, Vec<Span>))
    requires i < old(v).len()
    ensures r == old(v)[i as int], final(v)@ == old(v)@.update(i as int, *p)
{ unimplemented!() }
// R11: Vec::extend with a Vec argument
#[verifier::external_body]
pub fn vx_vec_extend(v: &mut Vec<Span>, w: Vec<Span>)
    ensures final(v)@ == old(v)@ + w@
{ unimplemented!() }
pub assume_specification<T: Default>[ core::mem::take::<T> ](dest: &mut T) -> (r: T)
    ensures r == *old(dest);
// `Value: Clone` (derived in the real source): the clone is an equal value
impl Clone for Value {
    #[verifier::external_body]
    fn clone(&self) -> (r: Self) ensures r == *self { unimplemented!() }
}
