// `Value` as seen by the VM arms: opaque, with uninterpreted spec accessors.  The exec functions
// declared here carry the contracts that are proved on their real bodies elsewhere (units
// number/ord, engine K groups value_*), or that are std's.
#[verifier::external_body]
pub struct VxOpaque { _p: () }
#[verifier::external_body]
pub struct Error { _p: () }
pub type TeraResult<T> = Result<T, Error>;
/// R18: stands for the expanded body of `rendering_error!`
#[verifier::external_body]
pub fn vx_rendering_error() -> Error { unimplemented!() }
#[verifier::external_body]
pub fn vx_fmt() -> String { unimplemented!() }

#[verifier::external_body]
pub struct Span { _p: () }
#[verifier::external_body]
pub struct Value { _p: () }
impl Clone for Value { #[verifier::external_body] fn clone(&self) -> (r: Value) ensures r == *self { unimplemented!() } }
impl Value {
    pub uninterp spec fn undefined_spec(&self) -> bool;
    pub uninterp spec fn none_spec(&self) -> bool;
    pub uninterp spec fn attr_spec(&self, attr: Seq<char>) -> Option<Value>;
    pub uninterp spec fn the_undefined() -> Value;
    pub uninterp spec fn number_spec(&self) -> bool;
    pub uninterp spec fn item_spec(&self, idx: Value) -> Result<Value, ()>;
    pub uninterp spec fn truthy_spec(&self) -> bool;
    pub uninterp spec fn of_bool(b: bool) -> Value;
    #[verifier::external_body] pub fn is_undefined(&self) -> (r: bool) ensures r == self.undefined_spec() { unimplemented!() }
    #[verifier::external_body] pub fn is_none(&self) -> (r: bool) ensures r == self.none_spec() { unimplemented!() }
    #[verifier::external_body] pub fn is_number(&self) -> (r: bool) ensures r == self.number_spec() { unimplemented!() }
    #[verifier::external_body] pub fn is_truthy(&self) -> (r: bool) ensures r == self.truthy_spec() { unimplemented!() }
    #[verifier::external_body] pub fn undefined() -> (r: Value) ensures r == Self::the_undefined(), r.undefined_spec() { unimplemented!() }
    #[verifier::external_body]
    pub fn get_attr<'a>(&'a self, attr: &'a str) -> (r: Option<&'a Value>)
        ensures r.is_some() == self.attr_spec(attr@).is_some(), r.is_some() ==> *r.unwrap() == self.attr_spec(attr@)->Some_0
    { unimplemented!() }
    #[verifier::external_body]
    pub fn get_item(&self, item: Value) -> (r: TeraResult<Value>)
        ensures r is Ok == self.item_spec(item) is Ok, r is Ok ==> r->Ok_0 == self.item_spec(item)->Ok_0
    { unimplemented!() }
}
impl vstd::std_specs::convert::FromSpecImpl<bool> for Value {
    open spec fn obeys_from_spec() -> bool { true }
    open spec fn from_spec(v: bool) -> Value { Value::of_bool(v) }
}
impl From<bool> for Value {
    #[verifier::external_body]
    fn from(v: bool) -> Value { unimplemented!() }
}
// `Option::expect(msg)`: panics on None, so None must be proved impossible
#[verifier::external_body]
pub fn vx_expect<T>(o: Option<T>) -> (r: T)
    requires o is Some
    ensures r == o->Some_0
{ unimplemented!() }
