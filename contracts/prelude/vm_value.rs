// `Value` as seen by the VM arms: opaque, with uninterpreted spec accessors.  The exec functions
// declared here carry the contracts that are proved on their real bodies elsewhere (units
// number/ord, engine K groups value_*), or that are std's.
#[verifier::external_body]
pub struct VxOpaque { _p: () }
#[verifier::external_body]
pub struct Error { _p: () }
pub type TeraResult<T> = Result<T, Error>;
/// R18: stands for the expanded body of `rendering_error!`
#[verifier::external_body]
pub fn vx_rendering_error() -> Error { unimplemented!() }
#[verifier::external_body]
pub fn vx_fmt() -> String { unimplemented!() }

#[verifier::external_body]
pub struct Span { _p: () }
#[verifier::external_body]
pub struct Value { _p: () }
impl Clone for Value { #[verifier::external_body] fn clone(&self) -> (r: Value) ensures r == *self { unimplemented!() } }
impl Value {
    pub uninterp spec fn undefined_spec(&self) -> bool;
    pub uninterp spec fn none_spec(&self) -> bool;
    pub uninterp spec fn attr_spec(&self, attr: Seq<char>) -> Option<Value>;
    pub uninterp spec fn the_undefined() -> Value;
    pub uninterp spec fn number_spec(&self) -> bool;
    pub uninterp spec fn item_spec(&self, idx: Value) -> Result<Value, ()>;
    pub uninterp spec fn truthy_spec(&self) -> bool;
    pub uninterp spec fn of_bool(b: bool) -> Value;
    #[verifier::external_body] pub fn is_undefined(&self) -> (r: bool) ensures r == self.undefined_spec() { unimplemented!() }
    #[verifier::external_body] pub fn is_none(&self) -> (r: bool) ensures r == self.none_spec() { unimplemented!() }
    #[verifier::external_body] pub fn is_number(&self) -> (r: bool) ensures r == self.number_spec() { unimplemented!() }
    #[verifier::external_body] pub fn is_truthy(&self) -> (r: bool) ensures r == self.truthy_spec() { unimplemented!() }
    #[verifier::external_body] pub fn undefined() -> (r: Value) ensures r == Self::the_undefined(), r.undefined_spec() { unimplemented!() }
    #[verifier::external_body]
    pub fn get_attr<'a>(&'a self, attr: &'a str) -> (r: Option<&'a Value>)
        ensures r.is_some() == self.attr_spec(attr@).is_some(), r.is_some() ==> *r.unwrap() == self.attr_spec(attr@)->Some_0
    { unimplemented!() }
    #[verifier::external_body]
    pub fn get_item(&self, item: Value) -> (r: TeraResult<Value>)
        ensures r is Ok == self.item_spec(item) is Ok, r is Ok ==> r->Ok_0 == self.item_spec(item)->Ok_0
    { unimplemented!() }
}
impl vstd::std_specs::convert::FromSpecImpl<bool> for Value {
    open spec fn obeys_from_spec() -> bool { true }
    open spec fn from_spec(v: bool) -> Value { Value::of_bool(v) }
}
impl From<bool> for Value {
    #[verifier::external_body]
    fn from(v: bool) -> Value { unimplemented!() }
}
// `Option::expect(msg)`: panics on None, so None must be proved impossible
#[verifier::external_body]
pub fn vx_expect<T>(o: Option<T>) -> (r: T)
    requires o is Some
    ensures r == o->Some_0
{ unimplemented!() }

// ---- arithmetic: the VM arms route to value::number::<op>; its contract (exact or Err) is
// proved on the real bodies in unit `number`.  Here only "what the arm does with the result".
pub enum NumOp { Add, Sub, Mul, Div, FloorDiv, Rem, Pow }
pub uninterp spec fn num_spec(op: NumOp, a: Value, b: Value) -> Result<Value, ()>;
pub uninterp spec fn neg_spec(a: Value) -> Result<Value, ()>;
pub uninterp spec fn combine_spec(a: SpanRange, b: SpanRange) -> SpanRange;
#[verifier::external_body]
pub fn combine_spans(first: &SpanRange, second: &SpanRange) -> (r: SpanRange)
    ensures r == combine_spec(*first, *second)
{ unimplemented!() }
impl Error {
    #[verifier::external_body]
    pub fn to_string(&self) -> String { unimplemented!() }
}
#[verifier::external_body]
pub fn vx_string_contains(s: &String, pat: &str) -> bool { unimplemented!() }
pub mod value {
    /// `crate::value::Map` as a map literal is collected into it
    pub type Map = crate::VxMapLit;
    pub mod number {
        use crate::*;
        macro_rules! numfn {
            ($name:ident, $op:expr) => {
                verus! {
                #[verifier::external_body]
                pub fn $name(lhs: &Value, rhs: &Value) -> (r: TeraResult<Value>)
                    ensures r is Ok == num_spec($op, *lhs, *rhs) is Ok, r is Ok ==> r->Ok_0 == num_spec($op, *lhs, *rhs)->Ok_0
                { unimplemented!() }
                }
            };
        }
        numfn!(add, NumOp::Add);
        numfn!(sub, NumOp::Sub);
        numfn!(mul, NumOp::Mul);
        numfn!(div, NumOp::Div);
        numfn!(floor_div, NumOp::FloorDiv);
        numfn!(rem, NumOp::Rem);
        numfn!(pow, NumOp::Pow);
        verus! {
        #[verifier::external_body]
        pub fn negate(val: &Value) -> (r: TeraResult<Value>)
            ensures r is Ok == neg_spec(*val) is Ok, r is Ok ==> r->Ok_0 == neg_spec(*val)->Ok_0
        { unimplemented!() }
        }
    }
}

// ---- slicing / comparison / membership: exec functions of Value seen through their results
impl Value {
    pub uninterp spec fn i128_spec(&self) -> Option<i128>;
    pub uninterp spec fn slice_spec(&self, s: Option<i128>, e: Option<i128>, st: Option<i128>) -> Result<Value, ()>;
    pub uninterp spec fn contains_spec(&self, needle: Value) -> Result<bool, ()>;
    pub uninterp spec fn pcmp_spec(&self, other: Value) -> Option<core::cmp::Ordering>;
    pub uninterp spec fn eq_spec(&self, other: Value) -> bool;
    #[verifier::external_body] pub fn as_i128(&self) -> (r: Option<i128>) ensures r == self.i128_spec() { unimplemented!() }
    #[verifier::external_body]
    pub fn slice(&self, start: Option<i128>, end: Option<i128>, step: Option<i128>) -> (r: TeraResult<Value>)
        ensures r is Ok == self.slice_spec(start, end, step) is Ok, r is Ok ==> r->Ok_0 == self.slice_spec(start, end, step)->Ok_0
    { unimplemented!() }
    #[verifier::external_body]
    pub fn contains(&self, needle: &Value) -> (r: TeraResult<bool>)
        ensures r is Ok == self.contains_spec(*needle) is Ok, r is Ok ==> r->Ok_0 == self.contains_spec(*needle)->Ok_0
    { unimplemented!() }
}
/// R19 at call sites: `a.partial_cmp(&b)` / `a == b` on Values
#[verifier::external_body]
pub fn vx_value_partial_cmp(a: &Value, b: &Value) -> (r: Option<core::cmp::Ordering>) ensures r == a.pcmp_spec(*b) { unimplemented!() }
#[verifier::external_body]
pub fn vx_value_eq(a: &Value, b: &Value) -> (r: bool) ensures r == a.eq_spec(*b) { unimplemented!() }
/// `ord OP Ordering::Equal` (std: Less < Equal < Greater)
pub open spec fn ord_rank(o: core::cmp::Ordering) -> int { match o { core::cmp::Ordering::Less => -1, core::cmp::Ordering::Equal => 0, core::cmp::Ordering::Greater => 1 } }
#[verifier::external_body]
pub fn vx_ord_lt(a: core::cmp::Ordering, b: core::cmp::Ordering) -> (r: bool) ensures r == (ord_rank(a) < ord_rank(b)) { unimplemented!() }
#[verifier::external_body]
pub fn vx_ord_le(a: core::cmp::Ordering, b: core::cmp::Ordering) -> (r: bool) ensures r == (ord_rank(a) <= ord_rank(b)) { unimplemented!() }
#[verifier::external_body]
pub fn vx_ord_gt(a: core::cmp::Ordering, b: core::cmp::Ordering) -> (r: bool) ensures r == (ord_rank(a) > ord_rank(b)) { unimplemented!() }
#[verifier::external_body]
pub fn vx_ord_ge(a: core::cmp::Ordering, b: core::cmp::Ordering) -> (r: bool) ensures r == (ord_rank(a) >= ord_rank(b)) { unimplemented!() }

/// R16b: what the dispatch loop does after an arm: `ip += 1` (Next) or `ip = t` (Jump(t))
pub enum VxNext { Next, Jump(usize) }

// ---- array / map literals
pub uninterp spec fn list_value(s: Seq<Value>) -> Value;
impl vstd::std_specs::convert::FromSpecImpl<Vec<Value>> for Value {
    open spec fn obeys_from_spec() -> bool { true }
    open spec fn from_spec(v: Vec<Value>) -> Value { list_value(v@) }
}
impl From<Vec<Value>> for Value {
    #[verifier::external_body]
    fn from(v: Vec<Value>) -> Value { unimplemented!() }
}
/// `v.reverse()` (std)
#[verifier::external_body]
pub fn vx_reverse_values(v: &mut Vec<Value>) ensures final(v)@ == old(v)@.reverse() { unimplemented!() }
// ---- map literals (BuildMap): keys by Value::as_key, the map collected from the pairs IN ORDER
#[verifier::external_body]
pub struct Key { _p: () }
#[verifier::external_body]
pub struct VxMapLit { _p: () }
impl VxMapLit { pub uninterp spec fn pairs(&self) -> Seq<(Key, Value)>; }
/// the map value collected from these pairs in this order (std: `FromIterator` for a map inserts in order, so a
/// LATER pair replaces an earlier one with an equal key)
pub uninterp spec fn map_value(pairs: Seq<(Key, Value)>) -> Value;
pub uninterp spec fn key_spec(v: Value) -> Result<Key, ()>;
impl Value {
    #[verifier::external_body]
    pub fn as_key(&self) -> (r: TeraResult<Key>) ensures r is Ok == key_spec(*self) is Ok, r is Ok ==> r->Ok_0 == key_spec(*self)->Ok_0 { unimplemented!() }
    #[verifier::external_body]
    pub fn empty_map() -> (r: Value) ensures r == map_value(Seq::empty()) { unimplemented!() }
}
/// `pairs.into_iter().collect::<Map>()`
#[verifier::external_body]
pub fn vx_collect_map(v: Vec<(Key, Value)>) -> (r: VxMapLit) ensures r.pairs() == v@ { unimplemented!() }
/// `Value::from(map)`
#[verifier::external_body]
pub fn vx_value_from_map(m: VxMapLit) -> (r: Value) ensures r == map_value(m.pairs()) { unimplemented!() }
#[verifier::external_body]
pub fn vx_reverse_pairs(v: &mut Vec<(Key, Value)>) ensures final(v)@ == old(v)@.reverse() { unimplemented!() }
/// pair i of the literal has something that can be a key in key position
pub open spec fn key_ok(st: Seq<(Value, SpanRange)>, base: int, i: int) -> bool { key_spec(st[base + 2 * i].0) is Ok }
/// the k (key, value) pairs of a map literal as they lie on the stack, in SOURCE order: pair i is
/// (st[base + 2i], st[base + 2i + 1])
pub open spec fn lit_pairs(st: Seq<(Value, SpanRange)>, base: int, k: int) -> Seq<(Key, Value)> {
    Seq::new(k as nat, |i: int| (key_spec(st[base + 2 * i].0)->Ok_0, st[base + 2 * i + 1].0))
}
