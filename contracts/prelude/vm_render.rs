// Collaborators of VirtualMachine::render_to (C18: output channels agree, write failures surface)
#[verifier::external_body]
pub struct VxOpaque { _p: () }
#[verifier::external_body]
pub struct Error { _p: () }
pub type TeraResult<T> = Result<T, Error>;
impl Error {
    #[verifier::external_body]
    pub fn from(e: VxIoError) -> Error { unimplemented!() }
}
#[verifier::external_body]
pub struct Chunk { _p: () }
#[verifier::external_body]
pub struct Context { _p: () }
pub struct Tera { pub filters: VxOpaque, pub vx_opaque: VxOpaque }
impl Tera {
    #[verifier::external_body]
    pub fn must_get_template(&self, name: &String) -> (r: TeraResult<&Template>)
        ensures r is Ok ==> r->Ok_0 == tpl_named(self, name@)
    { unimplemented!() }
}
pub struct VxWriter { pub bytes: Vec<u8> }
#[verifier::external_body]
pub struct VxIoError { _p: () }
pub type VxIoResult<T> = Result<T, VxIoError>;
impl VxWriter {
    /// io::Write::write_all: all of `data`, or Err leaving a prefix
    #[verifier::external_body]
    pub fn write_all(&mut self, data: &[u8]) -> (r: VxIoResult<()>)
        ensures
            r.is_ok() ==> final(self).bytes@ == old(self).bytes@ + data@,
            r.is_err() ==> old(self).bytes@.is_prefix_of(final(self).bytes@) && final(self).bytes@.is_prefix_of(old(self).bytes@ + data@),
    { unimplemented!() }
    /// io::Write::write: SOME prefix of `data` (possibly shorter), and how many bytes
    #[verifier::external_body]
    pub fn write(&mut self, data: &[u8]) -> (r: VxIoResult<usize>)
        ensures
            r.is_ok() ==> r->Ok_0 <= data@.len() && final(self).bytes@ == old(self).bytes@ + data@.subrange(0, r->Ok_0 as int),
            r.is_err() ==> final(self).bytes@ == old(self).bytes@,
    { unimplemented!() }
}
/// `io::sink()`
#[verifier::external_body]
pub fn vx_sink() -> VxWriter { unimplemented!() }
pub struct State<'t> {
    pub context: &'t Context,
    pub global_context: Option<&'t Context>,
    pub filters: Option<&'t VxOpaque>,
    pub capture_block: Option<&'t str>,
    pub block_buffer: Vec<u8>,
    pub vx_opaque: VxOpaque,
}
impl<'t> State<'t> {
    #[verifier::external_body]
    pub fn new_with_chunk(context: &'t Context, chunk: &'t Chunk) -> (r: Self)
        ensures r.context == context, r.capture_block is None, r.global_context is None
    { unimplemented!() }
}

/// the registered template of that name (resolution itself: unit resolve_name)
pub uninterp spec fn tpl_named(t: &Tera, name: Seq<char>) -> &Template;
