#[verifier::external_body]
pub struct Value { _p: () }
impl Value {
    #[verifier::external_body]
    pub fn undefined() -> Value { unimplemented!() }
}
/// ForLoopIterator abstracted to the sequence still to be yielded.  Its real variants
/// (array / map / string / bytes) are engine-K obligations (bounded).
#[verifier::external_body]
pub struct ForLoopIterator { _p: () }
impl ForLoopIterator {
    pub uninterp spec fn rest(&self) -> Seq<(Option<Value>, Value)>;
    #[verifier::external_body]
    pub fn next(&mut self) -> (r: Option<(Option<Value>, Value)>)
        ensures old(self).rest().len() == 0 ==> r.is_none() && final(self).rest() == old(self).rest(),
                old(self).rest().len() > 0 ==> r == Some(old(self).rest()[0]) && final(self).rest() == old(self).rest().drop_first(),
    { unimplemented!() }
    #[verifier::external_body]
    pub fn size_hint(&self) -> (r: (usize, Option<usize>))
        ensures r.0 == self.rest().len(), r.1 == Some(self.rest().len() as usize), self.rest().len() <= usize::MAX
    { unimplemented!() }
}
/// the items a container yields when iterated (None: not iterable)
pub uninterp spec fn items_of(v: &Value) -> Option<Seq<(Option<Value>, Value)>>;
#[verifier::external_body]
pub fn create_for_loop_iterator(value: &Value) -> (r: Option<ForLoopIterator>)
    ensures
        items_of(value) is None ==> r is None,
        items_of(value) is Some ==> r is Some && r->Some_0.rest() == items_of(value)->Some_0,
{ unimplemented!() }
// `Value: Clone` (derived in the real source): the clone is an equal value
impl Clone for Value {
    #[verifier::external_body]
    fn clone(&self) -> (r: Self) ensures r == *self { unimplemented!() }
}
