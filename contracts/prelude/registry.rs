// Tera as seen by add_raw_templates (C10, rollback half): the template map with its std contracts,
// everything else opaque.  Template::new and finalize_templates are trusted declarations; the
// ASSUMED contract of finalize_templates is "on Err nothing is committed" (it computes into locals
// and commits last — read, not proved).
#[verifier::external_body]
pub struct VxOpaque { _p: () }
#[verifier::external_body]
pub struct Error { _p: () }
pub type TeraResult<T> = Result<T, Error>;
pub type Name = Seq<char>;
#[verifier::external_body]
pub struct Delimiters { _p: () }
impl Clone for Delimiters { #[verifier::external_body] fn clone(&self) -> (r: Self) ensures r == *self { unimplemented!() } }
#[verifier::external_body]
pub struct Template { _p: () }
impl Template {
    #[verifier::external_body]
    pub fn new(tpl_name: &str, source: &str, path: Option<String>, delimiters: Delimiters) -> TeraResult<Template> { unimplemented!() }
}
#[verifier::external_body]
#[verifier::reject_recursive_types(K)]
#[verifier::reject_recursive_types(V)]
pub struct HashMap<K, V> { _p: core::marker::PhantomData<(K, V)> }
impl<V> HashMap<String, V> {
    pub uninterp spec fn view_spec(&self) -> Map<Name, V>;
    #[verifier::external_body]
    pub fn insert(&mut self, k: String, v: V) -> (r: Option<V>)
        ensures final(self).view_spec() == old(self).view_spec().insert(k@, v),
                r == (if old(self).view_spec().dom().contains(k@) { Some(old(self).view_spec()[k@]) } else { None::<V> })
    { unimplemented!() }
    #[verifier::external_body]
    pub fn remove(&mut self, k: &String) -> (r: Option<V>)
        ensures final(self).view_spec() == old(self).view_spec().remove(k@)
    { unimplemented!() }
}
#[verifier::external_body]
pub fn vx_clone_string(s: &String) -> (r: String) ensures r@ == s@ { unimplemented!() }
#[verifier::external_body]
pub fn vx_to_string(a: &str) -> (r: String) ensures r@ == a@ { unimplemented!() }
pub assume_specification[ <String as AsRef<str>>::as_ref ](s: &String) -> (r: &str) ensures r@ == s@;
// file system collaborators of add_file (std::path / std::fs / io::Read): results uninterpreted
#[verifier::external_body]
pub struct VxPath { _p: () }
#[verifier::external_body]
pub struct VxFile { _p: () }
#[verifier::external_body]
pub fn vx_path_to_str(p: &VxPath) -> TeraResult<&str> { unimplemented!() }
#[verifier::external_body]
pub fn vx_file_open(p: &VxPath) -> TeraResult<VxFile> { unimplemented!() }
#[verifier::external_body]
pub fn vx_read_to_string(f: &mut VxFile, buf: &mut String) -> TeraResult<usize> { unimplemented!() }
/// `name.as_ref().map(AsRef::as_ref)`
#[verifier::external_body]
pub fn vx_opt_as_str(o: &Option<String>) -> (r: Option<&str>) ensures r is Some == o is Some, o is Some ==> r->Some_0@ == o->Some_0@ { unimplemented!() }
// the global component table (HashMap<String, (ComponentDefinition, Chunk)>) with std's contracts
#[verifier::external_body]
pub struct VxComponentEntry { _p: () }
pub type VxComponents = HashMap<String, VxComponentEntry>;
impl HashMap<String, VxComponentEntry> {
    /// `extend`: union, the argument's entries win
    #[verifier::external_body]
    pub fn extend(&mut self, other: VxComponents)
        ensures final(self).view_spec() == old(self).view_spec().union_prefer_right(other.view_spec())
    { unimplemented!() }
    #[verifier::external_body]
    pub fn clear(&mut self) ensures final(self).view_spec() == Map::<Name, VxComponentEntry>::empty() { unimplemented!() }
}
