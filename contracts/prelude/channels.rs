// Collaborators of the engine-level output channels (C18): the VM entry points by their contracts (unit
// vm_render verifies those against the interpreter), the registry lookup, the writer.
#[verifier::external_body]
pub struct Error { _p: () }
pub type TeraResult<T> = Result<T, Error>;
#[verifier::external_body]
pub struct Context { _p: () }
#[verifier::external_body]
pub struct Template { _p: () }
#[verifier::external_body]
pub struct VxWriter { _p: () }
pub struct Tera { pub global_context: Context, pub vx_opaque: VxOpaque }
#[verifier::external_body]
pub struct VxOpaque { _p: () }
/// what rendering (the whole template, or one block of it) produces: an error, or the bytes
pub enum Outcome { Fails, Bytes(Seq<u8>) }
/// the VM's function: template (with its engine), optional block, user context, global context -> outcome
/// (unit vm_render: VirtualMachine::render_to / render / render_block against the interpreter)
pub uninterp spec fn vm_outcome(tera: &Tera, tpl: &Template, block: Option<Seq<char>>, context: &Context, global: &Context) -> Outcome;
pub uninterp spec fn utf8_text(b: Seq<u8>) -> Option<Seq<char>>;
pub uninterp spec fn lookup(tera: &Tera, name: Seq<char>) -> Option<&Template>;
pub uninterp spec fn has_block(tpl: &Template, block: Seq<char>) -> bool;
impl Tera {
    #[verifier::external_body]
    pub fn must_get_template(&self, name: &str) -> (r: TeraResult<&Template>)
        ensures r is Ok == lookup(self, name@) is Some, r is Ok ==> r->Ok_0 == lookup(self, name@)->Some_0
    { unimplemented!() }
}
#[verifier::external_body]
pub fn vx_has_block(tpl: &Template, block: &str) -> (r: bool) ensures r == has_block(tpl, block@) { unimplemented!() }
#[verifier::external_body]
pub fn vx_block_missing(block: &str, tpl: &str) -> Error { unimplemented!() }
pub struct VirtualMachine<'t> { pub tera: &'t Tera, pub template: &'t Template }
/// what a call of the writer variant did: the bytes handed to the writer, whether it reported success
pub struct Written { pub ok: bool, pub bytes: Seq<u8> }
impl<'t> VirtualMachine<'t> {
    #[verifier::external_body]
    pub fn new(tera: &'t Tera, template: &'t Template) -> (r: Self) ensures r.tera == tera, r.template == template { unimplemented!() }
    /// contract of VirtualMachine::render (unit vm_render)
    #[verifier::external_body]
    pub fn render(&mut self, context: &Context, global_context: &Context) -> (r: TeraResult<String>)
        ensures r is Ok == string_channel(vm_outcome(old(self).tera, old(self).template, None, context, global_context)) is Some,
            r is Ok ==> r->Ok_0@ == string_channel(vm_outcome(old(self).tera, old(self).template, None, context, global_context))->Some_0
    { unimplemented!() }
    #[verifier::external_body]
    pub fn render_block(&mut self, block_name: &str, context: &Context, global_context: &Context) -> (r: TeraResult<String>)
        ensures r is Ok == string_channel(vm_outcome(old(self).tera, old(self).template, Some(block_name@), context, global_context)) is Some,
            r is Ok ==> r->Ok_0@ == string_channel(vm_outcome(old(self).tera, old(self).template, Some(block_name@), context, global_context))->Some_0
    { unimplemented!() }
    /// contract of VirtualMachine::render_to with a writer that accepts everything (a failing writer: unit vm_render)
    #[verifier::external_body]
    pub fn vx_render_to(&mut self, block_name: Option<&str>, context: &Context, global_context: &Context, write: VxWriter) -> (r: (TeraResult<()>, Ghost<Outcome>))
        ensures r.1@ == vm_outcome(old(self).tera, old(self).template, match block_name { Some(b) => Some(b@), None => None }, context, global_context),
            r.0 is Ok == r.1@ is Bytes
    { unimplemented!() }
}
#[verifier::external_body]
pub struct VxUtf8Error { _p: () }
impl Error { #[verifier::external_body] pub fn from_utf8(e: VxUtf8Error) -> Error { unimplemented!() } }
impl From<VxUtf8Error> for Error { #[verifier::external_body] fn from(e: VxUtf8Error) -> Error { unimplemented!() } }
/// `String::from_utf8`: the text of the bytes, or an error if they are not UTF-8
#[verifier::external_body]
pub fn vx_string_from_utf8(v: Vec<u8>) -> (r: Result<String, VxUtf8Error>)
    ensures r is Ok == utf8_text(v@) is Some, r is Ok ==> r->Ok_0@ == utf8_text(v@)->Some_0
{ unimplemented!() }
/// what rendering a one-off source / a component produces (the writer variants are the reference)
pub uninterp spec fn str_outcome(tera: &Tera, input: Seq<char>, context: &Context, autoescape: bool) -> Outcome;
pub uninterp spec fn component_outcome(tera: &Tera, name: Seq<char>, context: &Context, body: Option<Seq<char>>, autoescape: bool) -> Outcome;
pub open spec fn opt_view(o: Option<&str>) -> Option<Seq<char>> { match o { Some(b) => Some(b@), None => None } }
impl Tera {
    /// the writer variant into a byte vector (a writer that accepts everything)
    #[verifier::external_body]
    pub fn render_str_to(&self, input: &str, context: &Context, autoescape: bool, write: &mut Vec<u8>) -> (r: TeraResult<()>)
        ensures r is Ok == str_outcome(self, input@, context, autoescape) is Bytes,
            r is Ok ==> final(write)@ == old(write)@ + str_outcome(self, input@, context, autoescape)->Bytes_0
    { unimplemented!() }
    #[verifier::external_body]
    pub fn render_component_to(&self, component_name: &str, context: &Context, body: Option<&str>, autoescape: bool, write: &mut Vec<u8>) -> (r: TeraResult<()>)
        ensures r is Ok == component_outcome(self, component_name@, context, opt_view(body), autoescape) is Bytes,
            r is Ok ==> final(write)@ == old(write)@ + component_outcome(self, component_name@, context, opt_view(body), autoescape)->Bytes_0
    { unimplemented!() }
}
