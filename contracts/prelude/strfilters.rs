// Keyword arguments and values as seen by the string filters: typed extraction is proved in engine K
// group builtins_args; here a trusted declaration with an uninterpreted result per (kwargs, name).
#[verifier::external_body]
pub struct Error { _p: () }
impl Error { #[verifier::external_body] pub fn message(m: String) -> Error { unimplemented!() } }
pub type TeraResult<T> = Result<T, Error>;
#[verifier::external_body]
pub fn vx_fmt() -> String { unimplemented!() }
#[verifier::external_body]
pub struct Kwargs { _p: () }
#[verifier::external_body]
pub struct State { _p: () }
#[verifier::external_body]
pub struct Value { _p: () }
pub uninterp spec fn as_i128_spec(v: Value) -> Option<i128>;
impl Value {
    #[verifier::external_body]
    pub fn as_i128(&self) -> (r: Option<i128>) ensures r == as_i128_spec(*self) { unimplemented!() }
    #[verifier::external_body]
    pub fn name(&self) -> &'static str { unimplemented!() }
}
pub uninterp spec fn kw_str(k: Kwargs, name: Seq<char>) -> Result<Option<Seq<char>>, Error>;
pub uninterp spec fn kw_must_str(k: Kwargs, name: Seq<char>) -> Result<Seq<char>, Error>;
pub uninterp spec fn kw_must_usize(k: Kwargs, name: Seq<char>) -> Result<usize, Error>;
#[verifier::external_body]
pub fn vx_kw_str<'a>(k: &'a Kwargs, name: &str) -> (r: TeraResult<Option<&'a str>>)
    ensures r is Ok <==> kw_str(*k, name@) is Ok, r is Err ==> r->Err_0 == kw_str(*k, name@)->Err_0,
        r is Ok ==> (r->Ok_0 is Some <==> kw_str(*k, name@)->Ok_0 is Some),
        r is Ok && r->Ok_0 is Some ==> r->Ok_0->Some_0@ == kw_str(*k, name@)->Ok_0->Some_0
{ unimplemented!() }
#[verifier::external_body]
pub fn vx_kw_must_str<'a>(k: &'a Kwargs, name: &str) -> (r: TeraResult<&'a str>)
    ensures r is Ok <==> kw_must_str(*k, name@) is Ok, r is Ok ==> r->Ok_0@ == kw_must_str(*k, name@)->Ok_0
{ unimplemented!() }
#[verifier::external_body]
pub fn vx_kw_must_usize(k: &Kwargs, name: &str) -> (r: TeraResult<usize>)
    ensures r is Ok <==> kw_must_usize(*k, name@) is Ok, r is Ok ==> r->Ok_0 == kw_must_usize(*k, name@)->Ok_0
{ unimplemented!() }
#[verifier::external_body]
pub struct Map { _p: () }
pub uninterp spec fn map_get(m: Map, k: Seq<char>) -> Option<Value>;
pub uninterp spec fn len_spec(v: Value) -> Option<usize>;
impl Value {
    #[verifier::external_body]
    pub fn len(&self) -> (r: Option<usize>) ensures r == len_spec(*self) { unimplemented!() }
}
impl Clone for Value { #[verifier::external_body] fn clone(&self) -> (r: Self) ensures r == *self { unimplemented!() } }
/// `val.get(&Key::Str(key))`
#[verifier::external_body]
pub fn vx_map_get_str<'a>(m: &'a Map, k: &str) -> (r: Option<&'a Value>)
    ensures r is Some <==> map_get(*m, k@) is Some, r is Some ==> *r->Some_0 == map_get(*m, k@)->Some_0
{ unimplemented!() }
pub uninterp spec fn kw_value(k: Kwargs, name: Seq<char>) -> Result<Option<Value>, Error>;
#[verifier::external_body]
pub fn vx_kw_value(k: &Kwargs, name: &str) -> (r: TeraResult<Option<Value>>)
    ensures r is Ok <==> kw_value(*k, name@) is Ok, r is Ok ==> r->Ok_0 == kw_value(*k, name@)->Ok_0
{ unimplemented!() }
pub uninterp spec fn kind_map(v: Value) -> bool;
pub uninterp spec fn kind_array(v: Value) -> bool;
pub uninterp spec fn kind_string(v: Value) -> bool;
pub uninterp spec fn kind_bytes(v: Value) -> bool;
pub uninterp spec fn kind_undefined(v: Value) -> bool;
pub uninterp spec fn kind_number(v: Value) -> bool;
pub uninterp spec fn kind_f64(v: Value) -> bool;
impl Value {
    #[verifier::external_body] pub fn is_map(&self) -> (r: bool) ensures r == kind_map(*self) { unimplemented!() }
    #[verifier::external_body] pub fn is_array(&self) -> (r: bool) ensures r == kind_array(*self) { unimplemented!() }
    #[verifier::external_body] pub fn is_string(&self) -> (r: bool) ensures r == kind_string(*self) { unimplemented!() }
    #[verifier::external_body] pub fn is_bytes(&self) -> (r: bool) ensures r == kind_bytes(*self) { unimplemented!() }
    #[verifier::external_body] pub fn is_undefined(&self) -> (r: bool) ensures r == kind_undefined(*self) { unimplemented!() }
    #[verifier::external_body] pub fn is_number(&self) -> (r: bool) ensures r == kind_number(*self) { unimplemented!() }
    #[verifier::external_body] pub fn is_f64(&self) -> (r: bool) ensures r == kind_f64(*self) { unimplemented!() }
}
/// `str::len`: the byte length
#[verifier::external_body]
pub fn vx_blen(s: &str) -> (r: usize) ensures r == blen(s@) { unimplemented!() }
/// every character takes at least one byte
#[verifier::external_body]
pub proof fn axiom_blen_ge_len(s: Seq<char>) ensures blen(s) >= s.len() {}
/// `format!("{x}")` of a value: its Display text
pub uninterp spec fn display(v: Value) -> Seq<char>;
#[verifier::external_body]
pub fn vx_display(v: &Value) -> (r: String) ensures r@ == display(*v) { unimplemented!() }
/// `[String]::join(&str)`: the texts in order with the separator BETWEEN consecutive ones
pub open spec fn join_spec(ss: Seq<Seq<char>>, sep: Seq<char>) -> Seq<char>
    decreases ss.len()
{
    if ss.len() == 0 { Seq::empty() } else if ss.len() == 1 { ss[0] } else { join_spec(ss.drop_last(), sep) + sep + ss.last() }
}
pub open spec fn views(v: Seq<String>) -> Seq<Seq<char>> { Seq::new(v.len(), |i: int| v[i]@) }
#[verifier::external_body]
pub fn vx_join_strings(v: &Vec<String>, sep: &str) -> (r: String) ensures r@ == join_spec(views(v@), sep@) { unimplemented!() }
// ---- thin wrappers: what is proved is that EVERY input goes to the documented std / Value function with the
// documented arguments and that its answer is returned unchanged (no fast path, no special case)
pub uninterp spec fn safe_string_of(s: Seq<char>) -> Value;
pub uninterp spec fn reverse_spec(v: Value) -> Result<Value, Error>;
pub uninterp spec fn split_values(s: Seq<char>, pat: Seq<char>) -> Value;
pub uninterp spec fn words_count(s: Seq<char>) -> usize;
pub uninterp spec fn replace_any_spec(s: Seq<char>, a: char, b: char, to: Seq<char>) -> Seq<char>;
impl Value {
    #[verifier::external_body]
    pub fn safe_string(val: &str) -> (r: Value) ensures r == safe_string_of(val@) { unimplemented!() }
    #[verifier::external_body]
    pub fn reverse(&self) -> (r: TeraResult<Value>) ensures r == reverse_spec(*self) { unimplemented!() }
}
/// a `Cow<str>` receiver seen as the text it holds
#[verifier::external_body]
pub struct VxCowStr { _p: () }
impl VxCowStr { pub uninterp spec fn view(&self) -> Seq<char>; }
#[verifier::external_body]
pub fn vx_cow_as_str(c: &VxCowStr) -> (r: &str) ensures r@ == c@ { unimplemented!() }
/// `val.split(pat).map(Into::into).collect::<Vec<Value>>().into()`: std's str::split, each piece a string value
#[verifier::external_body]
pub fn vx_split_values(val: &str, pat: &str) -> (r: Value) ensures r == split_values(val@, pat@) { unimplemented!() }
/// `val.split_whitespace().count()`
#[verifier::external_body]
pub fn vx_words_count(val: &str) -> (r: usize) ensures r == words_count(val@) { unimplemented!() }
/// `s.replace(['\n', '\r'], to)`: every occurrence of either character
#[verifier::external_body]
pub fn vx_replace_any2(s: &String, a: char, b: char, to: &str) -> (r: String) ensures r@ == replace_any_spec(s@, a, b, to@) { unimplemented!() }
// ---- indent
pub uninterp spec fn kw_usize(k: Kwargs, name: Seq<char>) -> Result<Option<usize>, Error>;
pub uninterp spec fn kw_bool(k: Kwargs, name: Seq<char>) -> Result<Option<bool>, Error>;
#[verifier::external_body]
pub fn vx_kw_usize(k: &Kwargs, name: &str) -> (r: TeraResult<Option<usize>>)
    ensures r is Ok <==> kw_usize(*k, name@) is Ok, r is Ok ==> r->Ok_0 == kw_usize(*k, name@)->Ok_0
{ unimplemented!() }
#[verifier::external_body]
pub fn vx_kw_bool(k: &Kwargs, name: &str) -> (r: TeraResult<Option<bool>>)
    ensures r is Ok <==> kw_bool(*k, name@) is Ok, r is Ok ==> r->Ok_0 == kw_bool(*k, name@)->Ok_0
{ unimplemented!() }
#[verifier::external_body]
pub fn vx_min_usize(a: usize, b: usize) -> (r: usize) ensures r == (if a <= b { a } else { b }) { unimplemented!() }
/// `" ".repeat(n)`
pub open spec fn spaces(n: int) -> Seq<char> { Seq::new(n as nat, |i: int| ' ') }
/// `s.repeat(n)` for a one-character text
#[verifier::external_body]
pub fn vx_repeat_of(s: &str, n: usize) -> (r: String) ensures s@ == seq![' '] ==> r@ == spaces(n as int) { unimplemented!() }
/// `str::lines()` (std): the lines without their terminators
pub uninterp spec fn lines_spec(s: Seq<char>) -> Seq<Seq<char>>;
#[verifier::external_body]
pub struct VxLines<'a> { _p: core::marker::PhantomData<&'a ()> }
impl<'a> VxLines<'a> {
    pub uninterp spec fn view(&self) -> Seq<Seq<char>>;
    #[verifier::external_body]
    pub fn next(&mut self) -> (r: Option<&'a str>)
        ensures old(self)@.len() == 0 ==> r is None && final(self)@ == old(self)@,
            old(self)@.len() > 0 ==> r is Some && r->Some_0@ == old(self)@[0] && final(self)@ == old(self)@.skip(1)
    { unimplemented!() }
}
#[verifier::external_body]
pub fn vx_lines<'a>(s: &'a str) -> (r: VxLines<'a>) ensures r@ == lines_spec(s@) { unimplemented!() }
#[verifier::external_body]
pub fn vx_ends_with_char(s: &str, c: char) -> (r: bool) ensures r == (s@.len() > 0 && s@.last() == c) { unimplemented!() }
/// the documented result for the first k lines: the first line gets the indent only when `first`; every later
/// line starts on a new line and gets the indent unless it is empty and `blank` is off
pub open spec fn indent_fold(l: Seq<Seq<char>>, k: int, ind: Seq<char>, first: bool, blank: bool) -> Seq<char>
    decreases k
{
    if k <= 0 { Seq::empty() }
    else if k == 1 { (if first { ind } else { Seq::empty() }) + l[0] }
    else { indent_fold(l, k - 1, ind, first, blank) + seq!['\n'] + (if l[k - 1].len() > 0 || blank { ind } else { Seq::empty() }) + l[k - 1] }
}
