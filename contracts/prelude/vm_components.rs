// Collaborators of the two component-call arms of interpret (C05): the value stack is real; values,
// kwargs, contexts, definitions and chunks are opaque; the two component tables are abstract maps.
#[verifier::external_body]
pub struct VxOpaque { _p: () }
#[verifier::external_body]
pub struct Error { _p: () }
pub type TeraResult<T> = Result<T, Error>;
#[verifier::external_body]
pub fn vx_fmt() -> String { unimplemented!() }
#[verifier::external_body]
pub fn vx_rendering_error() -> Error { unimplemented!() }
#[verifier::external_body]
pub struct Value { _p: () }
#[verifier::external_body]
pub struct Context { _p: () }
#[verifier::external_body]
pub struct Chunk { _p: () }
#[verifier::external_body]
pub struct ComponentDefinition { _p: () }
#[verifier::external_body]
pub struct VxKwargs { _p: () }
pub uninterp spec fn is_map(v: Value) -> bool;
pub uninterp spec fn kw_of(v: Value) -> VxKwargs;
pub uninterp spec fn mark_safe_spec(v: Value) -> Value;
pub uninterp spec fn safe_string_spec(s: Seq<char>) -> Value;
/// `ComponentDefinition::build_context` over the call's kwargs (proved in unit components)
pub uninterp spec fn build_spec(d: ComponentDefinition, kw: VxKwargs, body: Option<Value>) -> Result<Context, String>;
impl Value {
    #[verifier::external_body]
    pub fn mark_safe(self) -> (r: Value) ensures r == mark_safe_spec(self) { unimplemented!() }
    #[verifier::external_body]
    pub fn safe_string(s: &str) -> (r: Value) ensures r == safe_string_spec(s@) { unimplemented!() }
}
/// `v.into_map().expect("to have kwargs")`: the compiler always emits a map of keyword arguments first
#[verifier::external_body]
pub fn vx_into_map(v: Value) -> (r: VxKwargs)
    requires is_map(v)
    ensures r == kw_of(v)
{ unimplemented!() }
/// the call `def.build_context(kwargs.keys().filter_map(..), |key| kwargs.get(..).cloned(), body)`: keys and
/// getter are both views of the same kwargs map
#[verifier::external_body]
pub fn vx_build_context(d: &ComponentDefinition, kw: &VxKwargs, body: Option<Value>) -> (r: Result<Context, String>)
    ensures r == build_spec(*d, *kw, body)
{ unimplemented!() }
/// dropped: the "called from" note added to a rendering error on its way out
#[verifier::external_body]
pub fn vx_add_called_from(e: &mut Error) { unimplemented!() }
#[verifier::external_body]
pub fn vx_expect<T>(o: Option<T>) -> (r: T)
    requires o is Some
    ensures r == o->Some_0
{ unimplemented!() }
#[verifier::external_body]
#[verifier::reject_recursive_types(K)]
#[verifier::reject_recursive_types(V)]
pub struct HashMap<K, V> { _p: core::marker::PhantomData<(K, V)> }
impl<V> HashMap<String, V> {
    pub uninterp spec fn view_spec(&self) -> Map<Seq<char>, V>;
    #[verifier::external_body]
    pub fn get(&self, k: &String) -> (r: Option<&V>)
        ensures r is Some <==> self.view_spec().dom().contains(k@), r is Some ==> *r->Some_0 == self.view_spec()[k@]
    { unimplemented!() }
}
/// `&m[k]`: indexing a map panics on a missing key
#[verifier::external_body]
pub fn vx_map_index<'a, V>(m: &'a HashMap<String, V>, k: &String) -> (r: &'a V)
    requires m.view_spec().dom().contains(k@)
    ensures *r == m.view_spec()[k@]
{ unimplemented!() }
// `Value: Clone` (derived in the real source): the clone is an equal value
impl Clone for Value {
    #[verifier::external_body]
    fn clone(&self) -> (r: Self) ensures r == *self { unimplemented!() }
}
