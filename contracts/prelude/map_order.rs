// Collaborators of the map-order unit (C18): keys and values are opaque; a `Map` (std HashMap or IndexMap)
// is seen through its content only.  std contract of `HashMap::iter`: every entry exactly once, in an order
// that is NOT a function of the content (it depends on the instance's random hash state) - so the listing
// shim below promises nothing about order.
#[verifier::external_body]
#[verifier::accept_recursive_types]
pub struct Key<'a> { _p: core::marker::PhantomData<&'a ()> }
#[verifier::external_body]
pub struct Value { _p: () }
#[verifier::external_body]
pub struct Map { _p: () }
impl Map {
    pub uninterp spec fn view(&self) -> vstd::map::Map<Key<'static>, Value>;
}
/// `Key: Ord` as a strict total order (checked for the real impl in the `key`/`ord` units, C15)
pub uninterp spec fn key_lt(a: Key<'static>, b: Key<'static>) -> bool;
#[verifier::external_body]
pub broadcast proof fn axiom_key_lt_total(a: Key<'static>, b: Key<'static>)
    ensures #[trigger] key_lt(a, b) || a == b || key_lt(b, a), !(key_lt(a, b) && key_lt(b, a)), !key_lt(a, a)
{}
#[verifier::external_body]
pub proof fn axiom_key_lt_trans(a: Key<'static>, b: Key<'static>, c: Key<'static>)
    requires key_lt(a, b), key_lt(b, c) ensures key_lt(a, c)
{}
/// `map.iter().map(|(k, v)| (k.clone(), v.clone())).collect()`: the entries, each once, in SOME order
#[verifier::external_body]
pub fn vx_map_entries(m: &Map) -> (r: Vec<(Key<'static>, Value)>)
    ensures lists(r@, m@)
{ unimplemented!() }
/// `v.sort_by(|a, b| a.0.cmp(&b.0))`: std contract of a sort with a total order - the same elements
/// (a rearrangement `p` of the positions), no element before one with a smaller key
#[verifier::external_body]
pub fn vx_sort_by_key(v: &mut Vec<(Key<'static>, Value)>) -> (p: Ghost<(Seq<int>, Seq<int>)>)
    ensures
        rearranged(old(v)@, final(v)@, p@.0, p@.1),
        forall|i: int, j: int| 0 <= i < j < final(v)@.len() ==> !key_lt(#[trigger] final(v)@[j].0, #[trigger] final(v)@[i].0),
{ unimplemented!() }
/// `vec.into_iter()`: yields the elements front to back
#[verifier::external_body]
pub struct VxIntoIter { _p: () }
impl VxIntoIter { pub uninterp spec fn view(&self) -> Seq<(Key<'static>, Value)>; }
#[verifier::external_body]
pub fn vx_into_iter(v: Vec<(Key<'static>, Value)>) -> (r: VxIntoIter) ensures r@ == v@ { unimplemented!() }
pub enum ForLoopIterator {
    Map { pairs: VxIntoIter },
    Other,
}
/// `val.iter().collect()` into a vector of (&key, &value): the entries, each once, in SOME order
#[verifier::external_body]
pub fn vx_map_entry_refs<'a>(m: &'a Map) -> (r: Vec<(&'a Key<'static>, &'a Value)>)
    ensures lists(derefs(r@), m@)
{ unimplemented!() }
/// `v.sort_by_key(|elem| elem.0)` on (&key, &value) pairs: as vx_sort_by_key
#[verifier::external_body]
pub fn vx_sort_refs_by_key<'a>(v: &mut Vec<(&'a Key<'static>, &'a Value)>) -> (p: Ghost<(Seq<int>, Seq<int>)>)
    ensures
        rearranged(derefs(old(v)@), derefs(final(v)@), p@.0, p@.1),
        forall|i: int, j: int| 0 <= i < j < final(v)@.len() ==> !key_lt(*#[trigger] final(v)@[j].0, *#[trigger] final(v)@[i].0),
{ unimplemented!() }
#[verifier::external_body]
pub struct Error { _p: () }
pub type TeraResult<T> = Result<T, Error>;
#[verifier::external_body]
pub struct Kwargs { _p: () }
#[verifier::external_body]
pub struct State { _p: () }
/// `From<Key> for Value` and `From<Vec<Value>> for Value` as functions of their argument
pub uninterp spec fn key_value(k: Key<'static>) -> Value;
pub uninterp spec fn array_value(s: Seq<Value>) -> Value;
#[verifier::external_body]
pub fn vx_clone_value(v: &Value) -> (r: Value) ensures r == *v { unimplemented!() }
#[verifier::external_body]
pub fn vx_clone_key(k: &Key<'static>) -> (r: Key<'static>) ensures r == *k { unimplemented!() }
#[verifier::external_body]
pub fn vx_key_into_value(k: Key<'static>) -> (r: Value) ensures r == key_value(k) { unimplemented!() }
#[verifier::external_body]
pub fn vx_value_from_vec(v: Vec<Value>) -> (r: Value) ensures r == array_value(v@) { unimplemented!() }
/// `vec![a, b, ..]`
#[verifier::external_body]
pub fn vx_vec_of<T, const N: usize>(a: [T; N]) -> (r: Vec<T>) ensures r@ == a@ { unimplemented!() }
/// `map.iter().collect()` into a boxed slice of (&key, &value): the entries, each once, in SOME order
#[verifier::external_body]
pub fn vx_map_entry_refs_boxed<'a>(m: &'a Map) -> (r: Box<Vec<(&'a Key<'static>, &'a Value)>>)
    ensures lists(derefs(r@), m@)
{ unimplemented!() }
// `Value: Clone` (derived in the real source): the clone is an equal value
impl Clone for Value {
    #[verifier::external_body]
    fn clone(&self) -> (r: Self) ensures r == *self { unimplemented!() }
}
/// `map.values().cloned().collect::<Vec<_>>()` (std contract of HashMap::values): the values of SOME listing of
/// the entries - every entry once, in an order that is not a function of the content
#[verifier::external_body]
pub fn vx_map_values_some_order(m: &Map) -> (r: Vec<Value>)
    ensures exists|s: Seq<(Key<'static>, Value)>| #[trigger] lists(s, m@) && r@ =~= Seq::new(s.len(), |i: int| s[i].1)
{ unimplemented!() }
