// `HashMap` (std / crate alias) as an opaque type: only emptiness is modelled here.
// Its methods are trusted declarations carrying the std contract restricted to that view.
#[verifier::external_body]
#[verifier::reject_recursive_types(K)]
#[verifier::reject_recursive_types(V)]
pub struct HashMap<K, V> { _p: core::marker::PhantomData<(K, V)> }
impl<K, V> HashMap<K, V> {
    pub uninterp spec fn empty_spec(&self) -> bool;
    #[verifier::external_body]
    pub fn is_empty(&self) -> (r: bool) ensures r == self.empty_spec() { unimplemented!() }
    #[verifier::external_body]
    pub fn clear(&mut self) ensures final(self).empty_spec() { unimplemented!() }
    #[verifier::external_body]
    pub fn new() -> (r: Self) ensures r.empty_spec() { unimplemented!() }
}
