// Collaborators of Context::from_serialize (C19)
#[verifier::external_body]
pub struct Error { _p: () }
impl Error { #[verifier::external_body] pub fn message(m: String) -> Error { unimplemented!() } }
pub type TeraResult<T> = Result<T, Error>;
#[verifier::external_body]
pub fn vx_fmt() -> String { unimplemented!() }
/// the serialisable Rust value (engine K groups serde_ser / serde_de decide what it converts to)
#[verifier::external_body]
pub struct VxSer { _p: () }
#[verifier::external_body]
pub struct Value { _p: () }
#[verifier::external_body]
pub struct Map { _p: () }
#[verifier::external_body]
pub struct VxArcStr { _p: () }
impl VxArcStr { pub uninterp spec fn text(&self) -> Seq<char>; }
pub enum Key<'a> { String(VxArcStr), Str(&'a str), Bool(bool), U64(u64), I64(i64), U128(u128), I128(i128) }
pub uninterp spec fn ser_spec(v: VxSer) -> Result<Value, Error>;
pub uninterp spec fn into_map_spec(v: Value) -> Option<Map>;
pub uninterp spec fn entries_of(m: Map) -> Seq<(Key<'static>, Value)>;
impl Value {
    #[verifier::external_body]
    pub fn try_from_serializable(v: &VxSer) -> (r: TeraResult<Value>) ensures r is Ok <==> ser_spec(*v) is Ok, r is Ok ==> r->Ok_0 == ser_spec(*v)->Ok_0 { unimplemented!() }
    #[verifier::external_body]
    pub fn name(&self) -> &'static str { unimplemented!() }
    #[verifier::external_body]
    pub fn into_map(self) -> (r: Option<Map>) ensures r == into_map_spec(self) { unimplemented!() }
}
#[verifier::external_body]
pub fn vx_map_into_entries(m: Map) -> (r: Vec<(Key<'static>, Value)>) ensures r@ == entries_of(m) { unimplemented!() }
/// Display of the key payloads (std): decimal digits for integers, `true`/`false`, the text itself
pub uninterp spec fn dec_u(x: int) -> Seq<char>;
pub uninterp spec fn bool_text(b: bool) -> Seq<char>;
pub trait VxDisplay { spec fn shown(&self) -> Seq<char>; }
impl VxDisplay for bool { open spec fn shown(&self) -> Seq<char> { bool_text(*self) } }
impl VxDisplay for u64 { open spec fn shown(&self) -> Seq<char> { dec_u(*self as int) } }
impl VxDisplay for i64 { open spec fn shown(&self) -> Seq<char> { dec_u(*self as int) } }
impl VxDisplay for u128 { open spec fn shown(&self) -> Seq<char> { dec_u(*self as int) } }
impl VxDisplay for i128 { open spec fn shown(&self) -> Seq<char> { dec_u(*self as int) } }
impl<'a> VxDisplay for &'a str { open spec fn shown(&self) -> Seq<char> { self@ } }
impl VxDisplay for VxArcStr { open spec fn shown(&self) -> Seq<char> { self.text() } }
/// `x.to_string()`
#[verifier::external_body]
pub fn vx_text_of<T: VxDisplay>(x: &T) -> (r: String) ensures r@ == x.shown() { unimplemented!() }
/// `(*s).to_string()` of an Arc<str>
#[verifier::external_body]
pub fn vx_text_of_arc(x: &VxArcStr) -> (r: String) ensures r@ == x.text() { unimplemented!() }
/// std::borrow::Cow<str>
pub enum Cow<'a, T: ?Sized + 'a> { Owned(String), Borrowed(&'a T) }
pub open spec fn cow_text(c: Cow<'static, str>) -> Seq<char> { match c { Cow::Owned(s) => s@, Cow::Borrowed(b) => b@ } }
#[verifier::external_body]
#[verifier::reject_recursive_types(V)]
pub struct BTreeMap<V> { _p: core::marker::PhantomData<V> }
impl BTreeMap<Value> {
    pub uninterp spec fn view_spec(&self) -> vstd::map::Map<Seq<char>, Value>;
    #[verifier::external_body]
    pub fn insert(&mut self, k: Cow<'static, str>, v: Value) -> (r: Option<Value>) ensures final(self).view_spec() == old(self).view_spec().insert(cow_text(k), v) { unimplemented!() }
}
#[verifier::external_body]
pub fn vx_data_new() -> (r: BTreeMap<Value>) ensures r.view_spec() == vstd::map::Map::<Seq<char>, Value>::empty() { unimplemented!() }
pub struct Context { pub data: BTreeMap<Value> }
// `Value: Clone` (derived in the real source): the clone is an equal value
impl Clone for Value {
    #[verifier::external_body]
    fn clone(&self) -> (r: Self) ensures r == *self { unimplemented!() }
}
// ---- insert / insert_value / remove / extend / get / contains_key
/// Value::from_serializable: the converted value (none when conversion fails - decided in engine K, serde_ser)
pub uninterp spec fn ser_or_none(v: VxSer) -> Value;
impl Value {
    #[verifier::external_body]
    pub fn from_serializable(v: &VxSer) -> (r: Value) ensures r == ser_or_none(*v) { unimplemented!() }
}
impl BTreeMap<Value> {
    #[verifier::external_body]
    pub fn remove(&mut self, k: &str) -> (r: Option<Value>)
        ensures final(self).view_spec() == old(self).view_spec().remove(k@),
            r == (if old(self).view_spec().dom().contains(k@) { Some(old(self).view_spec()[k@]) } else { None })
    { unimplemented!() }
    /// BTreeMap::append: every entry of `other` moves in, overwriting; `other` is left empty
    #[verifier::external_body]
    pub fn append(&mut self, other: &mut BTreeMap<Value>)
        ensures final(self).view_spec() == old(self).view_spec().union_prefer_right(old(other).view_spec()),
            final(other).view_spec() == vstd::map::Map::<Seq<char>, Value>::empty()
    { unimplemented!() }
    #[verifier::external_body]
    pub fn get(&self, k: &str) -> (r: Option<&Value>)
        ensures r is Some == self.view_spec().dom().contains(k@), r is Some ==> *r->Some_0 == self.view_spec()[k@]
    { unimplemented!() }
    #[verifier::external_body]
    pub fn contains_key(&self, k: &str) -> (r: bool) ensures r == self.view_spec().dom().contains(k@) { unimplemented!() }
}
/// `key.into()` at the one instance verified: the key already is a Cow
#[verifier::external_body]
pub fn vx_into_cow(k: Cow<'static, str>) -> (r: Cow<'static, str>) ensures r == k { unimplemented!() }
