// Collaborators of ValueDeserializer::deserialize_enum (C19): a value is seen through the three shapes the function
// distinguishes (a map, a string, anything else); the serde visitor is a declaration whose answer is an
// uninterpreted function of what it is handed.
#[verifier::external_body]
pub struct VxOpaque { _p: () }
#[verifier::external_body]
pub struct Key { _p: () }
#[verifier::external_body]
pub struct VxMap { _p: () }
pub enum ValueInner { Map(VxMap), String(VxOpaque), Other(VxOpaque) }
pub struct Value { pub inner: ValueInner }
impl Clone for Value { #[verifier::external_body] fn clone(&self) -> (r: Self) ensures r == *self { unimplemented!() } }
impl Value {
    #[verifier::external_body]
    pub fn name(&self) -> &'static str { unimplemented!() }
    pub uninterp spec fn none_spec(&self) -> bool;
    #[verifier::external_body]
    pub fn is_none(&self) -> (r: bool) ensures r == self.none_spec() { unimplemented!() }
}
pub uninterp spec fn key_value(k: Key) -> Value;
impl Key {
    #[verifier::external_body]
    pub fn as_value(&self) -> (r: Value) ensures r == key_value(*self) { unimplemented!() }
}
impl VxMap {
    /// the entries, each once, in the order `iter()` walks them (some order)
    pub uninterp spec fn entries(&self) -> Seq<(Key, Value)>;
    #[verifier::external_body]
    pub fn iter<'m>(&'m self) -> (r: VxMapIter<'m>) ensures r@ == self.entries() { unimplemented!() }
}
#[verifier::external_body]
pub struct VxMapIter<'m> { _p: core::marker::PhantomData<&'m ()> }
impl<'m> VxMapIter<'m> {
    pub uninterp spec fn view(&self) -> Seq<(Key, Value)>;
    /// Iterator::next over the entries still to come
    #[verifier::external_body]
    pub fn next(&mut self) -> (r: Option<(&'m Key, &'m Value)>)
        ensures
            old(self)@.len() == 0 ==> r is None && final(self)@ == old(self)@,
            old(self)@.len() > 0 ==> r is Some && *r->Some_0.0 == old(self)@[0].0 && *r->Some_0.1 == old(self)@[0].1 && final(self)@ == old(self)@.skip(1),
    { unimplemented!() }
}
#[verifier::external_body]
pub struct DeserializationFailed { _p: () }
/// `de::Error::invalid_value(..)` / `de::Error::invalid_type(..)`: some error value
#[verifier::external_body]
pub fn vx_de_error() -> DeserializationFailed { unimplemented!() }
#[verifier::external_body]
pub struct VxOut { _p: () }
/// the visitor of the enum being read (serde's, or a derived one): what it answers is a function of the
/// EnumAccess it is handed
#[verifier::external_body]
pub struct VxVisitor { _p: () }
pub uninterp spec fn visited(v: VxVisitor, e: EnumDeserializer) -> Result<VxOut, DeserializationFailed>;
impl VxVisitor {
    #[verifier::external_body]
    pub fn visit_enum(self, e: EnumDeserializer) -> (r: Result<VxOut, DeserializationFailed>) ensures r == visited(self, e) { unimplemented!() }
}
