// Collaborators of Tera::validate_template_references (C07)
#[verifier::external_body]
pub struct VxOpaque { _p: () }
#[verifier::external_body]
pub fn vx_fmt() -> String { unimplemented!() }
pub type Name = Seq<char>;
pub struct Span { pub range: Range<usize>, pub vx_opaque: VxOpaque }
#[verifier::external_body]
pub struct ReportError { _p: () }
impl ReportError {
    #[verifier::external_body]
    pub fn new(msg: String, name: &String, source: &String, span: &Span) -> ReportError { unimplemented!() }
    #[verifier::external_body]
    pub fn generate_report(&self) -> String { unimplemented!() }
}
#[verifier::external_body]
#[verifier::reject_recursive_types(K)]
#[verifier::reject_recursive_types(V)]
pub struct HashMap<K, V> { _p: core::marker::PhantomData<(K, V)> }
impl<V> HashMap<String, V> {
    pub uninterp spec fn view_spec(&self) -> Map<Name, V>;
}
pub open spec fn entries_ok<V>(m: Map<Name, V>, es: Seq<(&String, &V)>) -> bool {
    &&& forall|i: int| 0 <= i < es.len() ==> #[trigger] m.dom().contains(es[i].0@) && m[es[i].0@] == *es[i].1
    &&& forall|k: Name| #[trigger] m.dom().contains(k) ==> seen(es, es.len() as int, k)
    &&& forall|i: int, j: int| 0 <= i < j < es.len() ==> #[trigger] es[i].0@ != #[trigger] es[j].0@
}
pub open spec fn seen<V>(es: Seq<(&String, &V)>, n: int, k: Name) -> bool { exists|i: int| 0 <= i < n && #[trigger] es[i].0@ == k }
#[verifier::external_body]
pub fn vx_map_entries<'a, V>(m: &'a HashMap<String, V>) -> (r: Vec<(&'a String, &'a V)>) ensures entries_ok(m.view_spec(), r@) { unimplemented!() }
/// a registry of filters / tests / functions
#[verifier::external_body]
pub struct VxRegistry { _p: () }
pub uninterp spec fn reg_has(r: VxRegistry, n: Name) -> bool;
#[verifier::external_body]
pub fn vx_contains_key(r: &VxRegistry, n: &str) -> (b: bool) ensures b == reg_has(*r, n@) { unimplemented!() }
/// the `is_known_component` predicate handed in by finalize_templates
#[verifier::external_body]
pub struct VxCompPred { _p: () }
pub uninterp spec fn comp_known(p: VxCompPred, n: Name) -> bool;
#[verifier::external_body]
pub fn vx_comp_known(p: &VxCompPred, n: &str) -> (b: bool) ensures b == comp_known(*p, n@) { unimplemented!() }
pub struct Template {
    pub name: String, pub source: String,
    pub filter_calls: HashMap<String, Vec<Span>>, pub test_calls: HashMap<String, Vec<Span>>, pub function_calls: HashMap<String, Vec<Span>>,
    pub component_calls: HashMap<String, Vec<Span>>, pub include_calls: HashMap<String, Vec<Span>>,
    pub vx_opaque: VxOpaque,
}
pub struct Tera { pub filters: VxRegistry, pub tests: VxRegistry, pub functions: VxRegistry, pub vx_opaque: VxOpaque }
/// `resolve_template_name(name)` finds a registered template (unit resolve_name)
pub uninterp spec fn tpl_resolves(t: &Tera, n: Name) -> bool;
#[verifier::external_body]
pub fn vx_tpl_unresolved(t: &Tera, n: &String) -> (b: bool) ensures b == !tpl_resolves(t, n@) { unimplemented!() }
#[verifier::external_body]
pub fn vx_str_eq(a: &String, b: &str) -> (r: bool) ensures r == (a@ == b@) { unimplemented!() }
#[verifier::external_body]
pub struct Error { _p: () }
impl Error { #[verifier::external_body] pub fn message(m: String) -> Error { unimplemented!() } }
pub type TeraResult<T> = Result<T, Error>;
/// what a region does next: falls through to the rest of the function, or returns from it
pub enum VxFlow<T> { Next, Return(T) }
#[verifier::external_body]
pub fn vx_sort_reports(v: &mut Vec<(&str, usize, String)>) ensures final(v)@.len() == old(v)@.len() { unimplemented!() }
#[verifier::external_body]
pub fn vx_reports_of(v: Vec<(&str, usize, String)>) -> (r: Vec<String>) ensures r@.len() == v@.len() { unimplemented!() }
#[verifier::external_body]
pub fn vx_join(v: &Vec<String>, sep: &str) -> String { unimplemented!() }
