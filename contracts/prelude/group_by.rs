// group_by (C16): keys are abstract (`KeyV` = what Eq/Hash of Key identify: C15's obligations), groups are a map key -> sequence
#[verifier::external_body]
pub struct Key { _p: () }
#[verifier::external_body]
pub struct KeyV { _p: () }
pub uninterp spec fn key_view(k: Key) -> KeyV;
/// `Value::as_key`
pub uninterp spec fn as_key_spec(v: Value) -> Result<KeyV, Error>;
impl Value {
    #[verifier::external_body]
    pub fn as_key(&self) -> (r: TeraResult<Key>)
        ensures r is Ok <==> as_key_spec(*self) is Ok, r is Ok ==> key_view(r->Ok_0) == as_key_spec(*self)->Ok_0
    { unimplemented!() }
}
#[verifier::external_body]
#[verifier::reject_recursive_types(K)]
#[verifier::reject_recursive_types(V)]
pub struct HashMap<K, V> { _p: core::marker::PhantomData<(K, V)> }
impl HashMap<Key, Vec<Value>> {
    pub uninterp spec fn view_spec(&self) -> vstd::map::Map<KeyV, Seq<Value>>;
    /// `HashMap::get_mut` (std): a mutable reference to the entry's value; what is written through it is what the map holds afterwards
    #[verifier::external_body]
    pub fn get_mut(&mut self, k: &Key) -> (r: Option<&mut Vec<Value>>)
        ensures
            old(self).view_spec().dom().contains(key_view(*k)) ==> r is Some && r->Some_0@ == old(self).view_spec()[key_view(*k)]
                && final(self).view_spec() == old(self).view_spec().insert(key_view(*k), final(r->Some_0)@),
            !old(self).view_spec().dom().contains(key_view(*k)) ==> r is None && final(self).view_spec() == old(self).view_spec(),
    { unimplemented!() }
    #[verifier::external_body]
    pub fn insert(&mut self, k: Key, v: Vec<Value>) -> (r: Option<Vec<Value>>)
        ensures final(self).view_spec() == old(self).view_spec().insert(key_view(k), v@)
    { unimplemented!() }
}
#[verifier::external_body]
pub fn vx_groups_new() -> (r: HashMap<Key, Vec<Value>>) ensures r.view_spec() == vstd::map::Map::<KeyV, Seq<Value>>::empty() { unimplemented!() }
/// `vec![x]`
#[verifier::external_body]
pub fn vx_vec1(x: Value) -> (r: Vec<Value>) ensures r@ == seq![x] { unimplemented!() }
#[verifier::external_body]
pub struct Map { _p: () }
pub uninterp spec fn map_view(m: Map) -> vstd::map::Map<KeyV, Seq<Value>>;
#[verifier::external_body]
pub fn vx_map_new() -> (r: Map) ensures map_view(r) == vstd::map::Map::<KeyV, Seq<Value>>::empty() { unimplemented!() }
/// `grouped.into_iter().map(|(k, v)| (k, v.into())).collect()`: the same keys, each group as an array value
#[verifier::external_body]
pub fn vx_groups_into_map(g: HashMap<Key, Vec<Value>>) -> (r: Map) ensures map_view(r) == g.view_spec() { unimplemented!() }
