// Collaborators of the lineage loops of finalize_templates (C04): maps as abstract views with std's
// HashMap contracts; chunks opaque with one observable (does it call `super`).
#[verifier::external_body]
pub struct VxOpaque { _p: () }
#[verifier::external_body]
pub struct Error { _p: () }
pub type TeraResult<T> = Result<T, Error>;
pub type Name = Seq<char>;
#[verifier::external_body]
pub struct Chunk { _p: () }
pub uninterp spec fn calls_super(c: Chunk) -> bool;
impl Chunk {
    #[verifier::external_body]
    pub fn is_calling_function(&self, name: &str) -> (r: bool)
        ensures name@ == "super"@ ==> r == calls_super(*self)
    { unimplemented!() }
}
impl Clone for Chunk { #[verifier::external_body] fn clone(&self) -> (r: Self) ensures r == *self { unimplemented!() } }
#[verifier::external_body]
#[verifier::reject_recursive_types(K)]
#[verifier::reject_recursive_types(V)]
pub struct HashMap<K, V> { _p: core::marker::PhantomData<(K, V)> }
impl<V> HashMap<String, V> {
    pub uninterp spec fn view_spec(&self) -> Map<Name, V>;
    #[verifier::external_body]
    pub fn insert(&mut self, k: String, v: V) -> (r: Option<V>)
        ensures final(self).view_spec() == old(self).view_spec().insert(k@, v)
    { unimplemented!() }
    #[verifier::external_body]
    pub fn get(&self, k: &String) -> (r: Option<&V>)
        ensures r is Some <==> self.view_spec().dom().contains(k@), r is Some ==> *r->Some_0 == self.view_spec()[k@]
    { unimplemented!() }
}
/// `es` lists the entries of `m`, each key exactly once (std's contract of map iteration; the order is unspecified)
pub open spec fn entries_ok<V>(m: Map<Name, V>, es: Seq<(&String, &V)>) -> bool {
    &&& forall|i: int| 0 <= i < es.len() ==> #[trigger] m.dom().contains(es[i].0@) && m[es[i].0@] == *es[i].1
    &&& forall|k: Name| #[trigger] m.dom().contains(k) ==> seen(es, es.len() as int, k)
    &&& forall|i: int, j: int| 0 <= i < j < es.len() ==> #[trigger] es[i].0@ != #[trigger] es[j].0@
}
/// key `k` is among the first `n` entries
pub open spec fn seen<V>(es: Seq<(&String, &V)>, n: int, k: Name) -> bool { exists|i: int| 0 <= i < n && #[trigger] es[i].0@ == k }
#[verifier::external_body]
pub fn vx_map_entries<'a, V>(m: &'a HashMap<String, V>) -> (r: Vec<(&'a String, &'a V)>)
    ensures entries_ok(m.view_spec(), r@)
{ unimplemented!() }
pub open spec fn names_of(v: Seq<String>) -> Seq<Name> { Seq::new(v.len(), |i: int| v[i]@) }
/// `tpl_parents[name]` as names (root first)
pub open spec fn parents_spec(m: &HashMap<String, Vec<String>>, n: Name) -> Seq<Name> { names_of(m.view_spec()[n]@) }
/// `tpl_parents[name]`: indexing a map panics on a missing key
#[verifier::external_body]
pub fn vx_parents_of<'a>(m: &'a HashMap<String, Vec<String>>, n: &String) -> (r: &'a Vec<String>)
    requires m.view_spec().dom().contains(n@)
    ensures *r == m.view_spec()[n@]
{ unimplemented!() }
#[verifier::external_body]
pub fn vx_clone_string(s: &String) -> (r: String) ensures r@ == s@ { unimplemented!() }
pub struct Template { pub blocks: HashMap<String, Chunk>, pub vx_opaque: VxOpaque }
pub struct Tera { pub vx_opaque: VxOpaque }
/// the registered template a name resolves to (unit resolve_name)
pub uninterp spec fn tpl_named(t: &Tera, name: Name) -> &Template;
impl Tera {
    #[verifier::external_body]
    pub fn must_get_template(&self, name: &String) -> (r: TeraResult<&Template>)
        ensures r is Ok ==> r->Ok_0 == tpl_named(self, name@)
    { unimplemented!() }
}

// ---- second region: the two-level block table (template -> block -> lineage)
pub type Tbl = Map<Name, Map<Name, Seq<Chunk>>>;
pub uninterp spec fn deep(m: HashMap<String, HashMap<String, Vec<Chunk>>>) -> Tbl;
pub uninterp spec fn shallow(m: HashMap<String, Vec<Chunk>>) -> Map<Name, Seq<Chunk>>;
/// `tpl_blocks.get(k).cloned()`
#[verifier::external_body]
pub fn vx_get_cloned(tb: &HashMap<String, HashMap<String, Vec<Chunk>>>, k: &String) -> (r: Option<HashMap<String, Vec<Chunk>>>)
    ensures r is Some <==> deep(*tb).dom().contains(k@), r is Some ==> shallow(r->Some_0) == deep(*tb)[k@]
{ unimplemented!() }
/// a `&mut` into the table at one key, as a handle (the borrow itself is not modelled)
pub struct VxChild { pub key: Ghost<Name> }
/// `tpl_blocks.get_mut(k)`
#[verifier::external_body]
pub fn vx_get_mut(tb: &HashMap<String, HashMap<String, Vec<Chunk>>>, k: &String) -> (r: Option<VxChild>)
    ensures r is Some <==> deep(*tb).dom().contains(k@), r is Some ==> r->Some_0.key@ == k@
{ unimplemented!() }
/// `child.entry(b).or_insert(l)` on the inner map the handle points to: insert only if absent
#[verifier::external_body]
pub fn vx_or_insert(tb: &mut HashMap<String, HashMap<String, Vec<Chunk>>>, child: &VxChild, b: String, l: Vec<Chunk>)
    requires deep(*old(tb)).dom().contains(child.key@)
    ensures deep(*final(tb)) == deep(*old(tb)).insert(child.key@,
        if deep(*old(tb))[child.key@].dom().contains(b@) { deep(*old(tb))[child.key@] } else { deep(*old(tb))[child.key@].insert(b@, l@) })
{ unimplemented!() }
/// the entries of a consumed map: every key exactly once, unspecified order
pub open spec fn own_entries_ok(m: Map<Name, Seq<Chunk>>, es: Seq<(String, Vec<Chunk>)>) -> bool {
    &&& forall|i: int| 0 <= i < es.len() ==> #[trigger] m.dom().contains(es[i].0@) && m[es[i].0@] == es[i].1@
    &&& forall|k: Name| #[trigger] m.dom().contains(k) ==> exists|i: int| 0 <= i < es.len() && #[trigger] es[i].0@ == k
}
#[verifier::external_body]
pub fn vx_map_into_entries(m: HashMap<String, Vec<Chunk>>) -> (r: Vec<(String, Vec<Chunk>)>)
    ensures own_entries_ok(shallow(m), r@)
{ unimplemented!() }
/// `child.insert(b, l)` through the handle: overwrites
#[verifier::external_body]
pub fn vx_child_insert(tb: &mut HashMap<String, HashMap<String, Vec<Chunk>>>, child: &VxChild, b: String, l: Vec<Chunk>)
    requires deep(*old(tb)).dom().contains(child.key@)
    ensures deep(*final(tb)) == deep(*old(tb)).insert(child.key@, deep(*old(tb))[child.key@].insert(b@, l@))
{ unimplemented!() }
// ---- third region: blocks a child declares must exist in an ancestor
#[verifier::external_body]
pub struct Span2 { _p: () }
pub struct Template2 { pub name: String, pub source: String, pub block_name_spans: HashMap<String, BlockSpan>, pub vx_opaque: VxOpaque }
pub struct BlockSpan { pub range: core::ops::Range<usize>, pub vx_opaque: VxOpaque }
#[verifier::external_body]
pub struct ReportError { _p: () }
impl ReportError {
    #[verifier::external_body]
    pub fn new(msg: String, name: &String, source: &String, span: &BlockSpan) -> ReportError { unimplemented!() }
    #[verifier::external_body]
    pub fn generate_report(&self) -> String { unimplemented!() }
}
#[verifier::external_body]
pub fn vx_fmt() -> String { unimplemented!() }
/// one of the first n ancestors is a registered template that defines block b
pub open spec fn some_parent_has(t: &Tera, ps: Seq<String>, n: int, b: Name) -> bool {
    exists|i: int| 0 <= i < n && #[trigger] parent_has(t, ps[i]@, b)
}
pub uninterp spec fn parent_has(t: &Tera, parent: Name, b: Name) -> bool;
/// `parents.iter().any(|p| self.templates.get(p).map(|t| t.blocks.contains_key(b)).unwrap_or(false))`
#[verifier::external_body]
pub fn vx_any_parent_has(t: &Tera, ps: &Vec<String>, b: &String) -> (r: bool) ensures r == some_parent_has(t, ps@, ps@.len() as int, b@) { unimplemented!() }
