// Trusted declarations shared by the units (DESIGN 5).  Everything here is an assumption and is
// listed in the evidence by the mechanical scan.

#[verifier::external_body]
pub struct Error { _p: () }
pub type TeraResult<T> = Result<T, Error>;

impl Error {
    #[verifier::external_body]
    pub fn message<T>(message: T) -> Error { unimplemented!() }
}

// R1: the text of a formatted message is dropped
#[verifier::external_body]
pub fn vx_fmt() -> String { unimplemented!() }

// R2: every panic site becomes the obligation "this call is unreachable"
#[verifier::external_body]
pub fn vx_unreachable() -> !
    requires false
{ unreachable!() }

// std combinators a body may use on Option / Result (their definitions, as contracts)
pub assume_specification<T, E>[ Result::<T, E>::unwrap_or ](r: Result<T, E>, d: T) -> (o: T)
    ensures o == (match r { Ok(v) => v, Err(_) => d });
