// str::strip_prefix in its three pattern forms and str::len, over the character sequence of the text;
// `blen` is the UTF-8 byte length (uninterpreted, additive over concatenation).
pub uninterp spec fn blen(s: Seq<char>) -> nat;
pub open spec fn is_ws(c: char) -> bool { c == ' ' || c == '\t' || c == '\n' || c == '\r' || c == '\x0c' }
#[verifier::external_body]
pub proof fn axiom_blen(a: Seq<char>, b: Seq<char>)
    ensures blen(a + b) == blen(a) + blen(b)
{}
#[verifier::external_body]
pub fn vx_blen(s: &str) -> (r: usize) ensures r == blen(s@) { unimplemented!() }
#[verifier::external_body]
pub fn vx_strip_char<'a>(s: &'a str, c: char) -> (r: Option<&'a str>)
    ensures r is Some <==> (s@.len() > 0 && s@[0] == c), r is Some ==> r->Some_0@ == s@.skip(1)
{ unimplemented!() }
/// `strip_prefix(|x: char| x.is_ascii_whitespace())`: one whitespace character
#[verifier::external_body]
pub fn vx_strip_ws<'a>(s: &'a str) -> (r: Option<&'a str>)
    ensures r is Some <==> (s@.len() > 0 && is_ws(s@[0])), r is Some ==> r->Some_0@ == s@.skip(1)
{ unimplemented!() }
#[verifier::external_body]
pub fn vx_strip_str<'a>(s: &'a str, p: &str) -> (r: Option<&'a str>)
    ensures r is Some <==> p@.is_prefix_of(s@), r is Some ==> r->Some_0@ == s@.skip(p@.len() as int)
{ unimplemented!() }
