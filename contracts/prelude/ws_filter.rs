// Collaborators of the whitespace filter (C08): the peekable token stream as a sequence with std's
// Peekable contract; str::trim_start / trim_end as uninterpreted functions of the text.
#[verifier::external_body]
pub struct Error { _p: () }
#[verifier::external_body]
pub struct Span { _p: () }
pub type Item<'a> = Result<(Token<'a>, Span), Error>;
#[verifier::external_body]
pub struct VxPeekable<'a> { _p: core::marker::PhantomData<&'a ()> }
impl<'a> VxPeekable<'a> {
    /// what is still to come
    pub uninterp spec fn view(&self) -> Seq<Item<'a>>;
    #[verifier::external_body]
    pub fn next(&mut self) -> (r: Option<Item<'a>>)
        ensures
            old(self)@.len() == 0 ==> r is None && final(self)@ == old(self)@,
            old(self)@.len() > 0 ==> r == Some(old(self)@[0]) && final(self)@ == old(self)@.skip(1),
    { unimplemented!() }
    #[verifier::external_body]
    pub fn peek(&mut self) -> (r: Option<&Item<'a>>)
        ensures
            final(self)@ == old(self)@,
            old(self)@.len() == 0 ==> r is None,
            old(self)@.len() > 0 ==> r == Some(&old(self)@[0]),
    { unimplemented!() }
}
pub uninterp spec fn trim_start_spec(s: Seq<char>) -> Seq<char>;
pub uninterp spec fn trim_end_spec(s: Seq<char>) -> Seq<char>;
#[verifier::external_body]
pub fn vx_trim_start<'a>(s: &'a str) -> (r: &'a str) ensures r@ == trim_start_spec(s@) { unimplemented!() }
#[verifier::external_body]
pub fn vx_trim_end<'a>(s: &'a str) -> (r: &'a str) ensures r@ == trim_end_spec(s@) { unimplemented!() }
