// A model of `str` for filters that handle text: the view is the sequence of characters; `blen` is the
// UTF-8 byte length (uninterpreted, additive); byte offsets are meaningful only on character boundaries.
// Every function here is std's contract for the named `str` / `String` / `char` method (ASSUMED).
pub uninterp spec fn blen(s: Seq<char>) -> nat;
#[verifier::external_body]
pub proof fn axiom_blen(a: Seq<char>, b: Seq<char>) ensures blen(a + b) == blen(a) + blen(b) {}
/// a prefix / suffix is not longer in bytes than the whole (from additivity)
pub broadcast proof fn lemma_prefix_blen(p: Seq<char>, s: Seq<char>)
    requires #[trigger] p.is_prefix_of(s)
    ensures blen(p) <= blen(s)
{
    assert(s =~= p + s.skip(p.len() as int));
    axiom_blen(p, s.skip(p.len() as int));
}
pub broadcast proof fn lemma_suffix_blen(p: Seq<char>, s: Seq<char>)
    requires #[trigger] p.is_suffix_of(s)
    ensures blen(p) <= blen(s)
{
    assert(s =~= s.take(s.len() - p.len()) + p);
    axiom_blen(s.take(s.len() - p.len()), p);
}
/// byte offset i falls between two characters of s (or at an end)
pub open spec fn is_boundary(s: Seq<char>, i: int) -> bool { exists|k: int| 0 <= k <= s.len() && #[trigger] blen(s.take(k)) == i }
/// the characters before byte offset i (meaningful when i is a boundary)
pub uninterp spec fn take_bytes(s: Seq<char>, i: int) -> Seq<char>;
pub uninterp spec fn skip_bytes(s: Seq<char>, i: int) -> Seq<char>;
#[verifier::external_body]
pub proof fn axiom_take_bytes(s: Seq<char>, k: int)
    requires 0 <= k <= s.len()
    ensures take_bytes(s, blen(s.take(k)) as int) == s.take(k), skip_bytes(s, blen(s.take(k)) as int) == s.skip(k)
{}
#[verifier::external_body]
pub fn vx_to_string(s: &str) -> (r: String) ensures r@ == s@ { unimplemented!() }
/// `String + &str`
#[verifier::external_body]
pub fn vx_concat(a: String, b: &str) -> (r: String) ensures r@ == a@ + b@ { unimplemented!() }
pub uninterp spec fn trim_spec(s: Seq<char>) -> Seq<char>;
pub uninterp spec fn trim_start_spec(s: Seq<char>) -> Seq<char>;
pub uninterp spec fn trim_end_spec(s: Seq<char>) -> Seq<char>;
pub uninterp spec fn trim_start_matches_spec(s: Seq<char>, p: Seq<char>) -> Seq<char>;
pub uninterp spec fn trim_end_matches_spec(s: Seq<char>, p: Seq<char>) -> Seq<char>;
pub uninterp spec fn replace_spec(s: Seq<char>, from: Seq<char>, to: Seq<char>) -> Seq<char>;
pub uninterp spec fn upper_c(c: char) -> Seq<char>;
pub uninterp spec fn lower_s(s: Seq<char>) -> Seq<char>;
pub uninterp spec fn upper_s(s: Seq<char>) -> Seq<char>;
#[verifier::external_body]
pub fn vx_trim<'a>(s: &'a str) -> (r: &'a str) ensures r@ == trim_spec(s@) { unimplemented!() }
#[verifier::external_body]
pub fn vx_trim_start<'a>(s: &'a str) -> (r: &'a str) ensures r@ == trim_start_spec(s@) { unimplemented!() }
#[verifier::external_body]
pub fn vx_trim_end<'a>(s: &'a str) -> (r: &'a str) ensures r@ == trim_end_spec(s@) { unimplemented!() }
#[verifier::external_body]
pub fn vx_trim_start_matches<'a>(s: &'a str, p: &str) -> (r: &'a str) ensures r@ == trim_start_matches_spec(s@, p@) { unimplemented!() }
#[verifier::external_body]
pub fn vx_trim_end_matches<'a>(s: &'a str, p: &str) -> (r: &'a str) ensures r@ == trim_end_matches_spec(s@, p@) { unimplemented!() }
#[verifier::external_body]
pub fn vx_replace(s: &str, from: &str, to: &str) -> (r: String) ensures r@ == replace_spec(s@, from@, to@) { unimplemented!() }
/// `c.to_uppercase().collect::<String>()`
#[verifier::external_body]
pub fn vx_char_upper(c: char) -> (r: String) ensures r@ == upper_c(c) { unimplemented!() }
#[verifier::external_body]
pub fn vx_str_lower(s: &str) -> (r: String) ensures r@ == lower_s(s@) { unimplemented!() }
#[verifier::external_body]
pub fn vx_str_upper(s: &str) -> (r: String) ensures r@ == upper_s(s@) { unimplemented!() }
/// `s.chars()`
#[verifier::external_body]
pub struct VxChars<'a> { _p: core::marker::PhantomData<&'a ()> }
impl<'a> VxChars<'a> {
    pub uninterp spec fn view(&self) -> Seq<char>;
    #[verifier::external_body]
    pub fn next(&mut self) -> (r: Option<char>)
        ensures
            old(self)@.len() == 0 ==> r is None && final(self)@ == old(self)@,
            old(self)@.len() > 0 ==> r == Some(old(self)@[0]) && final(self)@ == old(self)@.skip(1),
    { unimplemented!() }
    #[verifier::external_body]
    pub fn as_str(&self) -> (r: &'a str) ensures r@ == self@ { unimplemented!() }
}
#[verifier::external_body]
pub fn vx_chars<'a>(s: &'a str) -> (r: VxChars<'a>) ensures r@ == s@ { unimplemented!() }
/// `s.char_indices().nth(n)`: the byte offset and the character at character position n
#[verifier::external_body]
pub fn vx_char_indices_nth(s: &str, n: usize) -> (r: Option<(usize, char)>)
    ensures r is Some <==> n < s@.len(), r is Some ==> r->Some_0.0 == blen(s@.take(n as int)) && r->Some_0.1 == s@[n as int]
{ unimplemented!() }
/// `&s[..i]` / `s[..i]`: slicing panics unless i is a character boundary
#[verifier::external_body]
pub fn vx_str_slice<'a>(s: &'a str, r: core::ops::RangeTo<usize>) -> (o: &'a str)
    requires is_boundary(s@, r.end as int)
    ensures o@ == take_bytes(s@, r.end as int)
{ unimplemented!() }
/// `s.split_at(mid)`: panics unless mid is a character boundary
#[verifier::external_body]
pub fn vx_split_at<'a>(s: &'a str, mid: usize) -> (o: (&'a str, &'a str))
    requires is_boundary(s@, mid as int)
    ensures o.0@ == take_bytes(s@, mid as int), o.1@ == skip_bytes(s@, mid as int)
{ unimplemented!() }
#[verifier::external_body]
pub fn vx_str_is_empty(s: &str) -> (r: bool) ensures r == (s@.len() == 0) { unimplemented!() }
#[verifier::external_body]
pub fn vx_string_with_capacity() -> (r: String) ensures r@ == Seq::<char>::empty() { unimplemented!() }
#[verifier::external_body]
pub fn vx_push_str(s: &mut String, t: &str) ensures final(s)@ == old(s)@ + t@ { unimplemented!() }
#[verifier::external_body]
pub fn vx_push_char(s: &mut String, c: char) ensures final(s)@ == old(s)@.push(c) { unimplemented!() }
pub uninterp spec fn lower_c(c: char) -> Seq<char>;
pub uninterp spec fn is_ascii_punct(c: char) -> bool;
pub uninterp spec fn is_ws_char(c: char) -> bool;
/// `write!(s, "{}", c.to_uppercase()).unwrap()` (writing to a String cannot fail)
#[verifier::external_body]
pub fn vx_push_upper(s: &mut String, c: char) ensures final(s)@ == old(s)@ + upper_c(c) { unimplemented!() }
#[verifier::external_body]
pub fn vx_push_lower(s: &mut String, c: char) ensures final(s)@ == old(s)@ + lower_c(c) { unimplemented!() }
#[verifier::external_body]
pub fn vx_is_ascii_punct(c: char) -> (r: bool) ensures r == is_ascii_punct(c) { unimplemented!() }
#[verifier::external_body]
pub fn vx_is_ws(c: char) -> (r: bool) ensures r == is_ws_char(c) { unimplemented!() }
#[verifier::external_body]
pub fn vx_starts_with(s: &str, p: &str) -> (r: bool) ensures r == p@.is_prefix_of(s@) { unimplemented!() }
#[verifier::external_body]
pub fn vx_ends_with(s: &str, p: &str) -> (r: bool) ensures r == p@.is_suffix_of(s@) { unimplemented!() }
