// Collaborators of the json_encode and slug filters (C20): serde_json and the `slug` crate by their documented
// contracts (ASSUMED): serde_json::to_string / to_string_pretty of a value free of non-finite floats is valid JSON
// that decodes to the same data; slugify's output is made of lowercase ASCII letters, digits and single interior
// hyphens.  What is proved is that the filters hand EVERY input to those functions and return their answer.
#[verifier::external_body]
pub struct Error { _p: () }
pub type TeraResult<T> = Result<T, Error>;
#[verifier::external_body]
pub struct Kwargs { _p: () }
#[verifier::external_body]
pub struct State { _p: () }
#[verifier::external_body]
pub struct Value { _p: () }
#[verifier::external_body]
pub struct VxJsonError { _p: () }
pub uninterp spec fn kw_bool(k: Kwargs, name: Seq<char>) -> Result<Option<bool>, Error>;
#[verifier::external_body]
pub fn vx_kw_bool(k: &Kwargs, name: &str) -> (r: TeraResult<Option<bool>>) ensures r == kw_bool(*k, name@) { unimplemented!() }
/// what serde_json writes for a value: None when it refuses (non-finite floats are written as null, keys that are
/// not strings are refused, ...)
pub uninterp spec fn json_text(v: Value, pretty: bool) -> Option<Seq<char>>;
pub mod serde_json {
    use super::*;
    #[verifier::external_body]
    pub fn to_string(v: &Value) -> (r: Result<String, VxJsonError>)
        ensures r is Ok == json_text(*v, false) is Some, r is Ok ==> r->Ok_0@ == json_text(*v, false)->Some_0
    { unimplemented!() }
    #[verifier::external_body]
    pub fn to_string_pretty(v: &Value) -> (r: Result<String, VxJsonError>)
        ensures r is Ok == json_text(*v, true) is Some, r is Ok ==> r->Ok_0@ == json_text(*v, true)->Some_0
    { unimplemented!() }
}
/// `res.map_err(|e| Error::message(..))`: Ok stays as it is
#[verifier::external_body]
pub fn vx_json_map_err(r: Result<String, VxJsonError>) -> (o: TeraResult<String>)
    ensures o is Ok == r is Ok, o is Ok ==> o->Ok_0 == r->Ok_0
{ unimplemented!() }
pub uninterp spec fn slugify_spec(s: Seq<char>) -> Seq<char>;
#[verifier::external_body]
pub fn slugify(s: &str) -> (r: String) ensures r@ == slugify_spec(s@) { unimplemented!() }
pub open spec fn opt_or(o: Option<bool>, d: bool) -> bool { match o { Some(b) => b, None => d } }
/// public accessors of Value a filter may consult (uninterpreted: what they answer is not this unit's business)
impl Value {
    pub uninterp spec fn as_str_spec(&self) -> Option<Seq<char>>;
    #[verifier::external_body]
    pub fn as_str(&self) -> (r: Option<&str>) ensures r is Some == self.as_str_spec() is Some, r is Some ==> r->Some_0@ == self.as_str_spec()->Some_0 { unimplemented!() }
    #[verifier::external_body]
    pub fn is_none(&self) -> bool { unimplemented!() }
    #[verifier::external_body]
    pub fn is_undefined(&self) -> bool { unimplemented!() }
}
#[verifier::external_body]
pub fn vx_fmt() -> String { unimplemented!() }
// `Value: Clone` (derived in the real source): the clone is an equal value
impl Clone for Value {
    #[verifier::external_body]
    fn clone(&self) -> (r: Self) ensures r == *self { unimplemented!() }
}
// ---- percent-encoding crate: `percent_encode(bytes, SET)` displays each byte verbatim or as %XX as the set says
// (what the two sets do to each of the 256 byte values is decided by complete enumeration in engine K; here the
// sets are two opaque constants, so that WHICH set a filter uses is part of what is proved)
pub enum VxSet { Python, Strict }
pub const PYTHON_ENCODE_SET: VxSet = VxSet::Python;
pub const NON_ALPHANUMERIC: VxSet = VxSet::Strict;
pub uninterp spec fn str_bytes(s: Seq<char>) -> Seq<u8>;
pub uninterp spec fn pe(b: Seq<u8>, set: VxSet) -> Seq<char>;
#[verifier::external_body]
pub struct VxPercentEncode { _p: () }
impl VxPercentEncode {
    pub uninterp spec fn text(&self) -> Seq<char>;
    #[verifier::external_body]
    pub fn to_string(&self) -> (r: String) ensures r@ == self.text() { unimplemented!() }
}
#[verifier::external_body]
pub fn percent_encode(b: &[u8], set: VxSet) -> (r: VxPercentEncode) ensures r.text() == pe(b@, set) { unimplemented!() }
/// the crate's own path and its `&str` form (`utf8_percent_encode(s, set)` is `percent_encode(s.as_bytes(), set)`,
/// percent-encoding 2.x)
pub mod percent_encoding {
    use crate::*;
    verus! {
    #[verifier::external_body]
    pub fn utf8_percent_encode(s: &str, set: VxSet) -> (r: VxPercentEncode) ensures r.text() == pe(str_bytes(s@), set) { unimplemented!() }
    #[verifier::external_body]
    pub fn percent_encode(b: &[u8], set: VxSet) -> (r: VxPercentEncode) ensures r.text() == pe(b@, set) { unimplemented!() }
    }
}
#[verifier::external_body]
pub fn vx_str_bytes(s: &str) -> (r: &[u8]) ensures r@ == str_bytes(s@) { unimplemented!() }
