// Tera as seen by resolve_template_name: the template map (exact lookup) and the prefix list
#[verifier::external_body]
pub struct VxOpaque { _p: () }
#[verifier::external_body]
pub struct Template { _p: () }
pub type Name = Seq<char>;
#[verifier::external_body]
pub struct TplMap { _p: () }
impl TplMap {
    pub uninterp spec fn names(&self) -> Set<Name>;
    /// the template registered under a name
    pub uninterp spec fn tpl_of(&self, n: Name) -> &Template;
    /// HashMap::get
    #[verifier::external_body]
    pub fn get(&self, k: &str) -> (r: Option<&Template>) ensures r is Some == self.names().contains(k@), r is Some ==> r->Some_0 == self.tpl_of(k@) { unimplemented!() }
    /// HashMap::contains_key
    #[verifier::external_body]
    pub fn contains_key(&self, k: &str) -> (r: bool) ensures r == self.names().contains(k@) { unimplemented!() }
    /// `&map[k]` (std contract of Index for HashMap: panics on a missing key, else the entry)
    #[verifier::external_body]
    pub fn vx_index(&self, k: &str) -> (r: &Template)
        requires self.names().contains(k@)
        ensures r == self.tpl_of(k@)
    { unimplemented!() }
    /// HashMap::get_key_value: exact lookup, returns the stored key
    #[verifier::external_body]
    pub fn get_key_value(&self, k: &str) -> (r: Option<(&String, &Template)>)
        ensures r is Some == self.names().contains(k@), r is Some ==> r->Some_0.0@ == k@
    { unimplemented!() }
}
/// `Cow<'static, str>` prefixes: only their text matters
#[verifier::external_body]
pub struct CowStr { _p: () }
impl CowStr { pub uninterp spec fn text(&self) -> Name; }
pub struct Tera { pub templates: TplMap, pub fallback_prefixes: Vec<CowStr>, pub vx_opaque: VxOpaque }
/// `format!("{}{}", prefix, name)`: concatenation (std contract of Display for str/Cow<str>)
#[verifier::external_body]
pub fn vx_concat(prefix: &CowStr, name: &str) -> (r: String) ensures r@ == prefix.text() + name@ { unimplemented!() }
#[verifier::external_body]
pub struct Error { _p: () }
pub type TeraResult<T> = Result<T, Error>;
impl Error {
    #[verifier::external_body]
    pub fn template_not_found(name: &str) -> Error { unimplemented!() }
}
