// Tera as seen by resolve_template_name: the template map (exact lookup) and the prefix list
#[verifier::external_body]
pub struct VxOpaque { _p: () }
#[verifier::external_body]
pub struct Template { _p: () }
pub type Name = Seq<char>;
#[verifier::external_body]
pub struct TplMap { _p: () }
impl TplMap {
    pub uninterp spec fn names(&self) -> Set<Name>;
    /// HashMap::get_key_value: exact lookup, returns the stored key
    #[verifier::external_body]
    pub fn get_key_value(&self, k: &str) -> (r: Option<(&String, &Template)>)
        ensures r is Some == self.names().contains(k@), r is Some ==> r->Some_0.0@ == k@
    { unimplemented!() }
}
/// `Cow<'static, str>` prefixes: only their text matters
#[verifier::external_body]
pub struct CowStr { _p: () }
impl CowStr { pub uninterp spec fn text(&self) -> Name; }
pub struct Tera { pub templates: TplMap, pub fallback_prefixes: Vec<CowStr>, pub vx_opaque: VxOpaque }
/// `format!("{}{}", prefix, name)`: concatenation (std contract of Display for str/Cow<str>)
#[verifier::external_body]
pub fn vx_concat(prefix: &CowStr, name: &str) -> (r: String) ensures r@ == prefix.text() + name@ { unimplemented!() }
