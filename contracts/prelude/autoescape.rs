// Tera as seen by set_templates_auto_escape (C01/C10): templates as an abstract map of (flag, rest)
#[verifier::external_body]
pub struct VxOpaque { _p: () }
pub type Name = Seq<char>;
pub struct Template { pub autoescape_enabled: bool, pub vx_opaque: VxOpaque }
/// the suffix list (Vec<Cow<'static, str>> in the source; the elements are used through `as_ref()` only)
pub type VxSuffixes = Vec<String>;
/// some suffix of the list ends the name
pub open spec fn has_suffix_seq(s: Seq<String>, name: Name) -> bool { exists|i: int| 0 <= i < s.len() && (#[trigger] s[i])@.is_suffix_of(name) }
pub open spec fn has_suffix(s: VxSuffixes, name: Name) -> bool { has_suffix_seq(s@, name) }
pub assume_specification[ <String as AsRef<str>>::as_ref ](s: &String) -> (r: &str) ensures r@ == s@;
#[verifier::external_body]
pub fn vx_ends_with(s: &String, p: &str) -> (r: bool) ensures r == p@.is_suffix_of(s@) { unimplemented!() }
pub uninterp spec fn ascii_lower(s: Seq<char>) -> Seq<char>;
#[verifier::external_body]
pub fn vx_ascii_lower(s: &String) -> (r: String) ensures r@ == ascii_lower(s@) { unimplemented!() }
#[verifier::external_body]
#[verifier::reject_recursive_types(K)]
#[verifier::reject_recursive_types(V)]
pub struct HashMap<K, V> { _p: core::marker::PhantomData<(K, V)> }
impl HashMap<String, Template> {
    pub uninterp spec fn view_spec(&self) -> Map<Name, Template>;
}
pub open spec fn keys_ok(m: Map<Name, Template>, ks: Seq<String>) -> bool {
    &&& forall|i: int| 0 <= i < ks.len() ==> #[trigger] m.dom().contains(ks[i]@)
    &&& forall|k: Name| #[trigger] m.dom().contains(k) ==> exists|i: int| 0 <= i < ks.len() && #[trigger] ks[i]@ == k
    &&& forall|i: int, j: int| 0 <= i < j < ks.len() ==> #[trigger] ks[i]@ != #[trigger] ks[j]@
}
/// the keys `iter_mut()` visits (each entry exactly once), as a copy
#[verifier::external_body]
pub fn vx_map_keys_cloned(m: &HashMap<String, Template>) -> (r: Vec<String>) ensures keys_ok(m.view_spec(), r@) { unimplemented!() }
/// `tpl.autoescape_enabled = v` through the entry `iter_mut()` handed out for key k
#[verifier::external_body]
pub fn vx_set_autoescape(m: &mut HashMap<String, Template>, k: &String, v: bool)
    requires old(m).view_spec().dom().contains(k@)
    ensures final(m).view_spec() == old(m).view_spec().insert(k@, Template { autoescape_enabled: v, vx_opaque: old(m).view_spec()[k@].vx_opaque })
{ unimplemented!() }
pub struct Tera { pub templates: HashMap<String, Template>, pub autoescape_suffixes: VxSuffixes, pub vx_opaque: VxOpaque }
