#[verifier::external_body]
pub struct Value { _p: () }
pub uninterp spec fn str_value(s: Seq<char>) -> Value;
/// `Value::from(&str)`
#[verifier::external_body]
pub fn vx_value_from_str(s: &str) -> (r: Value) ensures r == str_value(s@) { unimplemented!() }
/// `s.len()` in bytes
#[verifier::external_body]
pub fn vx_blen(s: &str) -> (r: usize) ensures r == blen(s@) { unimplemented!() }
/// `&s[a..]`
#[verifier::external_body]
pub fn vx_str_slice_from<'a>(s: &'a str, r: RangeFrom<usize>) -> (o: &'a str)
    requires is_boundary(s@, r.start as int)
    ensures o@ == skip_bytes(s@, r.start as int)
{ unimplemented!() }
/// UTF-8: every character takes 1 to 4 bytes
#[verifier::external_body]
pub proof fn axiom_blen_pos(s: Seq<char>) requires s.len() == 1 ensures 1 <= blen(s) <= 4 {}
#[verifier::external_body]
pub proof fn axiom_blen_empty() ensures blen(Seq::<char>::empty()) == 0 {}
/// `s.as_bytes()`: the lead byte of the first character tells its width (UTF-8)
pub uninterp spec fn bytes_of(s: Seq<char>) -> Seq<u8>;
#[verifier::external_body]
pub fn vx_as_bytes(s: &str) -> (r: &[u8])
    ensures r@ == bytes_of(s@), r@.len() == blen(s@),
        s@.len() > 0 ==> ({
            let b = r@[0]; let w = blen(s@.take(1));
            (b < 0x80 <==> w == 1) && (0xC0 <= b < 0xE0 <==> w == 2) && (0xE0 <= b < 0xF0 <==> w == 3) && (0xF0 <= b <==> w == 4)
        })
{ unimplemented!() }
/// UTF-8: a character takes at least one byte
#[verifier::external_body]
pub proof fn axiom_blen_ge_len(s: Seq<char>) ensures blen(s) >= s.len() {}
// `Value: Clone` (derived in the real source): the clone is an equal value
impl Clone for Value {
    #[verifier::external_body]
    fn clone(&self) -> (r: Self) ensures r == *self { unimplemented!() }
}
