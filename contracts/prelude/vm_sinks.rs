// Collaborators of the two sink arms (WriteTop, WritePath) — C01 item 4, C18.
#[verifier::external_body]
pub struct VxOpaque { _p: () }
// Error: only the shape the Include arm looks at (`e.kind` is a RenderingError or something else)
#[verifier::external_body]
pub struct ReportError { _p: () }
/// a note of a report: its label, the template it names, the span it points at (by instruction index, see span_tag)
pub struct NoteV { pub label: Seq<char>, pub name: Seq<char>, pub at: (u32, usize) }
impl ReportError {
    /// the notes of the report, in the order they were added
    pub uninterp spec fn notes(&self) -> Seq<NoteV>;
    /// everything of the report but its notes
    pub uninterp spec fn core(&self) -> VxOpaque;
    #[verifier::external_body]
    pub fn add_note(&mut self, label: &str, name: &str, source: &str, span: &Span)
        ensures final(self).notes() == old(self).notes().push(NoteV { label: label@, name: name@, at: span_tag(span) }), final(self).core() == old(self).core()
    { unimplemented!() }
}
pub enum ErrorKind { RenderingError(Box<ReportError>), InvalidArgument { vx: VxOpaque }, VxOtherKinds(VxOpaque) }
pub struct Error { pub kind: ErrorKind, pub vx_opaque: VxOpaque }
pub type TeraResult<T> = Result<T, Error>;
impl Error {
    /// `From<io::Error> for Error` (what `?` applies at the sink sites)
    #[verifier::external_body]
    pub fn from(e: VxIoError) -> Error { unimplemented!() }
    #[verifier::external_body]
    pub fn message<T>(m: T) -> Error { unimplemented!() }
}
#[verifier::external_body]
pub fn vx_rendering_error() -> Error { unimplemented!() }
#[verifier::external_body]
pub fn vx_fmt() -> String { unimplemented!() }
#[verifier::external_body]
pub struct Span { _p: () }
#[verifier::external_body]
pub struct Chunk { _p: () }
/// which span of which instruction a `&Span` obtained from the chunk is
pub uninterp spec fn span_tag(s: &Span) -> (u32, usize);
impl Chunk {
    /// the instruction has a span of its own (unit spans: get_span is the FIRST recorded span)
    pub uninterp spec fn has_span(&self, idx: u32) -> bool;
    #[verifier::external_body]
    pub fn get_span(&self, idx: u32) -> (r: Option<&Span>)
        ensures r is Some == self.has_span(idx), r is Some ==> span_tag(r->Some_0) == (idx, 0usize)
    { unimplemented!() }
    #[verifier::external_body]
    pub fn get_span_at(&self, idx: u32, span_idx: usize) -> (r: Option<&Span>)
        ensures r is Some ==> span_tag(r->Some_0) == (idx, span_idx)
    { unimplemented!() }
}

pub uninterp spec fn is_utf8(s: Seq<u8>) -> bool;
pub axiom fn axiom_empty_is_utf8() ensures is_utf8(Seq::<u8>::empty());

// R7: ghost-modelled writer (contract of io::Write::write_all); Vec<u8> buffers of State are
// modelled by the same type (a Vec never fails: the model over-approximates, which is sound)
pub struct VxWriter { pub bytes: Vec<u8> }
#[verifier::external_body]
pub struct VxIoError { _p: () }
pub type VxIoResult<T> = Result<T, VxIoError>;
impl VxWriter {
    #[verifier::external_body]
    pub fn write_all(&mut self, data: &[u8]) -> (r: VxIoResult<()>)
        ensures
            r.is_ok() ==> final(self).bytes@ == old(self).bytes@ + data@,
            r.is_err() ==> old(self).bytes@.is_prefix_of(final(self).bytes@) && final(self).bytes@.is_prefix_of(old(self).bytes@ + data@),
    { unimplemented!() }
    #[verifier::external_body]
    pub fn clear(&mut self) ensures final(self).bytes@ == Seq::<u8>::empty() { unimplemented!() }
}

#[verifier::external_body]
pub struct Value { _p: () }
impl Value {
    pub uninterp spec fn undefined_spec(&self) -> bool;
    pub uninterp spec fn safe_spec(&self) -> bool;
    /// the bytes `Value::format` writes
    pub uninterp spec fn fmt_spec(&self) -> Seq<u8>;
    pub uninterp spec fn attr_spec(&self, attr: Seq<char>) -> Option<Value>;
    #[verifier::external_body]
    pub fn is_undefined(&self) -> (r: bool) ensures r == self.undefined_spec() { unimplemented!() }
    #[verifier::external_body]
    pub fn is_safe(&self) -> (r: bool) ensures r == self.safe_spec() { unimplemented!() }
    /// assumed here: writes exactly fmt_spec (valid UTF-8) or fails leaving a prefix.
    /// (scalar kinds: engine K obligations value_format/*; bytes go through from_utf8_lossy)
    #[verifier::external_body]
    pub fn format(&self, f: &mut VxWriter) -> (r: VxIoResult<()>)
        ensures r.is_ok() ==> final(f).bytes@ == old(f).bytes@ + self.fmt_spec(),
                r.is_err() ==> old(f).bytes@.is_prefix_of(final(f).bytes@) && final(f).bytes@.is_prefix_of(old(f).bytes@ + self.fmt_spec()),
                is_utf8(self.fmt_spec()),
    { unimplemented!() }
    #[verifier::external_body]
    pub fn get_attr<'a>(&'a self, attr: &'a str) -> (r: Option<&'a Value>)
        ensures r.is_some() == self.attr_spec(attr@).is_some(), r.is_some() ==> *r.unwrap() == self.attr_spec(attr@)->Some_0
    { unimplemented!() }
    /// the text of a string value: exactly what `format` writes for it (ValueInner::String arm of Value::format)
    #[verifier::external_body]
    pub fn as_str(&self) -> (r: Option<&str>)
        ensures r is Some ==> r->Some_0.spec_bytes() == self.fmt_spec()
    { unimplemented!() }
}

#[verifier::external_body]
pub struct Tera { _p: () }
/// what the configured escape function appends for an input (escape_html by default: unit `escape`)
pub uninterp spec fn escape_spec(t: &Tera, s: Seq<u8>) -> Seq<u8>;
/// R17: `(self.tera.escape_fn)(s, w)` — appends escape_spec(s) to w, or fails leaving a prefix
#[verifier::external_body]
pub fn vx_call_escape_fn(t: &Tera, input: &str, out: &mut VxWriter) -> (r: VxIoResult<()>)
    ensures r.is_ok() ==> final(out).bytes@ == old(out).bytes@ + escape_spec(t, input.spec_bytes()),
            r.is_err() ==> old(out).bytes@.is_prefix_of(final(out).bytes@) && final(out).bytes@.is_prefix_of(old(out).bytes@ + escape_spec(t, input.spec_bytes())),
{ unimplemented!() }
/// R17: `unsafe { std::str::from_utf8_unchecked(&buf) }` — the unsafe precondition is an obligation
#[verifier::external_body]
pub fn vx_utf8_view(w: &VxWriter) -> (r: &str)
    requires is_utf8(w.bytes@)
    ensures r.spec_bytes() == w.bytes@
{ unimplemented!() }
// `Option::expect(msg)`: panics on None
#[verifier::external_body]
pub fn vx_expect<T>(o: Option<T>) -> (r: T)
    requires o is Some
    ensures r == o->Some_0
{ unimplemented!() }

// ---- captures (C03 / C01): `String::from_utf8(buf)?` then `Value::safe_string(&s)`
#[verifier::external_body]
pub fn vx_string_from_utf8(w: VxWriter) -> (r: TeraResult<String>)
    ensures r is Ok == is_utf8(w.bytes@), r is Ok ==> r->Ok_0@.len() >= 0 && str_bytes(r->Ok_0) == w.bytes@
{ unimplemented!() }
pub uninterp spec fn str_bytes(s: String) -> Seq<u8>;
impl Value {
    /// minted safe: prints exactly the string, is not undefined, is marked safe
    #[verifier::external_body]
    pub fn safe_string(val: &String) -> (r: Value)
        ensures r.safe_spec(), !r.undefined_spec(), r.fmt_spec() == str_bytes(*val)
    { unimplemented!() }
}
#[verifier::external_body]
pub fn vx_new_writer(cap: usize) -> (r: VxWriter) ensures r.bytes@ == Seq::<u8>::empty() { unimplemented!() }
#[verifier::external_body]
pub fn vx_str_as_bytes(s: &String) -> (r: &[u8]) ensures r@ == str_bytes(*s) { unimplemented!() }

/// R6 sibling: `std::mem::take(&mut v[i])` on a vector of writers: returns v[i], leaves an empty one
#[verifier::external_body]
pub fn vx_take_writer(v: &mut Vec<VxWriter>, i: usize) -> (r: VxWriter)
    requires i < old(v).len()
    ensures r == old(v)[i as int], final(v).len() == old(v).len(),
            forall|j: int| 0 <= j < old(v).len() && j != i ==> final(v)[j] == old(v)[j],
            final(v)[i as int].bytes@ == Seq::<u8>::empty()
{ unimplemented!() }

// ---- filters / tests (C01: a filter result is marked safe iff the filter opted in via is_safe())
#[verifier::external_body]
pub struct Kwargs { _p: () }
#[verifier::external_body]
pub struct ArcMap { _p: () }
impl Kwargs {
    #[verifier::external_body]
    pub fn new(m: ArcMap) -> Kwargs { unimplemented!() }
}
impl Value {
    pub uninterp spec fn mark_safe_spec(self) -> Value;
    pub uninterp spec fn of_bool(b: bool) -> Value;
    #[verifier::external_body]
    pub fn mark_safe(self) -> (r: Value) ensures r == self.mark_safe_spec() { unimplemented!() }
    #[verifier::external_body]
    pub fn into_map_arc(self) -> Option<ArcMap> { unimplemented!() }
}
impl vstd::std_specs::convert::FromSpecImpl<bool> for Value {
    open spec fn obeys_from_spec() -> bool { true }
    open spec fn from_spec(v: bool) -> Value { Value::of_bool(v) }
}
impl From<bool> for Value {
    #[verifier::external_body]
    fn from(v: bool) -> Value { unimplemented!() }
}
#[verifier::external_body]
pub struct StoredFilter { _p: () }
#[verifier::external_body]
pub struct StoredTest { _p: () }
#[verifier::external_body]
pub struct VxCallToken { _p: () }
impl StoredFilter {
    pub uninterp spec fn safe_spec(&self) -> bool;
    #[verifier::external_body]
    pub fn is_safe(&self) -> (r: bool) ensures r == self.safe_spec() { unimplemented!() }
}
// ---- the ordinary string constructors (engine K group safemark proves the kind on the real impls): NOT safe
impl Value {
    pub uninterp spec fn of_string(s: String) -> Value;
}
pub broadcast proof fn axiom_of_string_is_normal(s: String)
    ensures !(#[trigger] Value::of_string(s)).safe_spec(), !Value::of_string(s).undefined_spec(), Value::of_string(s).fmt_spec() == str_bytes(s)
{ admit(); }
impl vstd::std_specs::convert::FromSpecImpl<String> for Value {
    open spec fn obeys_from_spec() -> bool { true }
    open spec fn from_spec(v: String) -> Value { Value::of_string(v) }
}
impl From<String> for Value {
    #[verifier::external_body]
    fn from(v: String) -> Value { unimplemented!() }
}
/// `Vec::first_mut` / `Vec::last_mut` (std) on the capture stack: a mutable reference to that element; what is
/// written through it is what the vector holds afterwards
#[verifier::external_body]
pub fn vx_writers_first_mut(v: &mut Vec<VxWriter>) -> (r: Option<&mut VxWriter>)
    ensures
        old(v)@.len() > 0 ==> r is Some && *r->Some_0 == old(v)@[0] && final(v)@ == old(v)@.update(0, *final(r->Some_0)),
        old(v)@.len() == 0 ==> r is None && final(v)@ == old(v)@,
{ unimplemented!() }
#[verifier::external_body]
pub fn vx_writers_last_mut(v: &mut Vec<VxWriter>) -> (r: Option<&mut VxWriter>)
    ensures
        old(v)@.len() > 0 ==> r is Some && *r->Some_0 == old(v)@.last() && final(v)@ == old(v)@.update(old(v)@.len() - 1, *final(r->Some_0)),
        old(v)@.len() == 0 ==> r is None && final(v)@ == old(v)@,
{ unimplemented!() }
/// `std::mem::take(w)` through a mutable reference to a writer: returns it, leaves an empty one
#[verifier::external_body]
pub fn vx_take_writer_ref(w: &mut VxWriter) -> (r: VxWriter)
    ensures r == *old(w), final(w).bytes@ == Seq::<u8>::empty()
{ unimplemented!() }
