#[verifier::external_body]
pub struct Error { _p: () }
pub uninterp spec fn sub_bytes(s: Seq<char>, a: int, b: int) -> Seq<char>;
/// `&s[a..b]`
#[verifier::external_body]
pub fn vx_str_slice_range<'a>(s: &'a str, r: Range<usize>) -> (o: &'a str)
    requires is_boundary(s@, r.start as int), is_boundary(s@, r.end as int), r.start <= r.end
    ensures o@ == sub_bytes(s@, r.start as int, r.end as int)
{ unimplemented!() }
/// `c.len_utf8()`
#[verifier::external_body]
pub fn vx_len_utf8(c: char) -> (r: usize) ensures r == blen(seq![c]), 1 <= r <= 4 { unimplemented!() }
#[verifier::external_body]
pub proof fn axiom_blen_empty() ensures blen(Seq::<char>::empty()) == 0 {}
/// splitting at a boundary: the two parts make up the text, the first has exactly that many bytes
#[verifier::external_body]
pub proof fn axiom_split(s: Seq<char>, i: int)
    requires is_boundary(s, i)
    ensures take_bytes(s, i) + skip_bytes(s, i) == s, blen(take_bytes(s, i)) == i
{}
/// the byte at offset i of the text's UTF-8 encoding
pub uninterp spec fn byte_at(s: Seq<char>, i: int) -> Option<u8>;
/// `s.as_bytes().get(i)`
#[verifier::external_body]
pub fn vx_byte_at(s: &str, i: usize) -> (r: Option<u8>) ensures r == byte_at(s@, i as int) { unimplemented!() }
/// `o == Some(&b'-')`
#[verifier::external_body]
pub fn vx_is_dash(o: Option<u8>) -> (r: bool) ensures r == (o == Some(0x2du8)) { unimplemented!() }
#[verifier::external_body]
pub struct Delimiters { _p: () }
/// the least offset at which one of the three start markers stands (engine K group lexer_bytes: least offset, on character boundaries)
pub uninterp spec fn marker_at(s: Seq<char>, d: Delimiters) -> Option<usize>;
#[verifier::external_body]
pub fn vx_find_start_marker(s: &str, d: &Delimiters) -> (r: Option<usize>)
    ensures r == marker_at(s@, *d), r is Some ==> is_boundary(s@, r->Some_0 as int) && r->Some_0 <= blen(s@)
{ unimplemented!() }
#[verifier::external_body]
pub fn vx_blen(s: &str) -> (r: usize) ensures r == blen(s@) { unimplemented!() }
/// the end of the text is a boundary
#[verifier::external_body]
pub proof fn axiom_whole(s: Seq<char>) ensures is_boundary(s, blen(s) as int), take_bytes(s, blen(s) as int) == s {}
#[verifier::external_body]
pub proof fn axiom_marker(s: Seq<char>, d: Delimiters)
    ensures marker_at(s, d) is Some ==> is_boundary(s, marker_at(s, d)->Some_0 as int) && marker_at(s, d)->Some_0 <= blen(s)
{}
