pub assume_specification[ i128::checked_neg ](a: i128) -> (r: Option<i128>)
    ensures
        a == i128::MIN ==> r.is_none(),
        a != i128::MIN ==> r == Some((0 - a) as i128);
