// Kwargs::must_get at one instance of its type parameter (C17: "missing or mistyped arguments are reported as such")
pub enum Error { MissingArg(Seq<char>), Other(VxOpaque) }
#[verifier::external_body]
pub struct VxOpaque { _p: () }
pub type TeraResult<T> = Result<T, Error>;
impl Error {
    #[verifier::external_body]
    pub fn missing_arg(key: &str) -> (r: Error) ensures r == Error::MissingArg(key@) { unimplemented!() }
}
#[verifier::external_body]
pub struct Kwargs { _p: () }
/// the typed extraction at the instance `i64` (engine K group builtins_args decides it for every argument type)
pub uninterp spec fn get_spec(k: &Kwargs, key: Seq<char>) -> TeraResult<Option<i64>>;
impl Kwargs {
    #[verifier::external_body]
    pub fn get(&self, key: &str) -> (r: TeraResult<Option<i64>>) ensures r == get_spec(self, key@) { unimplemented!() }
}
/// the instance at which must_get is verified
pub type T = i64;
