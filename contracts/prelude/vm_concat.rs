// The StrConcat arm looks inside Value (`&a.inner`): real ValueInner/Value, opaque payloads.
#[verifier::external_body]
pub struct VxOpaque { _p: () }
#[verifier::external_body]
pub struct Error { _p: () }
pub type TeraResult<T> = Result<T, Error>;
#[verifier::external_body]
pub fn vx_fmt() -> String { unimplemented!() }
#[verifier::external_body]
pub struct Map { _p: () }
#[verifier::external_body]
pub struct SmartString { _p: () }
impl SmartString {
    pub uninterp spec fn text(&self) -> Seq<char>;
    #[verifier::external_body]
    pub fn len(&self) -> (r: usize) ensures r <= isize::MAX as usize { unimplemented!() }
    #[verifier::external_body]
    pub fn as_str(&self) -> (r: &str) ensures r@ == self.text() { unimplemented!() }
}
pub uninterp spec fn combine_spec(a: SpanRange, b: SpanRange) -> SpanRange;
#[verifier::external_body]
pub fn combine_spans(first: &SpanRange, second: &SpanRange) -> (r: SpanRange) ensures r == combine_spec(*first, *second) { unimplemented!() }
/// `String::with_capacity` / `push_str` (std contracts)
#[verifier::external_body]
pub fn vx_string_with_capacity(n: usize) -> (r: String) ensures r@ == Seq::<char>::empty() { unimplemented!() }
#[verifier::external_body]
pub fn vx_push_str(s: &mut String, t: &str) ensures final(s)@ == old(s)@ + t@ { unimplemented!() }
// `Option::expect(msg)`
#[verifier::external_body]
pub fn vx_expect<T>(o: Option<T>) -> (r: T)
    requires o is Some
    ensures r == o->Some_0
{ unimplemented!() }
// #[derive(Clone)] on Value (checked to exist in the real source): the derived clone returns an equal value
impl Clone for Value {
    #[verifier::external_body]
    fn clone(&self) -> (r: Self) ensures r == *self { unimplemented!() }
}
