// R7: the ghost-modelled writer.  `write_all(d)` either appends all of `d` and returns Ok, or
// appends some prefix of `d` and returns Err — the contract of io::Write::write_all.
pub struct VxWriter { pub bytes: Vec<u8> }
#[verifier::external_body]
pub struct VxIoError { _p: () }
pub type VxIoResult<T> = Result<T, VxIoError>;

impl VxWriter {
    #[verifier::external_body]
    pub fn write_all(&mut self, data: &[u8]) -> (r: VxIoResult<()>)
        ensures
            r.is_ok() ==> final(self).bytes@ == old(self).bytes@ + data@,
            r.is_err() ==> old(self).bytes@.is_prefix_of(final(self).bytes@) && final(self).bytes@.is_prefix_of(old(self).bytes@ + data@),
    { unimplemented!() }
}
