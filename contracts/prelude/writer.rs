// R7: the ghost-modelled writer.  `write_all(d)` either appends all of `d` and returns Ok, or
// appends some prefix of `d` and returns Err — the contract of io::Write::write_all.
/// `infallible`: the concrete writer is a `Vec<u8>`, whose `io::Write` impl never returns an error (std)
pub struct VxWriter { pub bytes: Vec<u8>, pub infallible: Ghost<bool> }
#[verifier::external_body]
pub struct VxIoError { _p: () }
pub type VxIoResult<T> = Result<T, VxIoError>;

impl VxWriter {
    #[verifier::external_body]
    pub fn write_all(&mut self, data: &[u8]) -> (r: VxIoResult<()>)
        ensures
            r.is_ok() ==> final(self).bytes@ == old(self).bytes@ + data@,
            r.is_err() ==> old(self).bytes@.is_prefix_of(final(self).bytes@) && final(self).bytes@.is_prefix_of(old(self).bytes@ + data@),
            final(self).infallible@ == old(self).infallible@, old(self).infallible@ ==> r.is_ok(),
    { unimplemented!() }
}
/// `Vec::with_capacity(n)` used as a writer
#[verifier::external_body]
pub fn vx_vec_writer() -> (r: VxWriter) ensures r.bytes@.len() == 0, r.infallible@ { unimplemented!() }
/// bytes that are the UTF-8 encoding of a text (the precondition of String::from_utf8_unchecked)
pub uninterp spec fn is_utf8(b: Seq<u8>) -> bool;
/// the text a valid UTF-8 byte sequence encodes
pub uninterp spec fn utf8_text(b: Seq<u8>) -> Seq<char>;
/// escaping valid UTF-8 byte-wise (only ASCII bytes are replaced, by ASCII) gives valid UTF-8
#[verifier::external_body]
pub proof fn axiom_esc_keeps_utf8(s: &str) ensures is_utf8(esc(s.spec_bytes())) {}
#[verifier::external_body]
pub fn vx_string_from_utf8_unchecked(w: VxWriter) -> (r: String)
    requires is_utf8(w.bytes@)
    ensures r@ == utf8_text(w.bytes@)
{ unimplemented!() }
/// `r.unwrap()` on an io::Result: a panic unless Ok
#[verifier::external_body]
pub fn vx_unwrap_io(r: VxIoResult<()>) requires r.is_ok() { unimplemented!() }
#[verifier::external_body]
pub struct Kwargs { _p: () }
#[verifier::external_body]
pub struct State { _p: () }
