// Collaborators of the per-component closure of Template::new: the compiler as a deterministic
// function of (template name, nodes) with five call tables; call tables as abstract maps.
#[verifier::external_body]
pub struct VxOpaque { _p: () }
#[verifier::external_body]
pub struct Span { _p: () }
#[verifier::external_body]
pub struct Node { _p: () }
#[verifier::external_body]
pub struct Chunk { _p: () }
/// the chunk has been through Chunk::optimize (unit optimize proves what that pass does)
pub uninterp spec fn is_optimized(c: Chunk) -> bool;
/// the chunk it was before the pass
pub uninterp spec fn optimized_of(c: Chunk) -> Chunk;
pub uninterp spec fn compiled_chunk(name: Name, nodes: Seq<Node>) -> Chunk;
impl Chunk {
    #[verifier::external_body]
    pub fn optimize(&mut self) ensures is_optimized(*final(self)), optimized_of(*final(self)) == *old(self) { unimplemented!() }
}
pub type Name = Seq<char>;
pub type Calls = Map<Name, Seq<Span>>;
#[verifier::external_body]
#[verifier::reject_recursive_types(K)]
#[verifier::reject_recursive_types(V)]
pub struct HashMap<K, V> { _p: core::marker::PhantomData<(K, V)> }
pub type CallMap = HashMap<String, Vec<Span>>;
pub uninterp spec fn calls(m: CallMap) -> Calls;
pub struct ComponentDefinition { pub name: String, pub body: Vec<Node>, pub vx_opaque: VxOpaque }
pub struct CompilerOut { pub filter_calls: Calls, pub test_calls: Calls, pub function_calls: Calls, pub include_calls: Calls, pub component_calls: Calls }
/// what compiling `nodes` for template `name` records (the compiler is a function of its input)
pub uninterp spec fn compiled(name: Name, nodes: Seq<Node>) -> CompilerOut;
pub struct Compiler {
    pub chunk: Chunk,
    pub filter_calls: CallMap, pub test_calls: CallMap, pub function_calls: CallMap, pub include_calls: CallMap, pub component_calls: CallMap,
    pub name: Ghost<Name>, pub vx_opaque: VxOpaque,
}
impl Compiler {
    #[verifier::external_body]
    pub fn new(tpl_name: &str) -> (r: Compiler) ensures r.name@ == tpl_name@ { unimplemented!() }
    #[verifier::external_body]
    pub fn compile(&mut self, nodes: Vec<Node>)
        ensures
            final(self).chunk == compiled_chunk(old(self).name@, nodes@),
            calls(final(self).filter_calls) == compiled(old(self).name@, nodes@).filter_calls,
            calls(final(self).test_calls) == compiled(old(self).name@, nodes@).test_calls,
            calls(final(self).function_calls) == compiled(old(self).name@, nodes@).function_calls,
            calls(final(self).include_calls) == compiled(old(self).name@, nodes@).include_calls,
            calls(final(self).component_calls) == compiled(old(self).name@, nodes@).component_calls,
    { unimplemented!() }
}
/// the entries of a consumed call table: every key exactly once, unspecified order
pub open spec fn entries_ok(m: Calls, es: Seq<(String, Vec<Span>)>) -> bool {
    &&& forall|i: int| 0 <= i < es.len() ==> #[trigger] m.dom().contains(es[i].0@) && m[es[i].0@] == es[i].1@
    &&& forall|k: Name| #[trigger] m.dom().contains(k) ==> exists|i: int| 0 <= i < es.len() && #[trigger] es[i].0@ == k
    &&& forall|i: int, j: int| 0 <= i < j < es.len() ==> #[trigger] es[i].0@ != #[trigger] es[j].0@
}
#[verifier::external_body]
pub fn vx_calls_into_entries(m: CallMap) -> (r: Vec<(String, Vec<Span>)>) ensures entries_ok(calls(m), r@) { unimplemented!() }
pub open spec fn get_or_empty(m: Calls, k: Name) -> Seq<Span> { if m.dom().contains(k) { m[k] } else { Seq::<Span>::empty() } }
/// `m.entry(k).or_default().extend(v)`
#[verifier::external_body]
pub fn vx_merge_spans(m: &mut CallMap, k: String, v: Vec<Span>)
    ensures calls(*final(m)) == calls(*old(m)).insert(k@, get_or_empty(calls(*old(m)), k@) + v@)
{ unimplemented!() }
#[verifier::external_body]
pub fn vx_clone_nodes(v: &Vec<Node>) -> (r: Vec<Node>) ensures r@ == v@ { unimplemented!() }
#[verifier::external_body]
pub fn vx_clone_string(s: &String) -> (r: String) ensures r@ == s@ { unimplemented!() }
impl HashMap<String, Vec<Span>> {
    #[verifier::external_body]
    pub fn insert(&mut self, k: String, v: Vec<Span>) -> (r: Option<Vec<Span>>)
        ensures calls(*final(self)) == calls(*old(self)).insert(k@, v@)
    { unimplemented!() }
}
