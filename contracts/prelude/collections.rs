// Collaborators of the collection filters (C16).  Value is opaque; the order `Ord for Value`
// appears as the uninterpreted relation `vle` (a <= b) / `veq` (cmp == Equal), whose laws —
// total, transitive, Equal only for == — are C15's obligations (engine K on scalars, the fixed
// structural fallback on arrays/maps) and are ASSUMED here as `order_laws()`.
#[verifier::external_body]
pub struct Error { _p: () }
pub type TeraResult<T> = Result<T, Error>;
impl Error {
    #[verifier::external_body]
    pub fn message<T>(m: T) -> Error { unimplemented!() }
}
#[verifier::external_body]
pub fn vx_fmt() -> String { unimplemented!() }
#[verifier::external_body]
pub struct State { _p: () }
#[verifier::external_body]
pub struct Kwargs { _p: () }
pub uninterp spec fn kw_get<T>(k: &Kwargs, key: &str) -> TeraResult<Option<T>>;
impl Kwargs {
    #[verifier::external_body]
    pub fn get<T>(&self, key: &str) -> (r: TeraResult<Option<T>>) ensures r == kw_get::<T>(self, key) { unimplemented!() }
    #[verifier::external_body]
    pub fn must_get<T>(&self, key: &str) -> (r: TeraResult<T>)
        ensures
            kw_get::<T>(self, key) is Err ==> r is Err,
            kw_get::<T>(self, key) is Ok && kw_get::<T>(self, key)->Ok_0 is None ==> r is Err,
            kw_get::<T>(self, key) is Ok && kw_get::<T>(self, key)->Ok_0 is Some ==> r == Ok::<T, Error>(kw_get::<T>(self, key)->Ok_0->Some_0),
    { unimplemented!() }
}
#[verifier::external_body]
pub struct Value { _p: () }
impl Clone for Value { #[verifier::external_body] fn clone(&self) -> (r: Value) ensures r == *self { unimplemented!() } }
impl Value {
    #[verifier::external_body]
    pub fn is_none(&self) -> (r: bool) ensures r == self.none_spec() { unimplemented!() }
    #[verifier::external_body]
    pub fn name(&self) -> &'static str { unimplemented!() }
    pub uninterp spec fn the_none() -> Value;
    pub uninterp spec fn none_spec(&self) -> bool;
    #[verifier::external_body]
    pub fn none() -> (r: Value) ensures r == Self::the_none() { unimplemented!() }
    #[verifier::external_body]
    pub fn get_from_path<'s>(&'s self, path: &'s str) -> (r: Option<&'s Value>)
        ensures r is Some == path_spec(*self, path@) is Some, r is Some ==> *r->Some_0 == path_spec(*self, path@)->Some_0
    { unimplemented!() }
}
/// cmp(a, b) != Greater   and   cmp(a, b) == Equal
pub uninterp spec fn vle(a: Value, b: Value) -> bool;
pub open spec fn veq(a: Value, b: Value) -> bool { vle(a, b) && vle(b, a) }
pub uninterp spec fn comparable(a: Value, b: Value) -> bool;

/// BTreeSet<Value>: membership is "some inserted element compares Equal" (std contract given a lawful Ord)
#[verifier::external_body]
#[verifier::reject_recursive_types(T)]
pub struct BTreeSet<T> { _p: core::marker::PhantomData<T> }
impl BTreeSet<Value> {
    pub uninterp spec fn elems(&self) -> Seq<Value>;
    #[verifier::external_body]
    pub fn new() -> (r: Self) ensures r.elems() == Seq::<Value>::empty() { unimplemented!() }
    #[verifier::external_body]
    pub fn contains(&self, v: &Value) -> (r: bool)
        ensures r == exists|i: int| 0 <= i < self.elems().len() && veq(#[trigger] self.elems()[i], *v)
    { unimplemented!() }
    #[verifier::external_body]
    /// BTreeSet::insert (std): true and inserted iff no element compares equal; otherwise false and the set is unchanged
    pub fn insert(&mut self, v: Value) -> (r: bool)
        ensures r == !(exists|i: int| 0 <= i < old(self).elems().len() && veq(#[trigger] old(self).elems()[i], v)),
            r ==> final(self).elems() == old(self).elems().push(v), !r ==> final(self).elems() == old(self).elems()
    { unimplemented!() }
}
/// `v.sort_by(|a, b| a.cmp(b))`: std's contract — a STABLE sort: a permutation (witnessed by `perm`,
/// the input position of each output element), non-decreasing, equal elements in input order
pub open spec fn is_perm(perm: Seq<int>, n: int) -> bool {
    &&& perm.len() == n
    &&& forall|i: int| 0 <= i < n ==> 0 <= #[trigger] perm[i] < n
    &&& forall|i: int, j: int| 0 <= i < j < n ==> perm[i] != perm[j]
}
pub open spec fn sorted_from(inp: Seq<Value>, out: Seq<Value>, perm: Seq<int>) -> bool {
    &&& out.len() == inp.len() && is_perm(perm, inp.len() as int)
    &&& forall|i: int| 0 <= i < out.len() ==> out[i] == inp[#[trigger] perm[i]]
    &&& forall|i: int, j: int| 0 <= i < j < out.len() ==> vle(#[trigger] out[i], #[trigger] out[j])
}
pub open spec fn sorted_stably(inp: Seq<Value>, out: Seq<Value>) -> bool { exists|perm: Seq<int>| #[trigger] sorted_from(inp, out, perm) && stable(inp, out, perm) }
pub open spec fn stable(inp: Seq<Value>, out: Seq<Value>, perm: Seq<int>) -> bool {
    forall|i: int, j: int| 0 <= i < j < out.len() && veq(out[i], out[j]) ==> #[trigger] perm[i] < #[trigger] perm[j]
}
#[verifier::external_body]
pub fn vx_sort_by_cmp(v: &mut Vec<Value>)
    ensures exists|perm: Seq<int>| #[trigger] sorted_from(old(v)@, final(v)@, perm) && stable(old(v)@, final(v)@, perm)
{ unimplemented!() }
/// `sort_unstable_by`: a permutation, non-decreasing — nothing about equal elements
#[verifier::external_body]
pub fn vx_sort_unstable_by_cmp(v: &mut Vec<Value>)
    ensures exists|perm: Seq<int>| #[trigger] sorted_from(old(v)@, final(v)@, perm)
{ unimplemented!() }
/// `ensure_comparable(out.iter())` (its own body takes `impl Iterator`: not extractable; contract assumed:
/// Err iff some adjacent pair of non-none values is not comparable)
pub open spec fn adjacent_comparable(s: Seq<Value>) -> bool {
    forall|i: int| 0 <= i < s.len() - 1 && !s[i].none_spec() && !s[i + 1].none_spec() ==> #[trigger] comparable(s[i], s[i + 1])
}
#[verifier::external_body]
pub fn vx_ensure_comparable(v: &Vec<Value>) -> (r: TeraResult<()>) ensures r is Ok == adjacent_comparable(v@) { unimplemented!() }
#[verifier::external_body]
pub fn vx_to_vec(s: &[Value]) -> (r: Vec<Value>) ensures r@ == s@ { unimplemented!() }
// C15's laws of the order, assumed in this unit
pub broadcast proof fn axiom_vle_trans(a: Value, b: Value, c: Value)
    requires #[trigger] vle(a, b), #[trigger] vle(b, c)
    ensures vle(a, c)
{ admit(); }
pub broadcast proof fn axiom_vle_refl(a: Value) ensures #[trigger] vle(a, a) { admit(); }
pub broadcast group order_laws { axiom_vle_trans, axiom_vle_refl }
// ---- sort by attribute: the decorated vector of (key, element) pairs
pub open spec fn keys_of(d: Seq<(&Value, &Value)>) -> Seq<Value> { d.map_values(|p: (&Value, &Value)| *p.0) }
pub open spec fn elems_of(d: Seq<(&Value, &Value)>) -> Seq<Value> { d.map_values(|p: (&Value, &Value)| *p.1) }
/// `decorated.sort_by(|(a, _), (b, _)| a.cmp(b))`: stable sort by key; pairs move together
#[verifier::external_body]
pub fn vx_sort_decorated<'a>(v: &mut Vec<(&'a Value, &'a Value)>)
    ensures exists|perm: Seq<int>| #[trigger] sorted_from(keys_of(old(v)@), keys_of(final(v)@), perm) && stable(keys_of(old(v)@), keys_of(final(v)@), perm)
        && (forall|i: int| 0 <= i < final(v).len() ==> final(v)[i] == old(v)[#[trigger] perm[i]])
{ unimplemented!() }
#[verifier::external_body]
pub fn vx_sort_unstable_decorated<'a>(v: &mut Vec<(&'a Value, &'a Value)>)
    ensures exists|perm: Seq<int>| #[trigger] sorted_from(keys_of(old(v)@), keys_of(final(v)@), perm)
        && (forall|i: int| 0 <= i < final(v).len() ==> final(v)[i] == old(v)[#[trigger] perm[i]])
{ unimplemented!() }
#[verifier::external_body]
pub fn vx_ensure_comparable_keys<'a>(v: &Vec<(&'a Value, &'a Value)>) -> (r: TeraResult<()>) ensures r is Ok == adjacent_comparable(keys_of(v@)) { unimplemented!() }
/// `decorated.into_iter().map(|(_, v)| v.clone()).collect()`
#[verifier::external_body]
pub fn vx_collect_elems<'a>(v: Vec<(&'a Value, &'a Value)>) -> (r: Vec<Value>) ensures r@ == elems_of(v@) { unimplemented!() }
/// the value reached by an attribute path (its own walk: not decided here)
pub uninterp spec fn path_spec(v: Value, path: Seq<char>) -> Option<Value>;

pub open spec fn key_of(v: Value, a: Seq<char>) -> Value { path_spec(v, a)->Some_0 }
pub open spec fn keyed_sorted(val: Seq<Value>, a: Seq<char>, out: Seq<Value>, perm: Seq<int>) -> bool {
    &&& is_perm(perm, val.len() as int) && out.len() == val.len()
    &&& forall|i: int| 0 <= i < val.len() ==> out[i] == val[#[trigger] perm[i]]
    &&& forall|i: int, j: int| 0 <= i < j < val.len() ==> vle(key_of(val[#[trigger] perm[i]], a), key_of(val[#[trigger] perm[j]], a))
    &&& forall|i: int, j: int| 0 <= i < j < val.len() && veq(key_of(val[perm[i]], a), key_of(val[perm[j]], a)) ==> #[trigger] perm[i] < #[trigger] perm[j]
}
pub open spec fn sorted_by_key_stably(val: Seq<Value>, a: Seq<char>, out: Seq<Value>) -> bool { exists|perm: Seq<int>| #[trigger] keyed_sorted(val, a, out, perm) }
pub open spec fn all_have_key(val: Seq<Value>, a: Seq<char>) -> bool { forall|i: int| 0 <= i < val.len() ==> path_spec(#[trigger] val[i], a) is Some }

/// R19 at the call site: `a.partial_cmp(b)` on Values (Some iff comparable)
#[verifier::external_body]
pub fn vx_value_partial_cmp(a: &Value, b: &Value) -> (r: Option<core::cmp::Ordering>) ensures r is Some == comparable(*a, *b) { unimplemented!() }
/// `ensure_comparable(x.iter())` over a vector or a slice of values (contract: unit obligation collections/ensure_comparable)
#[verifier::external_body]
pub fn vx_ensure_comparable_seq(v: &[Value]) -> (r: TeraResult<()>) ensures r is Ok == adjacent_comparable(v@) { unimplemented!() }
