// Collaborators of the base64 filters (C20): the four encoding engines and two decoding engines of the
// `base64` crate as (alphabet, padding) records with uninterpreted encode/decode; their mutual
// inverse law is the crate's contract (ASSUMED, axiom_b64_roundtrip).
#[verifier::external_body]
pub struct Error { _p: () }
pub type TeraResult<T> = Result<T, Error>;
impl Error {
    #[verifier::external_body]
    pub fn message(s: String) -> Error { unimplemented!() }
}
/// the crate's own name for the engine crate (`tera::Error` in tera-contrib)
pub mod tera { pub use super::Error; }
#[verifier::external_body]
pub fn vx_fmt() -> String { unimplemented!() }
#[verifier::external_body]
pub struct Kwargs { _p: () }
#[verifier::external_body]
pub struct State { _p: () }
#[verifier::external_body]
pub struct VxDecodeError { _p: () }
/// how an engine treats `=` padding when DECODING (base64::engine::DecodePaddingMode)
pub enum VxDecPad { Indifferent, RequireCanonical, RequireNone }
pub struct VxEngine { pub url_safe: bool, pub pad: bool, pub dec: VxDecPad }
pub mod general_purpose {
    use super::VxEngine;
    pub const STANDARD: VxEngine = VxEngine { url_safe: false, pad: true, dec: super::VxDecPad::RequireCanonical };
    pub const STANDARD_NO_PAD: VxEngine = VxEngine { url_safe: false, pad: false, dec: super::VxDecPad::RequireNone };
    pub const URL_SAFE: VxEngine = VxEngine { url_safe: true, pad: true, dec: super::VxDecPad::RequireCanonical };
    pub const URL_SAFE_NO_PAD: VxEngine = VxEngine { url_safe: true, pad: false, dec: super::VxDecPad::RequireNone };
}
/// the two decode engines defined in the file (padding mode Indifferent): by alphabet
pub const STANDARD_DECODE: VxEngine = VxEngine { url_safe: false, pad: true, dec: VxDecPad::Indifferent };
pub const URL_SAFE_DECODE: VxEngine = VxEngine { url_safe: true, pad: true, dec: VxDecPad::Indifferent };
pub uninterp spec fn kw_bool(k: Kwargs, name: Seq<char>) -> Result<Option<bool>, Error>;
pub open spec fn opt_or(o: Option<bool>, d: bool) -> bool { match o { Some(b) => b, None => d } }
#[verifier::external_body]
pub fn vx_kw_bool(k: &Kwargs, name: &str) -> (r: TeraResult<Option<bool>>) ensures r == kw_bool(*k, name@) { unimplemented!() }
/// encoding: a function of alphabet and padding only
pub uninterp spec fn enc_text(url_safe: bool, pad: bool, s: Seq<char>) -> Seq<char>;
pub open spec fn enc_spec(e: VxEngine, s: Seq<char>) -> Seq<char> { enc_text(e.url_safe, e.pad, s) }
/// decoding: a function of the alphabet and of how padding is treated (only `Indifferent` accepts padded AND unpadded text)
pub uninterp spec fn dec_bytes_mode(url_safe: bool, dec: VxDecPad, s: Seq<char>) -> Option<Seq<u8>>;
/// what the filter documents: padded and unpadded input alike
pub open spec fn dec_bytes(url_safe: bool, s: Seq<char>) -> Option<Seq<u8>> { dec_bytes_mode(url_safe, VxDecPad::Indifferent, s) }
pub uninterp spec fn utf8_text(b: Seq<u8>) -> Option<Seq<char>>;
pub uninterp spec fn utf8_bytes(s: Seq<char>) -> Seq<u8>;
pub open spec fn dec_text(url_safe: bool, s: Seq<char>) -> Option<Seq<char>> {
    match dec_bytes(url_safe, s) { Some(b) => utf8_text(b), None => None }
}
#[verifier::external_body]
pub fn vx_b64_encode(e: &VxEngine, s: &str) -> (r: String) ensures r@ == enc_spec(*e, s@) { unimplemented!() }
#[verifier::external_body]
pub fn vx_b64_decode(e: &VxEngine, s: &str) -> (r: Result<Vec<u8>, VxDecodeError>)
    ensures r is Ok <==> dec_bytes_mode(e.url_safe, e.dec, s@) is Some, r is Ok ==> r->Ok_0@ == dec_bytes_mode(e.url_safe, e.dec, s@)->Some_0
{ unimplemented!() }
#[verifier::external_body]
pub fn vx_map_err_b64(r: Result<Vec<u8>, VxDecodeError>) -> (o: TeraResult<Vec<u8>>)
    ensures o is Ok <==> r is Ok, o is Ok ==> o->Ok_0 == r->Ok_0
{ unimplemented!() }
/// `String::from_utf8(bytes).map_err(..)`
#[verifier::external_body]
pub fn vx_string_from_utf8(b: Vec<u8>) -> (o: TeraResult<String>)
    ensures o is Ok <==> utf8_text(b@) is Some, o is Ok ==> o->Ok_0@ == utf8_text(b@)->Some_0
{ unimplemented!() }
/// ASSUMED contract of the base64 crate + UTF-8: decoding with the same alphabet undoes encoding whatever the padding
#[verifier::external_body]
pub proof fn axiom_b64_roundtrip(url_safe: bool, pad: bool, s: Seq<char>)
    ensures dec_bytes(url_safe, enc_text(url_safe, pad, s)) == Some(utf8_bytes(s)), utf8_text(utf8_bytes(s)) == Some(s)
{}
