// Collaborators of the component-table loop of finalize_templates (C05)
#[verifier::external_body]
pub struct VxOpaque { _p: () }
#[verifier::external_body]
pub struct Error { _p: () }
impl Error { #[verifier::external_body] pub fn message(m: String) -> Error { unimplemented!() } }
pub type TeraResult<T> = Result<T, Error>;
#[verifier::external_body]
pub fn vx_fmt() -> String { unimplemented!() }
pub type Name = Seq<char>;
#[verifier::external_body]
pub struct VxEntry { _p: () }
#[verifier::external_body]
#[verifier::reject_recursive_types(K)]
#[verifier::reject_recursive_types(V)]
pub struct HashMap<K, V> { _p: core::marker::PhantomData<(K, V)> }
impl HashMap<String, VxEntry> {
    pub uninterp spec fn view_spec(&self) -> Map<Name, VxEntry>;
}
/// the keys of a map, each exactly once (std's contract of `keys()`; the order is unspecified)
pub open spec fn keys_ok(m: Map<Name, VxEntry>, ks: Seq<&String>) -> bool {
    &&& forall|i: int| 0 <= i < ks.len() ==> #[trigger] m.dom().contains(ks[i]@)
    &&& forall|k: Name| #[trigger] m.dom().contains(k) ==> seen_key(ks, ks.len() as int, k)
    &&& forall|i: int, j: int| 0 <= i < j < ks.len() ==> #[trigger] ks[i]@ != #[trigger] ks[j]@
}
pub open spec fn seen_key(ks: Seq<&String>, n: int, k: Name) -> bool { exists|i: int| 0 <= i < n && #[trigger] ks[i]@ == k }
#[verifier::external_body]
pub fn vx_map_keys<'a>(m: &'a HashMap<String, VxEntry>) -> (r: Vec<&'a String>) ensures keys_ok(m.view_spec(), r@) { unimplemented!() }
/// component name -> (template that provides it, its priority)
impl<'t> HashMap<&'t str, (&'t str, usize)> {
    pub uninterp spec fn view_spec(&self) -> Map<Name, (Name, usize)>;
    #[verifier::external_body]
    pub fn get(&self, k: &str) -> (r: Option<&(&'t str, usize)>)
        ensures r is Some <==> self.view_spec().dom().contains(k@),
            r is Some ==> r->Some_0.0@ == self.view_spec()[k@].0 && r->Some_0.1 == self.view_spec()[k@].1
    { unimplemented!() }
    #[verifier::external_body]
    pub fn insert(&mut self, k: &'t str, v: (&'t str, usize)) -> (r: Option<(&'t str, usize)>)
        ensures final(self).view_spec() == old(self).view_spec().insert(k@, (v.0@, v.1))
    { unimplemented!() }
}
pub struct Template { pub name: String, pub components: HashMap<String, VxEntry>, pub vx_opaque: VxOpaque }
pub struct Tera { pub vx_opaque: VxOpaque }
/// 0 = no fallback prefix matches (highest priority), then the prefixes in order
pub uninterp spec fn prio_spec(t: &Tera, name: Name) -> usize;
impl Tera {
    #[verifier::external_body]
    pub fn get_template_priority(&self, name: &str) -> (r: usize) ensures r == prio_spec(self, name@) { unimplemented!() }
}
#[verifier::external_body]
pub fn vx_sort2(a: &mut [&str; 2]) { unimplemented!() }
/// `component_sources.get(k)` with the (Copy) entry by value, see R37
#[verifier::external_body]
pub fn vx_sources_get<'t>(m: &HashMap<&'t str, (&'t str, usize)>, k: &str) -> (r: Option<(&'t str, usize)>)
    ensures r is Some <==> m.view_spec().dom().contains(k@),
        r is Some ==> r->Some_0.0@ == m.view_spec()[k@].0 && r->Some_0.1 == m.view_spec()[k@].1
{ unimplemented!() }
