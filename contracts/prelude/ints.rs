// std integer contracts vstd does not ship (assumed).
pub assume_specification[ <i128 as TryFrom<u128>>::try_from ](v: u128) -> (r: Result<i128, <i128 as TryFrom<u128>>::Error>)
    ensures
        v <= i128::MAX as u128 ==> r.is_ok() && r->Ok_0 == v as i128,
        v > i128::MAX as u128 ==> r.is_err();

pub assume_specification[ i128::checked_neg ](a: i128) -> (r: Option<i128>)
    ensures
        a == i128::MIN ==> r.is_none(),
        a != i128::MIN ==> r == Some((0 - a) as i128);

pub open spec fn vx_pow(b: int, e: nat) -> int
    decreases e
{
    if e == 0 { 1 } else { b * vx_pow(b, (e - 1) as nat) }
}

pub assume_specification[ i128::checked_pow ](a: i128, e: u32) -> (r: Option<i128>)
    ensures
        (i128::MIN <= vx_pow(a as int, e as nat) <= i128::MAX) ==> r == Some(vx_pow(a as int, e as nat) as i128),
        !(i128::MIN <= vx_pow(a as int, e as nat) <= i128::MAX) ==> r.is_none();

// float operators never panic; their results stay uninterpreted in engine V (decided by engine K)
pub broadcast proof fn axiom_f64_add_req(a: f64, b: f64) ensures #[trigger] a.add_req(b) { admit(); }
pub broadcast proof fn axiom_f64_sub_req(a: f64, b: f64) ensures #[trigger] a.sub_req(b) { admit(); }
pub broadcast proof fn axiom_f64_mul_req(a: f64, b: f64) ensures #[trigger] a.mul_req(b) { admit(); }
pub broadcast proof fn axiom_f64_div_req(a: f64, b: f64) ensures #[trigger] a.div_req(b) { admit(); }
pub broadcast group vx_f64_ops { axiom_f64_add_req, axiom_f64_sub_req, axiom_f64_mul_req, axiom_f64_div_req }

// float primitives: results uninterpreted (engine K decides float facts bit-precisely)
pub uninterp spec fn f64_is_finite(f: f64) -> bool;
pub uninterp spec fn f64_is_nan(f: f64) -> bool;
pub assume_specification[ f64::is_finite ](f: f64) -> (r: bool) ensures r == f64_is_finite(f);
pub assume_specification[ f64::is_nan ](f: f64) -> (r: bool) ensures r == f64_is_nan(f);
pub assume_specification[ f64::rem_euclid ](a: f64, b: f64) -> f64;
pub assume_specification[ f64::div_euclid ](a: f64, b: f64) -> f64;
pub assume_specification[ f64::powf ](a: f64, b: f64) -> f64;
pub assume_specification[ f64::floor ](a: f64) -> f64;
pub uninterp spec fn f64_is_zero(f: f64) -> bool;
// R5 shim: unary minus on a float (Verus cannot translate it); the body is the original expression
#[verifier::external_body]
pub fn vx_f64_neg(f: f64) -> f64 { -f }
