#!/bin/sh
# Builds the framework offline from files on disk: the vx indexer, and warm dependency caches
# (macro expansion target dir, Kani target dirs) under /verif/build.  The caches hold only
# third-party dependencies; tera itself is rebuilt from /repo's working tree by every check.
set -e
cd "$(dirname "$0")"
export CARGO_NET_OFFLINE=true
(cd tools/vx && cargo build --release --offline 2>&1 | tail -2)
mkdir -p build out evidence replays
python3 lib/warm.py || true
echo "setup done"
