// Harnesses for C01 (the safe mark): which values are written without escaping, and what
// `mark_safe` / the string constructors do to the mark.  Child module of `value`.
//
// Expected behaviour (property C01 + doc comments of the public API): a string that comes from
// a context value is Normal (escaped) unless explicitly marked safe; `Value::is_safe` is true
// for safe strings and for the scalar kinds that cannot carry markup (undefined/none render as
// nothing, bools and numbers render as digits/letters only), false for normal strings, arrays,
// maps and bytes; `mark_safe` changes the mark of a string and nothing else.
use super::*;

fn fixed_state() -> std::hash::RandomState {
    unsafe { std::mem::transmute::<[u64; 2], std::hash::RandomState>([1, 2]) }
}

// killed by: is_safe `_ => false`
#[kani::proof]
#[kani::unwind(2)]
fn is_safe_scalars() {
    let v = Value::undefined();
    assert!(v.is_safe());
    let v = Value::none();
    assert!(v.is_safe());
    let v = Value::from(kani::any::<bool>());
    assert!(v.is_safe());
    let v = Value::from(kani::any::<u64>());
    assert!(v.is_safe());
    let v = Value::from(kani::any::<i64>());
    assert!(v.is_safe());
    let v = Value::from(kani::any::<f64>());
    assert!(v.is_safe());
    let v = Value::from(kani::any::<u128>());
    assert!(v.is_safe());
    std::mem::forget(v);
    let v = Value::from(kani::any::<i128>());
    assert!(v.is_safe());
    std::mem::forget(v);
}

// `mark_safe` on a non-string scalar: same kind, same payload (bit-for-bit for floats).
// killed by: mark_safe `_ => Value::none()`
#[kani::proof]
#[kani::unwind(2)]
fn mark_safe_leaves_scalars_untouched() {
    assert!(Value::undefined().mark_safe().kind() == ValueKind::Undefined);
    assert!(Value::none().mark_safe().kind() == ValueKind::None);
    let b: bool = kani::any();
    let v = Value::from(b).mark_safe();
    assert!(v.kind() == ValueKind::Bool && v.as_bool() == Some(b));
    let x: u64 = kani::any();
    let v = Value::from(x).mark_safe();
    assert!(v.kind() == ValueKind::U64 && v.as_u64() == Some(x));
    let x: i64 = kani::any();
    let v = Value::from(x).mark_safe();
    assert!(v.kind() == ValueKind::I64 && v.as_i64() == Some(x));
    let x: f64 = kani::any();
    let v = Value::from(x).mark_safe();
    assert!(v.kind() == ValueKind::F64);
    match &v.inner {
        ValueInner::F64(y) => assert!(y.to_bits() == x.to_bits()),
        _ => assert!(false),
    }
    let x: u128 = kani::any();
    let v = Value::from(x).mark_safe();
    assert!(v.kind() == ValueKind::U128 && v.as_u128() == Some(x));
    std::mem::forget(v);
    let x: i128 = kani::any();
    let v = Value::from(x).mark_safe();
    assert!(v.kind() == ValueKind::I128 && v.as_i128() == Some(x));
    std::mem::forget(v);
}

/// a valid UTF-8 string of 0..=3 bytes inside `buf`
fn any_short_str(buf: &[u8; 3]) -> &str {
    let len: usize = kani::any();
    kani::assume(len <= 3);
    let s = std::str::from_utf8(&buf[..len]);
    kani::assume(s.is_ok());
    s.unwrap()
}

fn any_kind() -> StringKind {
    if kani::any() { StringKind::Normal } else { StringKind::Safe }
}

// killed by: SmartString::mark_safe keeping the old kind; SmartString::new storing `len: 0`;
// SmartString::kind `Self::Small { .. } => StringKind::Safe`
#[kani::proof]
#[kani::unwind(6)]
fn smartstring_roundtrip_short() {
    let buf: [u8; 3] = kani::any();
    let s = any_short_str(&buf);
    let kind = any_kind();
    let ss = SmartString::new(s, kind);
    assert!(matches!(ss, SmartString::Small { .. }));
    assert!(ss.as_str().as_bytes() == s.as_bytes());
    assert!(ss.len() == s.len());
    assert!(ss.kind() == kind);
    let ms = ss.mark_safe();
    assert!(ms.kind() == StringKind::Safe);
    assert!(ms.as_str().as_bytes() == s.as_bytes());
    assert!(ms.len() == s.len());
}

// every public way to build a string Value from plain data gives a Normal (escaped) string
// killed by: `From<&str>` building StringKind::Safe (the same edit in From<String>, From<Cow>,
// From<Key>, Value::normal_string is caught by the same assert)
#[kani::proof]
#[kani::unwind(6)]
fn string_constructors_are_normal_short() {
    let buf: [u8; 3] = kani::any();
    let s = any_short_str(&buf);
    let which: u8 = kani::any();
    let v = match which {
        0 => Value::normal_string(s),
        1 => Value::from(s),
        2 => Value::from(String::from(s)),
        3 => Value::from(std::borrow::Cow::Borrowed(s)),
        _ => Value::from(Key::Str(s_static(s))),
    };
    assert!(v.kind() == ValueKind::String);
    assert!(!v.is_safe());
    assert!(v.as_str().unwrap().as_bytes() == s.as_bytes());
    std::mem::forget(v);
}

/// loop-free comparison of two byte strings of at most 4 bytes
fn same_bytes4(a: &[u8], b: &[u8]) -> bool {
    a.len() == b.len()
        && a.len() <= 4
        && (a.len() < 1 || a[0] == b[0])
        && (a.len() < 2 || a[1] == b[1])
        && (a.len() < 3 || a[2] == b[2])
        && (a.len() < 4 || a[3] == b[3])
}

// only safe_string / mark_safe give a Safe string; content unchanged; idempotent; clone keeps it.
// NOTE unwind(2) and loop-free oracles: the String arm of Value::mark_safe carries the drop
// ladder of the other (infeasible) variants, Array -> Vec<Value> -> Value -> ...; symex does not
// prune it and with a larger bound it does not finish (unwind(3): > 200 s, unwind(2): 20 s).
// killed by: is_safe `ValueInner::String(s) => s.kind() == StringKind::Normal`; `Value::safe_string`
// building Normal; Value::mark_safe `ValueInner::String(s) => Value { inner: ValueInner::String(s) }`
#[kani::proof]
#[kani::unwind(2)]
fn mark_safe_strings_short() {
    // "", every one-char string (1..=4 bytes), every 3-byte ASCII string
    let mut buf = [0u8; 4];
    let which: u8 = kani::any();
    let s: &str = match which {
        0 => "",
        1 => kani::any::<char>().encode_utf8(&mut buf),
        _ => {
            let abc: [u8; 3] = kani::any();
            kani::assume(abc[0] < 0x80 && abc[1] < 0x80 && abc[2] < 0x80);
            buf[0] = abc[0];
            buf[1] = abc[1];
            buf[2] = abc[2];
            // SAFETY: three ASCII bytes
            unsafe { std::str::from_utf8_unchecked(&buf[..3]) }
        }
    };
    let vs = Value::safe_string(s);
    assert!(vs.is_safe() && same_bytes4(vs.as_str().unwrap().as_bytes(), s.as_bytes()));
    let v = Value::normal_string(s);
    assert!(!v.is_safe());
    let m = v.mark_safe();
    assert!(m.kind() == ValueKind::String && m.is_safe());
    assert!(same_bytes4(m.as_str().unwrap().as_bytes(), s.as_bytes()));
    // idempotent; already-safe strings stay safe
    let mm = m.mark_safe();
    assert!(mm.is_safe() && same_bytes4(mm.as_str().unwrap().as_bytes(), s.as_bytes()));
    std::mem::forget((vs, mm));
}

/// Key::Str wants a 'static str: the bytes live in the harness frame for the whole run.
fn s_static(s: &str) -> &'static str {
    unsafe { std::mem::transmute::<&str, &'static str>(s) }
}

// killed by: `From<char>` going through Value::safe_string
#[kani::proof]
#[kani::unwind(6)]
fn char_is_normal_string() {
    let c: char = kani::any();
    let v = Value::from(c);
    assert!(v.kind() == ValueKind::String);
    assert!(!v.is_safe());
    let mut buf = [0u8; 4];
    let want: &str = c.encode_utf8(&mut buf);
    assert!(v.as_str().unwrap().len() == c.len_utf8());
    assert!(v.as_str().unwrap().as_bytes() == want.as_bytes());
    std::mem::forget(v);
}

// Both representations around the inline limit (21 bytes) with concrete strings: 21 bytes is
// Small, 22 bytes is Large (Arc<str>).
// killed by: SmartString::mark_safe keeping the old kind (Small arm and `Self::Large(s, k) => Self::Large(s, k)`);
// SmartString::kind `Self::Large(..) => StringKind::Safe`
#[kani::proof]
#[kani::unwind(24)]
fn smartstring_roundtrip_long() {
    const S21: &str = "<b>123456789012345678";
    const S22: &str = "<script>alert(1)</scri";
    assert!(S21.len() == 21 && S22.len() == 22);
    let small = SmartString::new(S21, StringKind::Normal);
    assert!(matches!(small, SmartString::Small { .. }));
    assert!(small.as_str().as_bytes() == S21.as_bytes() && small.kind() == StringKind::Normal && small.len() == 21);
    let small = small.mark_safe();
    assert!(small.as_str().as_bytes() == S21.as_bytes() && small.kind() == StringKind::Safe);

    let kind = any_kind();
    let large = SmartString::new(S22, kind);
    assert!(matches!(large, SmartString::Large(..)));
    assert!(large.as_str().as_bytes() == S22.as_bytes() && large.kind() == kind && large.len() == 22);
    let large = large.mark_safe();
    assert!(large.as_str().as_bytes() == S22.as_bytes() && large.kind() == StringKind::Safe);
    std::mem::forget(large);
}

/// loop-free comparison with the 22-byte constant
fn is_s22(a: &[u8], want: &[u8]) -> bool {
    macro_rules! at { ($($i:literal)*) => { true $(&& a[$i] == want[$i])* }; }
    a.len() == 22 && want.len() == 22 && at!(0 1 2 3 4 5 6 7 8 9 10 11 12 13 14 15 16 17 18 19 20 21)
}

// the same on the Arc-backed representation (unwind(2), loop-free: see mark_safe_strings_short)
// killed by: is_safe `ValueInner::String(s) => true`; SmartString::mark_safe
// `Self::Large(s, k) => Self::Large(s, k)`
#[kani::proof]
#[kani::unwind(2)]
fn value_mark_long() {
    const S22: &str = "<script>alert(1)</scri";
    let v = Value::from(S22);
    assert!(!v.is_safe() && is_s22(v.as_str().unwrap().as_bytes(), S22.as_bytes()));
    let v = v.mark_safe();
    assert!(v.is_safe() && is_s22(v.as_str().unwrap().as_bytes(), S22.as_bytes()));
    std::mem::forget(v);
    let v = Value::safe_string(S22);
    assert!(v.is_safe() && is_s22(v.as_str().unwrap().as_bytes(), S22.as_bytes()));
    std::mem::forget(v);
    let v = Value::normal_string(S22);
    assert!(!v.is_safe() && is_s22(v.as_str().unwrap().as_bytes(), S22.as_bytes()));
    std::mem::forget(v);
}

// Arrays, maps and bytes are never safe, marked or not (their rendering quotes/joins strings
// that may contain markup).
// killed by: is_safe `ValueInner::Array(_) => true`; mark_safe turning a non-string into a
// safe string
#[kani::proof]
#[kani::unwind(4)]
#[kani::stub(std::hash::RandomState::new, fixed_state)]
fn containers_are_never_safe() {
    let v = Value::from(Vec::<Value>::new());
    assert!(!v.is_safe());
    let v = v.mark_safe();
    assert!(v.kind() == ValueKind::Array && !v.is_safe() && v.as_array().unwrap().is_empty());
    std::mem::forget(v);

    // an array holding a SAFE string is still not safe
    let v = Value::from(vec![Value::safe_string("<")]);
    assert!(!v.is_safe());
    let v = v.mark_safe();
    assert!(v.kind() == ValueKind::Array && !v.is_safe() && v.as_array().unwrap().len() == 1);
    std::mem::forget(v);

    let b: u8 = kani::any();
    let v = Value::bytes(vec![b]);
    assert!(!v.is_safe());
    let v = v.mark_safe();
    assert!(v.kind() == ValueKind::Bytes && !v.is_safe() && v.as_bytes().unwrap()[0] == b);
    std::mem::forget(v);

    let v = Value::from(ValueInner::Map(Arc::new(Map::new())));
    assert!(!v.is_safe());
    let v = v.mark_safe();
    assert!(v.kind() == ValueKind::Map && !v.is_safe());
    std::mem::forget(v);
}
