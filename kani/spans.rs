// Harnesses for C12: span-range combination on the VM stack.  Child module of `vm::stack`.
//
// `combine_spans` carries its postcondition IN PLACE (spans.toml [[contract]]: kani::ensures on
// the real fn): the result starts at the smaller start and ends at the larger end, for ANY two
// RangeInclusive<u32> -- `start <= end` is not a type invariant of RangeInclusive and is NOT
// assumed (for empty/inverted inputs the result is still min-of-starts ..= max-of-ends).
use super::*;

// killed by: `.min` -> `.max` on the starts; `second.end()` -> `second.start()`;
// returning `first.clone()`
#[kani::proof_for_contract(combine_spans)]
fn combine_spans_contract() {
    let a: SpanRange = kani::any::<u32>()..=kani::any::<u32>();
    let b: SpanRange = kani::any::<u32>()..=kani::any::<u32>();
    let _ = combine_spans(&a, &b);
}

// What the contract means for error reporting (C12: "covers the offending token or
// expression"): every index of either operand is inside the result, the result invents no
// index outside the hull of the two, it is well-formed when the inputs are, and the operation
// is commutative and idempotent.  Proved against the real body.
// killed by: same mutations as above
#[kani::proof]
fn combine_spans_covers_both_and_is_least() {
    let (a0, a1, b0, b1): (u32, u32, u32, u32) = kani::any();
    let a: SpanRange = a0..=a1;
    let b: SpanRange = b0..=b1;
    let r = combine_spans(&a, &b);
    let x: u32 = kani::any();
    // coverage (holds even for empty inputs: nothing to cover)
    if (a0 <= x && x <= a1) || (b0 <= x && x <= b1) {
        assert!(*r.start() <= x && x <= *r.end());
    }
    // least: any [s, e] that covers both non-empty operands covers the result
    let (s, e): (u32, u32) = kani::any();
    if a0 <= a1 && b0 <= b1 && s <= a0 && s <= b0 && a1 <= e && b1 <= e {
        assert!(s <= *r.start() && *r.end() <= e);
        // well-formed
        assert!(*r.start() <= *r.end());
    }
    // the end points are end points of the operands
    assert!(*r.start() == a0 || *r.start() == b0);
    assert!(*r.end() == a1 || *r.end() == b1);
    // commutative, idempotent
    assert!(combine_spans(&b, &a) == r);
    assert!(combine_spans(&a, &a) == a);
    assert!(combine_spans(&r, &a) == r);
}
