// Kani twins of the Verus unit `number` (C13): bit-precise, full domain, independent oracles.
// They also serve as counterexample generators when a Verus obligation of that unit fails.
use super::*;

fn empty_format(_: core::fmt::Arguments<'_>) -> String {
    String::new()
}

fn v(x: i128) -> Value {
    Value::from(x)
}
fn out(r: TeraResult<Value>) -> Option<i128> {
    match r {
        Ok(val) => {
            let o = val.as_i128();
            assert!(o.is_some());
            std::mem::forget(val);
            o
        }
        Err(e) => {
            std::mem::forget(e);
            None
        }
    }
}

fn exact_add(a: i128, b: i128) -> Option<i128> {
    if b > 0 && a > i128::MAX - b {
        None
    } else if b < 0 && a < i128::MIN - b {
        None
    } else {
        Some(a.wrapping_add(b))
    }
}

// mutation that kills it: math!(add, checked_sub, +) / wrapping_add
#[kani::proof]
#[kani::unwind(2)]
#[kani::stub(alloc::fmt::format, empty_format)]
fn add_exact_or_err() {
    let a: i128 = kani::any();
    let b: i128 = kani::any();
    let (x, y) = (v(a), v(b));
    assert!(out(add(&x, &y)) == exact_add(a, b));
    std::mem::forget(x);
    std::mem::forget(y);
}

// mutation that kills it: math!(sub, checked_add, -)
#[kani::proof]
#[kani::unwind(2)]
#[kani::stub(alloc::fmt::format, empty_format)]
fn sub_exact_or_err() {
    let a: i128 = kani::any();
    let b: i128 = kani::any();
    let want = if b == i128::MIN {
        // a - MIN = a + 2^127: fits iff a < 0
        if a < 0 { Some(a.wrapping_sub(b)) } else { None }
    } else {
        exact_add(a, -b)
    };
    let (x, y) = (v(a), v(b));
    assert!(out(sub(&x, &y)) == want);
    std::mem::forget(x);
    std::mem::forget(y);
}

/// 128 x 128 -> 256 bit product of magnitudes by 64-bit limbs; returns (hi, lo)
fn wide_mul(a: u128, b: u128) -> (u128, u128) {
    let (a1, a0) = (a >> 64, a & 0xffff_ffff_ffff_ffff);
    let (b1, b0) = (b >> 64, b & 0xffff_ffff_ffff_ffff);
    let p00 = a0 * b0;
    let p01 = a0 * b1;
    let p10 = a1 * b0;
    let p11 = a1 * b1;
    let mid = (p00 >> 64) + (p01 & 0xffff_ffff_ffff_ffff) + (p10 & 0xffff_ffff_ffff_ffff);
    let lo = (p00 & 0xffff_ffff_ffff_ffff) | (mid << 64);
    let hi = p11 + (p01 >> 64) + (p10 >> 64) + (mid >> 64);
    (hi, lo)
}

// mutation that kills it: checked_mul -> wrapping_mul (Some(a.wrapping_mul(b)))
#[kani::proof]
#[kani::unwind(2)]
#[kani::stub(alloc::fmt::format, empty_format)]
fn mul_exact_i32_operands() {
    let a: i128 = kani::any::<i32>() as i128;
    let b: i128 = kani::any::<i32>() as i128;
    let neg = (a < 0) != (b < 0);
    let (hi, lo) = wide_mul(a.unsigned_abs(), b.unsigned_abs());
    let want = if hi != 0 {
        None
    } else if !neg {
        if lo <= i128::MAX as u128 { Some(lo as i128) } else { None }
    } else if lo <= (i128::MAX as u128) + 1 {
        Some((lo as i128).wrapping_neg())
    } else {
        None
    };
    let (x, y) = (v(a), v(b));
    assert!(out(mul(&x, &y)) == want);
    std::mem::forget(x);
    std::mem::forget(y);
}

// mutations that kill it: checked_div_euclid -> checked_div; rem's `None => 0` back to an error
#[kani::proof]
#[kani::unwind(2)]
#[kani::stub(alloc::fmt::format, empty_format)]
fn divmod_euclid_i8() {
    let corner: bool = kani::any();
    let a: i128 = if corner { i128::MIN } else { kani::any::<i8>() as i128 };
    let b: i128 = if corner { -1 } else { kani::any::<i8>() as i128 };
    let (x, y) = (v(a), v(b));
    let q = out(floor_div(&x, &y));
    let r = out(rem(&x, &y));
    if b == 0 {
        assert!(q.is_none() && r.is_none());
    } else {
        // the remainder always exists: 0 <= r < |b|
        assert!(r.is_some());
        let r = r.unwrap();
        assert!(r >= 0 && (r as u128) < b.unsigned_abs());
        if a == i128::MIN && b == -1 {
            assert!(q.is_none());
            assert!(r == 0);
        } else {
            assert!(q.is_some());
            let q = q.unwrap();
            // q*b + r == a, exactly: |q*b| <= |a| + |b| so check without overflow via division
            // back: (a - r) is divisible by b with quotient q
            let ar = a.wrapping_sub(r); // a - r >= MIN because r >= 0 and ... may wrap only if a < MIN + r: then a - r underflows
            if a >= i128::MIN + r {
                assert!(ar % b == 0);
                assert!(ar / b == q || (ar == i128::MIN && b == -1));
            }
        }
    }
    std::mem::forget(x);
    std::mem::forget(y);
}

// mutation that kills it: checked_neg -> wrapping_neg
#[kani::proof]
#[kani::unwind(2)]
#[kani::stub(alloc::fmt::format, empty_format)]
fn negate_exact_or_err() {
    let a: i128 = kani::any();
    let x = v(a);
    let want = if a == i128::MIN { None } else { Some(-a) };
    assert!(out(negate(&x)) == want);
    std::mem::forget(x);
}

// mutation that kills it: `u32::try_from(b)` -> `b as u32`
#[kani::proof]
#[kani::unwind(3)]
#[kani::stub(alloc::fmt::format, empty_format)]
fn pow_truncation() {
    let a: i128 = kani::any();
    let e: i128 = kani::any();
    kani::assume(e == 0 || e == 1 || e > u32::MAX as i128);
    let (x, y) = (v(a), v(e));
    let got = out(pow(&x, &y));
    if e == 0 {
        assert!(got == Some(1));
    } else if e == 1 {
        assert!(got == Some(a));
    } else if a > 1 || a < -1 {
        // |a| >= 2 and e >= 2^32: the exact result never fits
        assert!(got.is_none());
    } else if a == 0 || a == 1 {
        // the exact result fits (C13: exact whenever operands and result fit)
        assert!(got == Some(a));
    } else {
        assert!(got == Some(if e % 2 == 0 { 1 } else { -1 }));
    }
    std::mem::forget(x);
    std::mem::forget(y);
}

#[kani::proof]
#[kani::unwind(2)]
#[kani::stub(alloc::fmt::format, empty_format)]
fn mixed_encodings_route_to_i128() {
    let a: u64 = kani::any();
    let b: i64 = kani::any();
    let (x, y) = (Value::from(a), Value::from(b));
    assert!(out(add(&x, &y)) == exact_add(a as i128, b as i128));
    std::mem::forget(x);
    std::mem::forget(y);
    let c: u128 = kani::any();
    let d: i128 = kani::any();
    let (x, y) = (Value::from(c), Value::from(d));
    let got = add(&x, &y);
    if c > i128::MAX as u128 {
        assert!(got.is_err());
        std::mem::forget(got);
    } else {
        assert!(out(got) == exact_add(c as i128, d));
    }
    std::mem::forget(x);
    std::mem::forget(y);
}
