// Harnesses for C20 (b64_encode / b64_decode).  Child module of `tera_contrib::base64`.
//
// The filters themselves need Kwargs/State (HashMap) and do not finish in Kani.  What tera owns
// here besides the `match (url_safe, padded)` inside `b64_encode` (NOT covered: it cannot be
// reached without Kwargs) are the two private decode engines: they must accept what each of the
// two encoders of the same alphabet produces, padded or not.
use super::*;

fn in_alphabet(c: u8, url_safe: bool) -> bool {
    let alnum = (c >= b'A' && c <= b'Z') || (c >= b'a' && c <= b'z') || (c >= b'0' && c <= b'9');
    alnum || if url_safe { c == b'-' || c == b'_' } else { c == b'+' || c == b'/' }
}

fn check(input: &[u8], url_safe: bool, padded: bool) {
    // the engine the documentation of b64_encode names for (url_safe, padded)
    let encoded = match (url_safe, padded) {
        (false, true) => general_purpose::STANDARD.encode(input),
        (false, false) => general_purpose::STANDARD_NO_PAD.encode(input),
        (true, true) => general_purpose::URL_SAFE.encode(input),
        (true, false) => general_purpose::URL_SAFE_NO_PAD.encode(input),
    };
    let e = encoded.as_bytes();
    // length and alphabet of the encoded text
    let data_chars = (input.len() * 4 + 2) / 3;
    let pad_chars = if padded { (3 - input.len() % 3) % 3 } else { 0 };
    assert!(e.len() == data_chars + pad_chars);
    let mut i = 0;
    while i < e.len() {
        if i < data_chars {
            assert!(in_alphabet(e[i], url_safe));
        } else {
            assert!(e[i] == b'=');
        }
        i += 1;
    }
    // tera's decode engine for that alphabet returns the input, padded or not
    let decoded = if url_safe { URL_SAFE_DECODE.decode(e) } else { STANDARD_DECODE.decode(e) };
    match decoded {
        Ok(d) => {
            assert!(d.len() == input.len());
            let mut j = 0;
            while j < input.len() {
                assert!(d[j] == input[j]);
                j += 1;
            }
            std::mem::forget(d);
        }
        Err(_) => panic!("decode engine rejects the encoder's output"),
    }
    std::mem::forget(encoded);
}

// killed by: STANDARD_DECODE built with `DecodePaddingMode::RequireCanonical` (unpadded text rejected)
#[kani::proof]
#[kani::unwind(10)]
fn b64_standard_le3() {
    let raw: [u8; 3] = kani::any();
    let len: usize = kani::any();
    kani::assume(len <= 3);
    check(&raw[..len], false, kani::any());
}

// killed by: URL_SAFE_DECODE built on `&base64::alphabet::STANDARD`
#[kani::proof]
#[kani::unwind(10)]
fn b64_url_safe_le3() {
    let raw: [u8; 3] = kani::any();
    let len: usize = kani::any();
    kani::assume(len <= 3);
    check(&raw[..len], true, kani::any());
}
