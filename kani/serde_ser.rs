// Harnesses for C19, serializer half.  Child module of `value::ser`: the private `ValueSerializer`,
// `MapKeySerializer`, `SerializeSeq` are visible through `use super::*`.
//
// The end-to-end round trip does not finish in Kani (serde's generic Deserialize impls), so the
// serializer is decided against the serde data model: each `serialize_*` entry point must produce
// the template value that carries exactly the payload it was given.
use super::*;
use serde::ser::{SerializeSeq as _, SerializeTuple as _};

/// mathematical integer carried by a Value: (negative, magnitude), whatever the variant
fn val_int(v: &Value) -> Option<(bool, u128)> {
    match &v.inner {
        ValueInner::U64(x) => Some((false, *x as u128)),
        ValueInner::I64(x) => Some((*x < 0, x.unsigned_abs() as u128)),
        ValueInner::U128(x) => Some((false, **x)),
        ValueInner::I128(x) => Some((**x < 0, x.unsigned_abs())),
        _ => None,
    }
}

/// mathematical integer carried by a Key, whatever the variant
fn key_int(k: &Key<'_>) -> Option<(bool, u128)> {
    match k {
        Key::U64(x) => Some((false, *x as u128)),
        Key::I64(x) => Some((*x < 0, x.unsigned_abs() as u128)),
        Key::U128(x) => Some((false, *x)),
        Key::I128(x) => Some((*x < 0, x.unsigned_abs())),
        _ => None,
    }
}

/// UTF-8 encoding of a scalar value from its code point (bit-level, independent of core)
fn utf8_of(c: char) -> ([u8; 4], usize) {
    let u = c as u32;
    if u < 0x80 {
        ([u as u8, 0, 0, 0], 1)
    } else if u < 0x800 {
        ([0xC0 | (u >> 6) as u8, 0x80 | (u & 0x3F) as u8, 0, 0], 2)
    } else if u < 0x10000 {
        ([0xE0 | (u >> 12) as u8, 0x80 | ((u >> 6) & 0x3F) as u8, 0x80 | (u & 0x3F) as u8, 0], 3)
    } else {
        (
            [
                0xF0 | (u >> 18) as u8,
                0x80 | ((u >> 12) & 0x3F) as u8,
                0x80 | ((u >> 6) & 0x3F) as u8,
                0x80 | (u & 0x3F) as u8,
            ],
            4,
        )
    }
}

fn bytes_eq(a: &[u8], b: &[u8]) -> bool {
    if a.len() != b.len() {
        return false;
    }
    let mut i = 0;
    while i < a.len() {
        if a[i] != b[i] {
            return false;
        }
        i += 1;
    }
    true
}

fn is_normal_str(v: &Value, want: &[u8]) -> bool {
    match &v.inner {
        ValueInner::String(s) => s.kind() == StringKind::Normal && bytes_eq(s.as_str().as_bytes(), want),
        _ => false,
    }
}

// killed by: serialize_u32 -> `ValueInner::U64((v as u16) as u64)`
#[kani::proof]
#[kani::unwind(2)]
fn ser_unsigned() {
    let a: u8 = kani::any();
    let b: u16 = kani::any();
    let c: u32 = kani::any();
    let d: u64 = kani::any();
    let va = ValueSerializer.serialize_u8(a).unwrap();
    let vb = ValueSerializer.serialize_u16(b).unwrap();
    let vc = ValueSerializer.serialize_u32(c).unwrap();
    let vd = ValueSerializer.serialize_u64(d).unwrap();
    assert!(matches!(va.inner, ValueInner::U64(x) if x == a as u64));
    assert!(matches!(vb.inner, ValueInner::U64(x) if x == b as u64));
    assert!(matches!(vc.inner, ValueInner::U64(x) if x == c as u64));
    assert!(matches!(vd.inner, ValueInner::U64(x) if x == d));
    // through serde's own Serialize impls (what try_from_serializable calls)
    let wa = a.serialize(ValueSerializer).unwrap();
    let wd = d.serialize(ValueSerializer).unwrap();
    assert!(val_int(&wa) == Some((false, a as u128)));
    assert!(val_int(&wd) == Some((false, d as u128)));
    std::mem::forget((va, vb, vc, vd, wa, wd));
}

// killed by: serialize_i16 -> `ValueInner::I64((v as u16) as i64)` (sign lost)
#[kani::proof]
#[kani::unwind(2)]
fn ser_signed() {
    let a: i8 = kani::any();
    let b: i16 = kani::any();
    let c: i32 = kani::any();
    let d: i64 = kani::any();
    let va = ValueSerializer.serialize_i8(a).unwrap();
    let vb = ValueSerializer.serialize_i16(b).unwrap();
    let vc = ValueSerializer.serialize_i32(c).unwrap();
    let vd = ValueSerializer.serialize_i64(d).unwrap();
    assert!(matches!(va.inner, ValueInner::I64(x) if x == a as i64));
    assert!(matches!(vb.inner, ValueInner::I64(x) if x == b as i64));
    assert!(matches!(vc.inner, ValueInner::I64(x) if x == c as i64));
    assert!(matches!(vd.inner, ValueInner::I64(x) if x == d));
    let wb = b.serialize(ValueSerializer).unwrap();
    let wd = d.serialize(ValueSerializer).unwrap();
    assert!(val_int(&wb) == Some((b < 0, b.unsigned_abs() as u128)));
    assert!(val_int(&wd) == Some((d < 0, d.unsigned_abs() as u128)));
    std::mem::forget((va, vb, vc, vd, wb, wd));
}

// killed by: serialize_u128 -> `ValueInner::U64(v as u64)` and serialize_i128 -> `ValueInner::I64(v as i64)`
#[kani::proof]
#[kani::unwind(2)]
fn ser_wide() {
    let a: u128 = kani::any();
    let b: i128 = kani::any();
    let va = ValueSerializer.serialize_u128(a).unwrap();
    let vb = ValueSerializer.serialize_i128(b).unwrap();
    assert!(matches!(&va.inner, ValueInner::U128(x) if **x == a));
    assert!(matches!(&vb.inner, ValueInner::I128(x) if **x == b));
    let wa = a.serialize(ValueSerializer).unwrap();
    let wb = b.serialize(ValueSerializer).unwrap();
    assert!(val_int(&wa) == Some((false, a)));
    assert!(val_int(&wb) == Some((b < 0, b.unsigned_abs())));
    std::mem::forget((va, vb, wa, wb));
}

// killed by: serialize_f32 -> `ValueInner::F64((v as i32) as f64)`
#[kani::proof]
#[kani::unwind(2)]
fn ser_floats() {
    let a: f32 = kani::any();
    let b: f64 = kani::any();
    let va = ValueSerializer.serialize_f32(a).unwrap();
    let vb = ValueSerializer.serialize_f64(b).unwrap();
    match va.inner {
        ValueInner::F64(x) => {
            if a.is_nan() {
                assert!(x.is_nan());
            } else {
                // the widened value is the same real number (and the same zero), and narrowing it
                // again -- what reading it back as f32 does -- returns the original bits
                assert!(x == a as f64);
                assert!(x.is_sign_negative() == a.is_sign_negative());
                assert!((x as f32).to_bits() == a.to_bits());
            }
        }
        _ => panic!("f32 must become F64"),
    }
    match vb.inner {
        ValueInner::F64(x) => assert!(x.to_bits() == b.to_bits()),
        _ => panic!("f64 must become F64"),
    }
    let wb = b.serialize(ValueSerializer).unwrap();
    assert!(matches!(wb.inner, ValueInner::F64(x) if x.to_bits() == b.to_bits()));
    std::mem::forget((va, vb, wb));
}

// killed by: serialize_bool -> `ValueInner::Bool(!v)`
#[kani::proof]
#[kani::unwind(2)]
fn ser_bool_none_unit_some() {
    let b: bool = kani::any();
    let vb = ValueSerializer.serialize_bool(b).unwrap();
    assert!(matches!(vb.inner, ValueInner::Bool(x) if x == b));
    let vn = ValueSerializer.serialize_none().unwrap();
    assert!(matches!(vn.inner, ValueInner::None));
    let vu = ValueSerializer.serialize_unit().unwrap();
    assert!(matches!(vu.inner, ValueInner::None));
    let vus = ValueSerializer.serialize_unit_struct("Unit").unwrap();
    assert!(matches!(vus.inner, ValueInner::None));
    // Some(x) is x; None is none -- also through serde's Option impl
    let x: u64 = kani::any();
    let y: i128 = kani::any();
    let s1 = ValueSerializer.serialize_some(&x).unwrap();
    assert!(matches!(s1.inner, ValueInner::U64(v) if v == x));
    let s2 = Some(y).serialize(ValueSerializer).unwrap();
    assert!(matches!(&s2.inner, ValueInner::I128(v) if **v == y));
    let s3 = Some(b).serialize(ValueSerializer).unwrap();
    assert!(matches!(s3.inner, ValueInner::Bool(v) if v == b));
    let s4 = None::<u64>.serialize(ValueSerializer).unwrap();
    assert!(matches!(s4.inner, ValueInner::None));
    // a newtype struct is its content
    let s5 = ValueSerializer.serialize_newtype_struct("W", &x).unwrap();
    assert!(matches!(s5.inner, ValueInner::U64(v) if v == x));
    std::mem::forget((vb, vn, vu, vus, s1, s2, s3, s4, s5));
}

// killed by: serialize_char -> StringKind::Safe
#[kani::proof]
#[kani::unwind(6)]
fn ser_char() {
    let c: char = kani::any();
    let (enc, n) = utf8_of(c);
    let v = ValueSerializer.serialize_char(c).unwrap();
    assert!(is_normal_str(&v, &enc[..n]));
    std::mem::forget(v);
}

// killed by: serialize_str (and unit_variant) -> StringKind::Safe
#[kani::proof]
#[kani::unwind(6)]
fn ser_str() {
    let raw: [u8; 3] = kani::any();
    let n: usize = kani::any();
    kani::assume(n <= 3);
    if let Ok(s) = core::str::from_utf8(&raw[..n]) {
        let v = ValueSerializer.serialize_str(s).unwrap();
        assert!(is_normal_str(&v, &raw[..n]));
        let w = s.serialize(ValueSerializer).unwrap();
        assert!(is_normal_str(&w, &raw[..n]));
        std::mem::forget((v, w));
    }
    let u = ValueSerializer.serialize_unit_variant("Kind", 1, "Ab").unwrap();
    assert!(is_normal_str(&u, b"Ab"));
    std::mem::forget(u);
}

// ---------------------------------------------------------------- map keys

// killed by: MapKeySerializer::serialize_i8 -> `self.serialize_u64(v as u64)`
#[kani::proof]
#[kani::unwind(2)]
fn key_integers() {
    let a: u8 = kani::any();
    let b: u16 = kani::any();
    let c: u32 = kani::any();
    let d: u64 = kani::any();
    let e: u128 = kani::any();
    let ka = MapKeySerializer.serialize_u8(a).unwrap();
    let kb = MapKeySerializer.serialize_u16(b).unwrap();
    let kc = MapKeySerializer.serialize_u32(c).unwrap();
    let kd = MapKeySerializer.serialize_u64(d).unwrap();
    let ke = MapKeySerializer.serialize_u128(e).unwrap();
    assert!(key_int(&ka) == Some((false, a as u128)));
    assert!(key_int(&kb) == Some((false, b as u128)));
    assert!(key_int(&kc) == Some((false, c as u128)));
    assert!(key_int(&kd) == Some((false, d as u128)));
    assert!(key_int(&ke) == Some((false, e)));
    let f: i8 = kani::any();
    let g: i16 = kani::any();
    let h: i32 = kani::any();
    let i: i64 = kani::any();
    let j: i128 = kani::any();
    let kf = MapKeySerializer.serialize_i8(f).unwrap();
    let kg = MapKeySerializer.serialize_i16(g).unwrap();
    let kh = MapKeySerializer.serialize_i32(h).unwrap();
    let ki = MapKeySerializer.serialize_i64(i).unwrap();
    let kj = MapKeySerializer.serialize_i128(j).unwrap();
    assert!(key_int(&kf) == Some((f < 0, f.unsigned_abs() as u128)));
    assert!(key_int(&kg) == Some((g < 0, g.unsigned_abs() as u128)));
    assert!(key_int(&kh) == Some((h < 0, h.unsigned_abs() as u128)));
    assert!(key_int(&ki) == Some((i < 0, i.unsigned_abs() as u128)));
    assert!(key_int(&kj) == Some((j < 0, j.unsigned_abs())));
    // through serde's Serialize impls, as SerializeMap::serialize_key does
    let kk = a.serialize(MapKeySerializer).unwrap();
    let kl = j.serialize(MapKeySerializer).unwrap();
    assert!(key_int(&kk) == Some((false, a as u128)));
    assert!(key_int(&kl) == Some((j < 0, j.unsigned_abs())));
    std::mem::forget((ka, kb, kc, kd, ke, kf, kg, kh, ki, kj, kk, kl));
}

// killed by: MapKeySerializer::serialize_bool -> `Key::Bool(!v)`
#[kani::proof]
#[kani::unwind(6)]
fn key_bool_char_str() {
    let b: bool = kani::any();
    let kb = MapKeySerializer.serialize_bool(b).unwrap();
    assert!(matches!(kb, Key::Bool(x) if x == b));
    let c: char = kani::any();
    let (enc, n) = utf8_of(c);
    let kc = MapKeySerializer.serialize_char(c).unwrap();
    assert!(matches!(kc.as_str(), Some(s) if bytes_eq(s.as_bytes(), &enc[..n])));
    let raw: [u8; 2] = kani::any();
    let m: usize = kani::any();
    kani::assume(m <= 2);
    if let Ok(s) = core::str::from_utf8(&raw[..m]) {
        let ks = MapKeySerializer.serialize_str(s).unwrap();
        assert!(matches!(ks.as_str(), Some(t) if bytes_eq(t.as_bytes(), &raw[..m])));
        std::mem::forget(ks);
    }
    let kv = MapKeySerializer.serialize_unit_variant("Kind", 0, "Ab").unwrap();
    assert!(matches!(kv.as_str(), Some(t) if bytes_eq(t.as_bytes(), b"Ab")));
    std::mem::forget((kb, kc, kv));
}

// killed by: MapKeySerializer::serialize_f64 -> `Ok(Key::I64(_v as i64))`
#[kani::proof]
#[kani::unwind(4)]
fn key_refusals() {
    let f: f64 = kani::any();
    let g: f32 = kani::any();
    let r1 = f.serialize(MapKeySerializer);
    assert!(r1.is_err());
    let r2 = g.serialize(MapKeySerializer);
    assert!(r2.is_err());
    let r3 = MapKeySerializer.serialize_f64(f);
    assert!(r3.is_err());
    let raw: [u8; 2] = kani::any();
    let r4 = MapKeySerializer.serialize_bytes(&raw);
    assert!(r4.is_err());
    let r5 = MapKeySerializer.serialize_none();
    assert!(r5.is_err());
    let r6 = MapKeySerializer.serialize_unit();
    assert!(r6.is_err());
    let r7 = ().serialize(MapKeySerializer);
    assert!(r7.is_err());
    let r8 = None::<u8>.serialize(MapKeySerializer);
    assert!(r8.is_err());
    let r9 = MapKeySerializer.serialize_unit_struct("U");
    assert!(r9.is_err());
    std::mem::forget((r1, r2, r3, r4, r5, r6, r7, r8, r9));
}

// killed by: MapKeySerializer::serialize_newtype_variant -> `_value.serialize(self)` (a newtype variant key accepted)
#[kani::proof]
#[kani::unwind(4)]
fn key_refusals_compound() {
    let len: usize = kani::any();
    assert!(MapKeySerializer.serialize_seq(Some(len)).is_err());
    assert!(MapKeySerializer.serialize_seq(None).is_err());
    assert!(MapKeySerializer.serialize_tuple(len).is_err());
    assert!(MapKeySerializer.serialize_tuple_struct("T", len).is_err());
    assert!(MapKeySerializer.serialize_tuple_variant("E", 0, "V", len).is_err());
    assert!(MapKeySerializer.serialize_map(Some(len)).is_err());
    assert!(MapKeySerializer.serialize_struct("S", len).is_err());
    assert!(MapKeySerializer.serialize_struct_variant("E", 0, "V", len).is_err());
    let x: u8 = kani::any();
    assert!(MapKeySerializer.serialize_newtype_variant("E", 0, "V", &x).is_err());
    // a 2-tuple key, through serde's tuple impl
    let y: u8 = kani::any();
    assert!((x, y).serialize(MapKeySerializer).is_err());
}

// ---------------------------------------------------------------- sequences

fn arr2(v: &Value) -> Option<(&Value, &Value)> {
    match &v.inner {
        ValueInner::Array(a) if a.len() == 2 => Some((&a[0], &a[1])),
        _ => None,
    }
}

// killed by: SerializeSeq::serialize_element -> `self.elements.insert(0, ..)` (order reversed)
#[kani::proof]
#[kani::unwind(4)]
fn seq_two_in_order() {
    let a: u64 = kani::any();
    let b: i64 = kani::any();
    let mut s = ValueSerializer.serialize_seq(Some(2)).unwrap();
    ser::SerializeSeq::serialize_element(&mut s, &a).unwrap();
    ser::SerializeSeq::serialize_element(&mut s, &b).unwrap();
    let v = ser::SerializeSeq::end(s).unwrap();
    match arr2(&v) {
        Some((x, y)) => {
            assert!(matches!(x.inner, ValueInner::U64(p) if p == a));
            assert!(matches!(y.inner, ValueInner::I64(q) if q == b));
        }
        None => panic!("two elements expected"),
    }
    // empty sequence
    let e = ser::SerializeSeq::end(ValueSerializer.serialize_seq(None).unwrap()).unwrap();
    assert!(matches!(&e.inner, ValueInner::Array(x) if x.is_empty()));
    std::mem::forget((v, e));
}

// killed by: SerializeTuple::serialize_element -> `self.elements.insert(0, ..)`
#[kani::proof]
#[kani::unwind(4)]
fn tuple_two_in_order() {
    let a: u8 = kani::any();
    let b: bool = kani::any();
    let v = (a, b).serialize(ValueSerializer).unwrap();
    match arr2(&v) {
        Some((x, y)) => {
            assert!(matches!(x.inner, ValueInner::U64(p) if p == a as u64));
            assert!(matches!(y.inner, ValueInner::Bool(q) if q == b));
        }
        None => panic!("two elements expected"),
    }
    std::mem::forget(v);
}

// killed by: SerializeSeq::serialize_element -> `self.elements.insert(0, ..)`
#[kani::proof]
#[kani::unwind(4)]
fn slice_two_in_order() {
    let xs: [i32; 2] = kani::any();
    let v = xs[..].serialize(ValueSerializer).unwrap();
    match arr2(&v) {
        Some((x, y)) => {
            assert!(matches!(x.inner, ValueInner::I64(p) if p == xs[0] as i64));
            assert!(matches!(y.inner, ValueInner::I64(q) if q == xs[1] as i64));
        }
        None => panic!("two elements expected"),
    }
    std::mem::forget(v);
}
