// Harnesses for C07: the invariant behind `unsafe { from_utf8_unchecked }` in `SmartString::as_str`
// and the UTF-8 validity of what `Value::format` writes.  Child module of `value`.
use super::*;

fn bytes_eq(a: &[u8], b: &[u8]) -> bool {
    if a.len() != b.len() {
        return false;
    }
    let mut i = 0;
    while i < a.len() {
        if a[i] != b[i] {
            return false;
        }
        i += 1;
    }
    true
}

fn any_kind() -> StringKind {
    if kani::any() { StringKind::Safe } else { StringKind::Normal }
}

// killed by: SmartString::new storing `len: s.len().saturating_sub(1) as u8`
#[kani::proof]
#[kani::unwind(6)]
fn smart_short_roundtrip() {
    let raw: [u8; 4] = kani::any();
    let n: usize = kani::any();
    kani::assume(n <= 4);
    if let Ok(s) = core::str::from_utf8(&raw[..n]) {
        let kind = any_kind();
        let ss = SmartString::new(s, kind);
        assert!(matches!(ss, SmartString::Small { .. }));
        assert!(ss.len() == n);
        assert!(ss.kind() == kind);
        let back = ss.as_str();
        // the bytes handed to from_utf8_unchecked are exactly the bytes of the &str it was built
        // from, hence valid UTF-8
        assert!(bytes_eq(back.as_bytes(), &raw[..n]));
        std::mem::forget(ss);
    }
}

fn check_concrete(s: &str, inline: bool) {
    let kind = any_kind();
    let ss = SmartString::new(s, kind);
    assert!(matches!(ss, SmartString::Small { .. }) == inline);
    assert!(ss.len() == s.len());
    assert!(ss.kind() == kind);
    assert!(bytes_eq(ss.as_str().as_bytes(), s.as_bytes()));
    let m = ss.clone().mark_safe();
    assert!(m.kind() == StringKind::Safe && bytes_eq(m.as_str().as_bytes(), s.as_bytes()));
    std::mem::forget((ss, m));
}

// killed by: SmartString::new `if s.len() <= 21` -> `< 21` (21 bytes no longer inline)
#[kani::proof]
#[kani::unwind(24)]
fn smart_boundary_21_22() {
    // inline storage is used iff the text is at most 21 BYTES (the doc comment says "chars")
    check_concrete("abcdefghijklmnopqrstu", true); // 21 ASCII
    check_concrete("abcdefghijklmnopqrstuv", false); // 22 ASCII
    check_concrete("€€€€€€€", true); // 7 chars, 21 bytes
    check_concrete("€€€€€€€a", false); // 8 chars, 22 bytes
    check_concrete("ééééééééééé", false); // 11 chars, 22 bytes: NOT inline although <= 21 chars
    check_concrete("", true);
}

// killed by: Value::format `Bool(v) => f.write_all(if *v { b"true" } else { b"fals\xff" })`
#[kani::proof]
#[kani::unwind(8)]
fn format_literals() {
    let b: bool = kani::any();
    let mut out: Vec<u8> = Vec::new();
    let v = Value::from(b);
    assert!(v.format(&mut out).is_ok());
    assert!(bytes_eq(&out, if b { b"true" } else { b"false" }));
    let mut out2: Vec<u8> = Vec::new();
    assert!(Value::none().format(&mut out2).is_ok());
    assert!(out2.is_empty());
    assert!(Value::undefined().format(&mut out2).is_ok());
    assert!(out2.is_empty());
    std::mem::forget((v, out, out2));
}

/// decimal digits of n, most significant first, without fmt
fn decimal(mut n: u64, buf: &mut [u8; 20]) -> usize {
    let mut tmp = [0u8; 20];
    let mut k = 0;
    loop {
        tmp[k] = b'0' + (n % 10) as u8;
        k += 1;
        n /= 10;
        if n == 0 {
            break;
        }
    }
    let mut i = 0;
    while i < k {
        buf[i] = tmp[k - 1 - i];
        i += 1;
    }
    k
}

// killed by: Value::format `U64(v) => write!(f, "{}", *v as u8)`
#[kani::proof]
#[kani::unwind(5)]
fn format_small_unsigned() {
    let x: u64 = kani::any();
    kani::assume(x < 1000);
    let v = Value::from(x);
    let mut out: Vec<u8> = Vec::new();
    assert!(v.format(&mut out).is_ok());
    let mut want = [0u8; 20];
    let k = decimal(x, &mut want);
    assert!(bytes_eq(&out, &want[..k]));
    std::mem::forget((v, out));
}
