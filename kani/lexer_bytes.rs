// Harnesses for C06 / C08: the byte-level searches of the lexer.  Child module of `parsing::lexer`.
//
// Precondition used throughout (guaranteed by `Delimiters::validate`, group `delims`): a delimiter
// is exactly 2 bytes: two ASCII characters or one two-byte character.  `memstr` with an EMPTY needle
// would panic (`windows(0)`); validate is what rules that out.
use super::*;
use std::borrow::Cow;

/// least i with hay[i..i+2] == [n0, n1]
fn first_occurrence(hay: &[u8], n0: u8, n1: u8) -> Option<usize> {
    let mut i = 0;
    while i + 1 < hay.len() {
        if hay[i] == n0 && hay[i + 1] == n1 {
            return Some(i);
        }
        i += 1;
    }
    None
}

fn valid_delim(b: [u8; 2]) -> bool {
    (b[0] < 0x80 && b[1] < 0x80) || (b[0] >= 0xC2 && b[0] <= 0xDF && b[1] >= 0x80 && b[1] <= 0xBF)
}

// killed by: memstr `.position(..)` -> `.rposition(..)` (last instead of first occurrence)
#[kani::proof]
#[kani::unwind(8)]
fn memstr_least_offset() {
    let raw: [u8; 6] = kani::any();
    let len: usize = kani::any();
    kani::assume(len <= 6);
    let needle: [u8; 2] = kani::any();
    let got = memstr(&raw[..len], &needle);
    let want = first_occurrence(&raw[..len], needle[0], needle[1]);
    assert!(got == want);
    if let Some(i) = got {
        // what the callers do next: `offset + 2` stays inside the text
        assert!(i + 2 <= len);
    }
}

// killed by: memstr `position(|window| window[1] == needle[1])` (sloppy comparison: matches inside a character)
#[kani::proof]
#[kani::unwind(8)]
fn memstr_match_is_on_char_boundaries() {
    let raw: [u8; 5] = kani::any();
    let len: usize = kani::any();
    kani::assume(len <= 5);
    let needle: [u8; 2] = kani::any();
    kani::assume(valid_delim(needle));
    if let Ok(text) = core::str::from_utf8(&raw[..len]) {
        if let Some(i) = memstr(text.as_bytes(), &needle) {
            // `split_at(i)`, `&rest[i + 2..]` in the lexer cannot panic
            assert!(text.is_char_boundary(i));
            assert!(text.is_char_boundary(i + 2));
        }
    }
}

fn first_of_three(hay: &[u8], a: [u8; 2], b: [u8; 2], c: [u8; 2]) -> Option<usize> {
    let mut i = 0;
    while i + 1 < hay.len() {
        let w = [hay[i], hay[i + 1]];
        if w == a || w == b || w == c {
            return Some(i);
        }
        i += 1;
    }
    None
}

// killed by: find_start_marker without `|| w == comment_start` (a `{#` is no longer found)
#[kani::proof]
#[kani::unwind(8)]
fn find_start_marker_default() {
    let raw: [u8; 6] = kani::any();
    let len: usize = kani::any();
    kani::assume(len <= 6);
    if let Ok(text) = core::str::from_utf8(&raw[..len]) {
        let d = Delimiters::default();
        let got = find_start_marker(text, &d);
        let want = first_of_three(&raw[..len], *b"{{", *b"{%", *b"{#");
        // least offset of any of the three start delimiters; None iff none occurs
        assert!(got == want);
        if let Some(i) = got {
            assert!(text.is_char_boundary(i) && text.is_char_boundary(i + 2));
        }
        std::mem::forget(d);
    }
}

fn delim_of(b: &'static [u8; 2]) -> Cow<'static, str> {
    match core::str::from_utf8(&b[..]) {
        Ok(s) => Cow::Borrowed(s),
        Err(_) => {
            kani::assume(false);
            unreachable!()
        }
    }
}

// killed by: find_start_marker without `|| w == comment_start`
#[kani::proof]
#[kani::unwind(8)]
fn find_start_marker_custom() {
    let raw: [u8; 5] = kani::any();
    let len: usize = kani::any();
    kani::assume(len <= 5);
    // one symbolic accepted delimiter set (only the start delimiters matter here)
    let vs: [u8; 2] = kani::any();
    let bs: [u8; 2] = kani::any();
    let cs: [u8; 2] = kani::any();
    kani::assume(valid_delim(vs) && valid_delim(bs) && valid_delim(cs));
    kani::assume(vs != bs && vs != cs && bs != cs);
    let vs_l: &'static [u8; 2] = Box::leak(Box::new(vs));
    let bs_l: &'static [u8; 2] = Box::leak(Box::new(bs));
    let cs_l: &'static [u8; 2] = Box::leak(Box::new(cs));
    if let Ok(text) = core::str::from_utf8(&raw[..len]) {
        let d = Delimiters {
            block_start: delim_of(bs_l),
            block_end: Cow::Borrowed("%}"),
            variable_start: delim_of(vs_l),
            variable_end: Cow::Borrowed("}}"),
            comment_start: delim_of(cs_l),
            comment_end: Cow::Borrowed("#}"),
        };
        let got = find_start_marker(text, &d);
        let want = first_of_three(&raw[..len], vs, bs, cs);
        assert!(got == want);
        if let Some(i) = got {
            assert!(text.is_char_boundary(i) && text.is_char_boundary(i + 2));
        }
        std::mem::forget(d);
    }
}

// NOT KEPT: skip_tag (<= 8 ASCII bytes, name "raw", end "%}") did not finish in 200 s (str::strip_prefix with char closures).
