// Harnesses for C06: which delimiter sets `Delimiters::validate` (the gate of `set_delimiters`)
// accepts.  Child module of `delimiters`.
//
// The lexer searches delimiters with byte windows of width 2 and then calls `split_at` / slices the
// source at the offsets found: that cannot panic only if every accepted delimiter is exactly two
// bytes long AND a match can only start on a character boundary.  Both follow from what is decided
// here: an accepted delimiter is either two ASCII characters or one two-byte character, so its
// first byte is never a UTF-8 continuation byte (0x80..=0xBF).
use super::*;

/// a delimiter of 0..=3 bytes of valid UTF-8 (and its bytes)
fn any_delim() -> (Cow<'static, str>, [u8; 3], usize) {
    let raw: [u8; 3] = kani::any();
    let n: usize = kani::any();
    kani::assume(n <= 3);
    match core::str::from_utf8(&raw[..n]) {
        Ok(s) => (Cow::Owned(String::from(s)), raw, n),
        Err(_) => {
            kani::assume(false);
            unreachable!()
        }
    }
}

fn same(a: &([u8; 3], usize), b: &([u8; 3], usize)) -> bool {
    if a.1 != b.1 {
        return false;
    }
    let mut i = 0;
    while i < a.1 {
        if a.0[i] != b.0[i] {
            return false;
        }
        i += 1;
    }
    true
}

/// two ASCII characters, or one character encoded on two bytes
fn two_byte_shape(d: &([u8; 3], usize)) -> bool {
    let (b, n) = (d.0, d.1);
    n == 2 && ((b[0] < 0x80 && b[1] < 0x80) || (b[0] >= 0xC2 && b[0] <= 0xDF && b[1] >= 0x80 && b[1] <= 0xBF))
}

// killed by: `if self.comment_end.len() != 2` -> `< 2` (a 3-byte comment_end is accepted)
#[kani::proof]
#[kani::unwind(5)]
fn validate_accepts_exactly() {
    let (bs, bs_raw, bs_n) = any_delim();
    let (be, be_raw, be_n) = any_delim();
    let (vs, vs_raw, vs_n) = any_delim();
    let (ve, ve_raw, ve_n) = any_delim();
    let (cs, cs_raw, cs_n) = any_delim();
    let (ce, ce_raw, ce_n) = any_delim();
    let d = Delimiters {
        block_start: bs,
        block_end: be,
        variable_start: vs,
        variable_end: ve,
        comment_start: cs,
        comment_end: ce,
    };
    let r = d.validate();
    let all = [(bs_raw, bs_n), (be_raw, be_n), (vs_raw, vs_n), (ve_raw, ve_n), (cs_raw, cs_n), (ce_raw, ce_n)];
    let lens_ok = bs_n == 2 && be_n == 2 && vs_n == 2 && ve_n == 2 && cs_n == 2 && ce_n == 2;
    let distinct = !same(&all[0], &all[2]) && !same(&all[0], &all[4]) && !same(&all[2], &all[4]);
    // accepted iff: six delimiters of exactly 2 bytes, the three start delimiters pairwise distinct
    assert!(r.is_ok() == (lens_ok && distinct));
    if r.is_ok() {
        // the shape the byte-window search of the lexer relies on
        assert!(two_byte_shape(&all[0]) && two_byte_shape(&all[1]) && two_byte_shape(&all[2]));
        assert!(two_byte_shape(&all[3]) && two_byte_shape(&all[4]) && two_byte_shape(&all[5]));
        // in particular: the first byte of a start delimiter is not a continuation byte
        assert!(!(bs_raw[0] >= 0x80 && bs_raw[0] <= 0xBF));
        assert!(!(vs_raw[0] >= 0x80 && vs_raw[0] <= 0xBF));
        assert!(!(cs_raw[0] >= 0x80 && cs_raw[0] <= 0xBF));
    }
    std::mem::forget(r);
    std::mem::forget(d);
}

// killed by: Default::default() with `comment_start: "{%".into()` (conflicts with block_start)
#[kani::proof]
#[kani::unwind(5)]
fn default_is_accepted() {
    let d = Delimiters::default();
    let r = d.validate();
    assert!(r.is_ok());
    assert!(d.block_start.as_bytes() == b"{%" && d.block_end.as_bytes() == b"%}");
    assert!(d.variable_start.as_bytes() == b"{{" && d.variable_end.as_bytes() == b"}}");
    assert!(d.comment_start.as_bytes() == b"{#" && d.comment_end.as_bytes() == b"#}");
    std::mem::forget(r);
    std::mem::forget(d);
}
