// Bounded, structure-independent twin of the Verus unit `escape` (C01): whatever shape the body of
// escape_html takes, its output on every short input must be the documented byte-wise mapping.
// Expected behaviour (doc comment of escape_html + property C01): & -> &amp;  < -> &lt;  > -> &gt;
// " -> &quot;  ' -> &#39;  every other byte verbatim.
use super::*;

struct Buf {
    data: [u8; 24],
    len: usize,
}
impl std::io::Write for Buf {
    fn write(&mut self, b: &[u8]) -> std::io::Result<usize> {
        let mut i = 0;
        while i < b.len() {
            if self.len < 24 {
                self.data[self.len] = b[i];
                self.len += 1;
            }
            i += 1;
        }
        Ok(b.len())
    }
    fn flush(&mut self) -> std::io::Result<()> {
        Ok(())
    }
}

fn entity(b: u8) -> &'static [u8] {
    match b {
        b'&' => b"&amp;",
        b'<' => b"&lt;",
        b'>' => b"&gt;",
        b'"' => b"&quot;",
        b'\'' => b"&#39;",
        _ => b"",
    }
}

// killed by: a fast path that forgets the single quote; dropping any arm; wrong entity text
#[kani::proof]
#[kani::unwind(8)]
fn escape_html_bytes3() {
    let n: usize = kani::any();
    kani::assume(n <= 3);
    let bytes: [u8; 3] = kani::any();
    kani::assume(bytes[0] < 128 && bytes[1] < 128 && bytes[2] < 128);
    // SAFETY: ASCII bytes are valid UTF-8
    let s = unsafe { std::str::from_utf8_unchecked(&bytes[..n]) };
    let mut out = Buf { data: [0; 24], len: 0 };
    let r = escape_html(s, &mut out);
    assert!(r.is_ok());
    let mut pos = 0usize;
    let mut i = 0;
    while i < n {
        let e = entity(bytes[i]);
        if e.is_empty() {
            assert!(pos < out.len && out.data[pos] == bytes[i]);
            pos += 1;
        } else {
            let mut k = 0;
            while k < e.len() {
                assert!(pos < out.len && out.data[pos] == e[k]);
                pos += 1;
                k += 1;
            }
        }
        i += 1;
    }
    assert!(pos == out.len);
}
