// Harnesses for C02 (grouping): the binding-power tables of the Pratt parser against the
// DOCUMENTED precedence table (docs/content/_index.md, "Operator precedence", rows from lowest to
// highest binding power).  Child module of `parsing::parser`: the private fns are visible.
//
// How the Pratt loop of `inner_parse_expression(min_bp)` uses the numbers (parser.rs):
//   * after an operand, the next binary operator `op` is taken iff `!(l_bp(op) < min_bp)`;
//     its right operand is parsed with `min_bp = r_bp(op)`;
//   * hence `a op1 b op2 c` groups as `a op1 (b op2 c)` iff `l_bp(op2) >= r_bp(op1)` and as
//     `(a op1 b) op2 c` iff `l_bp(op2) < r_bp(op1)`;
//   * a prefix operator `u` parses its operand with `min_bp = r_bp(u)`: in `u a op b` the
//     operator `op` ends up inside the operand iff `l_bp(op) >= r_bp(u)`;
//   * the ternary `if` is taken iff `!(TERNARY_L_BP < min_bp)`; contexts that must not see a
//     ternary (list-comprehension value) parse with `min_bp = TERNARY_L_BP + 1`.
// (`Is` and `Pipe` do not parse their right-hand side with r_bp -- parse_test / parse_filter --
// so for op1 in {Is, Pipe} the r_bp conditions are table-level only.)
use super::*;

/// Row of the documented table, 0 = `or` (lowest binding power).  Written from the
/// documentation, not from the code.  `not` is row 2, unary `-` is row 9, postfix is row 10.
fn rank(op: BinaryOperator) -> u8 {
    use BinaryOperator::*;
    match op {
        Or => 0,
        And => 1,
        // row 2: `not`
        In | Is => 3, // `in`, `not in`, `is`, `is not`
        Equal | NotEqual | LessThan | LessThanOrEqual | GreaterThan | GreaterThanOrEqual => 4,
        Plus | Minus => 5,
        Mul | Div | FloorDiv | Mod | StrConcat => 6,
        Power => 7,
        Pipe => 8,
        // row 9: unary `-`
    }
}
const RANK_NOT: u8 = 2;
const RANK_NEG: u8 = 9;

/// The documentation gives no associativity; the conventional reading (Python/Jinja2, which the
/// docs refer to) is: every row is left-associative except `**`, which is right-associative.
fn right_assoc(op: BinaryOperator) -> bool {
    matches!(op, BinaryOperator::Power)
}

// killed by: Plus|Minus => (13,14) with Mul.. => (11,12) [swap rows]; Power => (15,16) [left-assoc];
// Pipe => (15,16) [below **]
#[kani::proof]
fn binary_pairs_follow_documented_table() {
    let op1: BinaryOperator = kani::any();
    let op2: BinaryOperator = kani::any();
    let (_, r1) = binary_binding_power(op1);
    let (l2, _) = binary_binding_power(op2);
    // true  <=> `a op1 b op2 c` parses as `a op1 (b op2 c)`
    let groups_right = l2 >= r1;
    if rank(op2) > rank(op1) {
        assert!(groups_right);
    } else if rank(op2) < rank(op1) {
        assert!(!groups_right);
    } else {
        // same row
        assert!(right_assoc(op1) == right_assoc(op2));
        assert!(groups_right == right_assoc(op1));
    }
}

// killed by: Not => ((), 3) [`not a and b` would parse as `not (a and b)`]; Not => ((), 7)
// [`not a in b` => `(not a) in b`]; Minus => ((), 16) [`-a | f` => `-(a | f)`]
#[kani::proof]
fn unary_operators_sit_on_their_documented_row() {
    let op: BinaryOperator = kani::any();
    let (l, _) = binary_binding_power(op);
    let (_, r_not) = unary_binding_power(UnaryOperator::Not);
    let (_, r_neg) = unary_binding_power(UnaryOperator::Minus);
    // `not a op b`: op inside the operand of `not` iff op is on a higher row than `not`
    assert!((l >= r_not) == (rank(op) > RANK_NOT));
    // `-a op b`: every binary operator (the filter pipe included) is on a lower row than unary
    // minus, so it is never swallowed by the operand: `(-a) op b`
    assert!(rank(op) < RANK_NEG);
    assert!(l < r_neg);
    // unary minus binds tighter than `not`
    assert!(r_neg > r_not);
}

// killed by: TERNARY_L_BP = 2 [`a or b if c else d` would put the ternary inside the `or`]
#[kani::proof]
fn ternary_binds_loosest() {
    let op: BinaryOperator = kani::any();
    let (l, r) = binary_binding_power(op);
    let (_, r_not) = unary_binding_power(UnaryOperator::Not);
    let (_, r_neg) = unary_binding_power(UnaryOperator::Minus);
    // never captured by the right operand of a binary operator or the operand of a prefix one:
    // `a op b if c else d` == `(a op b) if c else d`, `not a if c else d` == `(not a) if ..`
    assert!(TERNARY_L_BP < r);
    assert!(TERNARY_L_BP < r_not);
    assert!(TERNARY_L_BP < r_neg);
    // every binary operator is still available where the ternary is excluded
    // (min_bp = TERNARY_L_BP + 1), and that computation cannot overflow
    assert!(TERNARY_L_BP < u8::MAX);
    assert!(l >= TERNARY_L_BP + 1);
    // (top level parses with min_bp = 0, and `TERNARY_L_BP < 0` is false for a u8: accepted)
}
