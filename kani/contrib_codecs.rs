// Harnesses for C20 (urlencode / urlencode_strict).  Child module of `tera_contrib::urlencode`.
//
// The filters are `percent_encode(val.as_bytes(), SET).to_string()`; running them does not finish in
// Kani (fmt, Kwargs/State need HashMap).  What tera owns is the ENCODE SET, assembled character by
// character: it is decided here for every byte value, observed through the real iterator
// (`AsciiSet::contains` is private).  The oracle is RFC 3986 section 2.3, written as a table.
use super::*;
use percent_encoding::percent_decode;

/// RFC 3986 2.3: unreserved = ALPHA / DIGIT / "-" / "." / "_" / "~"
fn unreserved(b: u8) -> bool {
    (b >= b'A' && b <= b'Z') || (b >= b'a' && b <= b'z') || (b >= b'0' && b <= b'9') || b == b'-' || b == b'.' || b == b'_' || b == b'~'
}

fn alnum(b: u8) -> bool {
    (b >= b'A' && b <= b'Z') || (b >= b'a' && b <= b'z') || (b >= b'0' && b <= b'9')
}

fn hex_upper(n: u8) -> u8 {
    if n < 10 { b'0' + n } else { b'A' + (n - 10) }
}

/// what one byte must turn into: itself, or `%XX` with two upper-case hex digits spelling it
fn check_one(b: u8, set: &'static AsciiSet, verbatim: bool) {
    let arr = [b];
    let mut it = percent_encode(&arr, set);
    let first = it.next();
    match first {
        Some(s) => {
            let o = s.as_bytes();
            if verbatim {
                assert!(o.len() == 1 && o[0] == b);
            } else {
                assert!(o.len() == 3);
                assert!(o[0] == b'%');
                assert!(o[1] == hex_upper(b >> 4));
                assert!(o[2] == hex_upper(b & 0x0F));
            }
        }
        None => panic!("one input byte must produce output"),
    }
    assert!(it.next().is_none());
}

// killed by: PYTHON_ENCODE_SET without `.add(b'&')` (the byte 0x26 then comes out verbatim) ;
//            also by `.add(b'~')` (an unreserved character escaped)
#[kani::proof]
#[kani::unwind(4)]
fn urlencode_set_every_byte() {
    let b: u8 = kani::any();
    check_one(b, PYTHON_ENCODE_SET, unreserved(b) || b == b'/');
}

// `NON_ALPHANUMERIC` is the name as urlencode.rs resolves it (what `urlencode_strict` passes on).
// killed by: `use percent_encoding::NON_ALPHANUMERIC` replaced by a module-level
//            `const NON_ALPHANUMERIC: &AsciiSet = &percent_encoding::NON_ALPHANUMERIC.remove(b'/');`
#[kani::proof]
#[kani::unwind(4)]
fn urlencode_strict_set_every_byte() {
    let b: u8 = kani::any();
    // the strict form escapes `-._~` too: its output is alphanumerics and %XX only, which is
    // within "only unreserved characters and %XX escapes"
    check_one(b, NON_ALPHANUMERIC, alnum(b));
}

/// collects the chunks of the encoder into a fixed buffer; returns the length
fn collect(input: &[u8], set: &'static AsciiSet, out: &mut [u8; 9]) -> usize {
    let mut n = 0;
    for chunk in percent_encode(input, set) {
        for &c in chunk.as_bytes() {
            out[n] = c;
            n += 1;
        }
    }
    n
}

fn expected(input: &[u8], slash_ok: bool, strict: bool, out: &mut [u8; 9]) -> usize {
    let mut n = 0;
    let mut i = 0;
    while i < input.len() {
        let b = input[i];
        let keep = if strict { alnum(b) } else { unreserved(b) || (slash_ok && b == b'/') };
        if keep {
            out[n] = b;
            n += 1;
        } else {
            out[n] = b'%';
            out[n + 1] = hex_upper(b >> 4);
            out[n + 2] = hex_upper(b & 0x0F);
            n += 3;
        }
        i += 1;
    }
    n
}

// killed by: PYTHON_ENCODE_SET without `.add(b'%')` (then "%41" encodes to itself and decodes to "A")
#[kani::proof]
#[kani::unwind(11)]
fn urlencode_three_bytes_roundtrip() {
    let raw: [u8; 3] = kani::any();
    let len: usize = kani::any();
    kani::assume(len <= 3);
    let input = &raw[..len];
    let strict: bool = kani::any();
    let set: &'static AsciiSet = if strict { NON_ALPHANUMERIC } else { PYTHON_ENCODE_SET };
    let mut got = [0u8; 9];
    let n = collect(input, set, &mut got);
    let mut want = [0u8; 9];
    let m = expected(input, true, strict, &mut want);
    assert!(n == m);
    let mut i = 0;
    while i < n {
        assert!(got[i] == want[i]);
        // only the target alphabet
        assert!(unreserved(got[i]) || got[i] == b'%' || (!strict && got[i] == b'/'));
        i += 1;
    }
    // percent-decoding the output returns the input
    let mut d = percent_decode(&got[..n]);
    let mut j = 0;
    while j < len {
        assert!(d.next() == Some(input[j]));
        j += 1;
    }
    assert!(d.next().is_none());
}
