// Harnesses for C20 (urlencode / urlencode_strict).  Child module of `tera_contrib::urlencode`.
//
// The filters are `percent_encode(val.as_bytes(), SET).to_string()`; running them does not finish in
// Kani (fmt, Kwargs/State need HashMap).  What tera owns is the ENCODE SET, assembled character by
// character: it is decided here for every byte value, observed through the real iterator
// (`AsciiSet::contains` is private).  The oracle is RFC 3986 section 2.3, written as a table.
use super::*;

/// RFC 3986 2.3: unreserved = ALPHA / DIGIT / "-" / "." / "_" / "~"
fn unreserved(b: u8) -> bool {
    (b >= b'A' && b <= b'Z') || (b >= b'a' && b <= b'z') || (b >= b'0' && b <= b'9') || b == b'-' || b == b'.' || b == b'_' || b == b'~'
}

fn alnum(b: u8) -> bool {
    (b >= b'A' && b <= b'Z') || (b >= b'a' && b <= b'z') || (b >= b'0' && b <= b'9')
}

fn hex_upper(n: u8) -> u8 {
    if n < 10 { b'0' + n } else { b'A' + (n - 10) }
}

/// what one byte must turn into: itself, or `%XX` with two upper-case hex digits spelling it
fn check_one(b: u8, set: &'static AsciiSet, verbatim: bool) {
    let arr = [b];
    let mut it = percent_encode(&arr, set);
    let first = it.next();
    match first {
        Some(s) => {
            let o = s.as_bytes();
            if verbatim {
                assert!(o.len() == 1 && o[0] == b);
            } else {
                assert!(o.len() == 3);
                assert!(o[0] == b'%');
                assert!(o[1] == hex_upper(b >> 4));
                assert!(o[2] == hex_upper(b & 0x0F));
            }
        }
        None => panic!("one input byte must produce output"),
    }
    assert!(it.next().is_none());
}

// killed by: PYTHON_ENCODE_SET without `.add(b'%')` (a literal `%` then comes out verbatim: "%41" would decode to "A")
#[kani::proof]
#[kani::unwind(4)]
fn urlencode_set_every_byte() {
    let b: u8 = kani::any();
    check_one(b, PYTHON_ENCODE_SET, unreserved(b) || b == b'/');
}

// `NON_ALPHANUMERIC` is the name as urlencode.rs resolves it (what `urlencode_strict` passes on).
// killed by: `use percent_encoding::NON_ALPHANUMERIC` replaced by a module-level
//            `const NON_ALPHANUMERIC: &AsciiSet = &percent_encoding::NON_ALPHANUMERIC.remove(b'/');`
#[kani::proof]
#[kani::unwind(4)]
fn urlencode_strict_set_every_byte() {
    let b: u8 = kani::any();
    // the strict form escapes `-._~` too: its output is alphanumerics and %XX only, which is
    // within "only unreserved characters and %XX escapes"
    check_one(b, NON_ALPHANUMERIC, alnum(b));
}

// NOT KEPT: a <= 3-byte encode/percent_decode round trip through the real iterators (did not finish in
// 240 s), and the base64 engines (<= 3 bytes through STANDARD_DECODE / URL_SAFE_DECODE: did not finish).
