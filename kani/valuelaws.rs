// Harnesses for C15: laws of `==`, `partial_cmp`, `cmp` on scalar Values across kinds, the image of
// `Value::as_key`, and the scan predicate of `Value::get_attr`.
// (number x number pairs incl. floats are group numcmp's; composite values are out of scope.)
use super::*;

#[derive(Clone, Copy, PartialEq)]
enum Model {
    Bool(bool),
    Int(bool, u128),
    Float,
    None,
    Undefined,
}

/// rank of a kind in the fallback order of the property ("a fixed rank"): bool < number < ... < none < undefined
fn rank(m: Model) -> u8 {
    match m {
        Model::Bool(_) => 0,
        Model::Int(..) | Model::Float => 1,
        Model::None => 6,
        Model::Undefined => 7,
    }
}

fn math_cmp(a: (bool, u128), b: (bool, u128)) -> Ordering {
    let an = a.0 && a.1 != 0;
    let bn = b.0 && b.1 != 0;
    match (an, bn) {
        (false, false) => a.1.cmp(&b.1),
        (true, true) => b.1.cmp(&a.1),
        (true, false) => Ordering::Less,
        (false, true) => Ordering::Greater,
    }
}

fn any_nonfloat_scalar() -> (Value, Model) {
    let which: u8 = kani::any();
    match which {
        0 => (Value::undefined(), Model::Undefined),
        1 => (Value::none(), Model::None),
        2 => {
            let b: bool = kani::any();
            (Value::from(b), Model::Bool(b))
        }
        3 => {
            let v: u64 = kani::any();
            (Value::from(v), Model::Int(false, v as u128))
        }
        4 => {
            let v: i64 = kani::any();
            (Value::from(v), Model::Int(v < 0, v.unsigned_abs() as u128))
        }
        5 => {
            let v: u128 = kani::any();
            (Value::from(v), Model::Int(false, v))
        }
        _ => {
            let v: i128 = kani::any();
            (Value::from(v), Model::Int(v < 0, v.unsigned_abs()))
        }
    }
}

/// within-kind order (None when the kinds differ)
fn within(a: Model, b: Model) -> Option<Ordering> {
    match (a, b) {
        (Model::Undefined, Model::Undefined) | (Model::None, Model::None) => Some(Ordering::Equal),
        (Model::Bool(x), Model::Bool(y)) => Some((x as u8).cmp(&(y as u8))),
        (Model::Int(an, am), Model::Int(bn, bm)) => Some(math_cmp((an, am), (bn, bm))),
        _ => None,
    }
}

fn check_laws(a: &Value, ma: Model, b: &Value, mb: Model) {
    let w = within(ma, mb);
    // partial_cmp is None exactly across kinds
    assert!(a.partial_cmp(b) == w);
    assert!(b.partial_cmp(a) == w.map(Ordering::reverse));
    // == : reflexive, symmetric, equal only within a kind and by value
    assert!(a == a && b == b);
    assert!((a == b) == (w == Some(Ordering::Equal)));
    assert!((b == a) == (a == b));
    // cmp = lexicographic (rank(kind), value within kind): total, transitive, antisymmetric, Equal iff ==
    let want = match w {
        Some(o) => o,
        None => rank(ma).cmp(&rank(mb)),
    };
    assert!(want != Ordering::Equal || w.is_some());
    assert!(a.cmp(b) == want);
    assert!(b.cmp(a) == want.reverse());
}

// NOT A HARNESS (dropped): the all-pairs version over Undefined/None/Bool/U64/I64/U128/I128 did not
// finish in 200 s (49 kind pairs with boxed u128/i128); split it per kind pair before re-enabling.
fn value_scalar_pair_laws_unfinished() {
    let (a, ma) = any_nonfloat_scalar();
    let (b, mb) = any_nonfloat_scalar();
    check_laws(&a, ma, &b, mb);
    std::mem::forget(a);
    std::mem::forget(b);
}

// killed by: Ord for Value type_order `ValueInner::None => 6` -> `=> 0`
#[kani::proof]
#[kani::unwind(2)]
fn value_f64_vs_nonnumber() {
    let f: f64 = kani::any();
    let a = Value::from(f);
    let (b, mb) = any_nonfloat_scalar();
    kani::assume(!matches!(mb, Model::Int(..)));
    check_laws(&a, Model::Float, &b, mb);
    std::mem::forget(a);
    std::mem::forget(b);
}

// killed by: Value::as_key `ValueInner::I64(v) => Key::I64(*v)` -> `Key::U64(*v as u64)`
#[kani::proof]
#[kani::unwind(2)]
fn as_key_scalar_image() {
    let (v, m) = any_nonfloat_scalar();
    let r = v.as_key();
    match (&v.inner, &r) {
        (ValueInner::Bool(b), Ok(Key::Bool(k))) => assert!(b == k),
        (ValueInner::U64(x), Ok(Key::U64(k))) => assert!(x == k),
        (ValueInner::I64(x), Ok(Key::I64(k))) => assert!(x == k),
        (ValueInner::U128(x), Ok(Key::U128(k))) => assert!(**x == *k),
        (ValueInner::I128(x), Ok(Key::I128(k))) => assert!(**x == *k),
        (ValueInner::Undefined | ValueInner::None, Err(_)) => {}
        _ => {
            assert!(false);
        }
    }
    std::mem::forget(r);
    std::mem::forget(v);
    let f = Value::from(kani::any::<f64>());
    let rf = f.as_key();
    assert!(rf.is_err());
    std::mem::forget(rf);
    std::mem::forget(f);
}
