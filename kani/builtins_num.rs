// Harnesses for C17: the built-in tests (`is odd`, `is even`, `is divisible_by`, type tests).
// Child module of `tests` (src/tests.rs): the real test functions are called with the three
// arguments the VM gives them (value, Kwargs, &State).
use super::*;
use crate::Context;

/// `format!` -> empty String: only Ok/Err is checked on error paths, never the message text.
fn no_format(_args: std::fmt::Arguments<'_>) -> String {
    String::new()
}

fn fixed_state() -> std::hash::RandomState {
    unsafe { std::mem::transmute::<[u64; 2], std::hash::RandomState>([1, 2]) }
}

/// Association-list model of `Kwargs::get` (the real one is an `Arc<HashMap>` lookup): a non-empty
/// HashMap dropped inside the callee, plus the SipHash loops, need an unwinding bound under which
/// the (infeasible) recursive drop glue of `Value` does not finish.  The conversion of the stored
/// Value to the requested type is the real `ArgFromValue::from_value`.
static mut KW0: Option<(&'static str, &'static Value)> = None;

/// loop-free; enough to tell apart the key the harness stored from any other key
fn key_is(a: &str, b: &str) -> bool {
    let (a, b) = (a.as_bytes(), b.as_bytes());
    a.len() == b.len() && a.len() > 1 && a[0] == b[0] && a[1] == b[1] && a[a.len() - 1] == b[b.len() - 1]
}

fn kwargs_get_model<'k, T>(_kw: &'k Kwargs, key: &'k str) -> TeraResult<Option<T>>
where
    T: ArgFromValue<'k, Output = T>,
{
    let slot = unsafe { KW0 };
    if let Some((k, v)) = slot {
        if key_is(k, key) {
            return T::from_value(v).map(|x| Some(x));
        }
    }
    Ok(None)
}

fn set_kwarg(key: &'static str, v: Value) {
    let v: &'static Value = Box::leak(Box::new(v));
    unsafe {
        KW0 = Some((key, v));
    }
}

/// Parity of the mathematical value from the two's-complement bit 0 (no `%`).
fn odd_bit(u: i128) -> bool {
    (u as u128) & 1 == 1
}

// ---------------------------------------------------------------------------------------------
// odd / even

// killed by: is_odd `u % 2 == 1` (wrong for negative odd numbers); is_even `u % 2 == 1`
#[kani::proof]
#[kani::unwind(2)]
#[kani::stub(std::hash::RandomState::new, fixed_state)]
fn parity_i128() {
    let ctx = Context::new();
    let st = State::new(&ctx);
    let kw = Kwargs::default();
    let u: i128 = kani::any();
    let odd = is_odd(Number::Integer(u), kw.clone(), &st);
    let even = is_even(Number::Integer(u), kw.clone(), &st);
    assert!(matches!(odd, Ok(b) if b == odd_bit(u)));
    assert!(matches!(even, Ok(b) if b == !odd_bit(u)));
    std::mem::forget((odd, even, kw, st));
    std::mem::forget(ctx);
}

// The same through the conversion the VM applies to the receiver (`Number::from_value`) for the
// other integer encodings, full domains.
// killed by: Value::as_number `ValueInner::I64(v) => Some(Number::Integer(*v as u64 as i128))`
#[kani::proof]
#[kani::unwind(2)]
#[kani::stub(std::hash::RandomState::new, fixed_state)]
fn parity_u64_i64() {
    let ctx = Context::new();
    let st = State::new(&ctx);
    let kw = Kwargs::default();
    let x: u64 = kani::any();
    let n = <Number as ArgFromValue>::from_value(&Value::from(x)).unwrap();
    assert!(matches!(is_odd(n, kw.clone(), &st), Ok(b) if b == (x & 1 == 1)));
    assert!(matches!(is_even(n, kw.clone(), &st), Ok(b) if b == (x & 1 == 0)));
    let y: i64 = kani::any();
    let n = <Number as ArgFromValue>::from_value(&Value::from(y)).unwrap();
    assert!(matches!(is_odd(n, kw.clone(), &st), Ok(b) if b == ((y as u64) & 1 == 1)));
    assert!(matches!(is_even(n, kw.clone(), &st), Ok(b) if b == ((y as u64) & 1 == 0)));
    std::mem::forget((kw, st));
    std::mem::forget(ctx);
}

// u128 receivers: the Number handed to is_odd / is_even is the same mathematical integer, so
// parity_i128 applies.  (Calling is_odd here as well made CBMC run out of memory.)
// KEPT OUT: u128 values above i128::MAX have no Number -- `Number::from_value` fails ("out of
// range for i128"), so `{{ 170141183460469231731687303715884105729 is odd }}` is an error
// although the value is an odd number (documented limit of `Number`; reported).
// killed by: Value::as_number `ValueInner::U128(v) => i128::try_from(**v >> 1).ok().map(Number::Integer)`
#[kani::proof]
#[kani::unwind(2)]
fn receiver_number_u128() {
    let x: u128 = kani::any();
    let v = Value::from(x);
    let n = v.as_number();
    if x <= i128::MAX as u128 {
        assert!(matches!(n, Some(Number::Integer(i)) if i >= 0 && i as u128 == x));
    } else {
        assert!(n.is_none());
    }
    std::mem::forget(v);
}

// Floats: the documentation only says "true if the given variable is an odd/even number"; the
// code's contract (its error message) is that parity of a float is an error, never a guess.
// What must hold under either reading: a float receiver never yields Ok(true) unless it is an
// integral odd (resp. even) number; the code returns Err for every float, which is asserted.
// killed by: is_odd `Number::Float(u) => Ok(u % 2.0 != 0.0)`; is_even `Number::Float(_) => Ok(true)`
#[kani::proof]
#[kani::unwind(2)]
#[kani::stub(std::hash::RandomState::new, fixed_state)]
#[kani::stub(std::fmt::format, no_format)]
fn parity_float_is_error() {
    let ctx = Context::new();
    let st = State::new(&ctx);
    let kw = Kwargs::default();
    let f: f64 = kani::any();
    let n = <Number as ArgFromValue>::from_value(&Value::from(f)).unwrap();
    let odd = is_odd(n, kw.clone(), &st);
    let even = is_even(n, kw.clone(), &st);
    assert!(odd.is_err());
    assert!(even.is_err());
    std::mem::forget((odd, even, kw, st));
    std::mem::forget(ctx);
}

// ---------------------------------------------------------------------------------------------
// type tests: consistent partition

#[derive(Clone, Copy, PartialEq)]
enum Cls {
    Undefined,
    None,
    Bool,
    Integer,
    Float,
    String,
    Array,
    Map,
    Bytes,
}

fn check_type_tests(v: &Value, c: Cls, kw: &Kwargs, st: &State) {
    let string = is_string(v, kw.clone(), st);
    let number = is_number(v, kw.clone(), st);
    let integer = is_integer(v, kw.clone(), st);
    let float = is_float(v, kw.clone(), st);
    let map = is_map(v, kw.clone(), st);
    let boolean = is_bool(v, kw.clone(), st);
    let array = is_array(v, kw.clone(), st);
    let none = is_none(v, kw.clone(), st);
    let defined = is_defined(v, kw.clone(), st);
    let undefined = is_undefined(v, kw.clone(), st);
    let iterable = is_iterable(v, kw.clone(), st);
    // the laws of property C17
    assert!(number == (integer != float)); // integer xor float iff number
    assert!(!(integer && float));
    assert!(defined == !undefined);
    // each test is true exactly on its documented class
    assert!(undefined == (c == Cls::Undefined));
    assert!(none == (c == Cls::None));
    assert!(boolean == (c == Cls::Bool));
    assert!(integer == (c == Cls::Integer));
    assert!(float == (c == Cls::Float));
    assert!(string == (c == Cls::String));
    assert!(array == (c == Cls::Array));
    assert!(map == (c == Cls::Map));
    // hence: exactly one of undefined/none/bool/number/string/array/map holds (none of them for
    // bytes, which has no test and cannot be created in a template)
    let n = undefined as u8 + none as u8 + boolean as u8 + number as u8 + string as u8 + array as u8 + map as u8;
    assert!(n == if c == Cls::Bytes { 0 } else { 1 });
    // "iterable: is an array, a map or a string" (bytes, not creatable in templates, iterate too)
    if c != Cls::Bytes {
        assert!(iterable == (string || array || map));
    }
    // none is defined (only a failed lookup is undefined)
    if c == Cls::None {
        assert!(defined);
    }
}

// killed by: is_integer `val.is_number()`; is_defined `!val.is_undefined() && !val.is_none()`;
// is_float `val.is_f64() || val.is_i64()`
#[kani::proof]
#[kani::unwind(2)]
#[kani::stub(std::hash::RandomState::new, fixed_state)]
fn type_tests_partition_scalars() {
    let ctx = Context::new();
    let st = State::new(&ctx);
    let kw = Kwargs::default();
    let k: u8 = kani::any();
    let (v, c) = match k {
        0 => (Value::undefined(), Cls::Undefined),
        1 => (Value::none(), Cls::None),
        2 => (Value::from(kani::any::<bool>()), Cls::Bool),
        3 => (Value::from(kani::any::<u64>()), Cls::Integer),
        4 => (Value::from(kani::any::<i64>()), Cls::Integer),
        5 => (Value::from(kani::any::<u128>()), Cls::Integer),
        6 => (Value::from(kani::any::<i128>()), Cls::Integer),
        // 1.0 is a float, not an integer
        _ => (Value::from(kani::any::<f64>()), Cls::Float),
    };
    check_type_tests(&v, c, &kw, &st);
    std::mem::forget((v, kw, st));
    std::mem::forget(ctx);
}

// killed by: is_iterable without `val.is_string()`; is_string `val.is_string() || val.is_bytes()`
#[kani::proof]
#[kani::unwind(2)]
#[kani::stub(std::hash::RandomState::new, fixed_state)]
fn type_tests_partition_containers() {
    let ctx = Context::new();
    let st = State::new(&ctx);
    let kw = Kwargs::default();
    let k: u8 = kani::any();
    let mut buf = [0u8; 4];
    let (v, c) = match k {
        // "" and every one-char string, both kinds (loop-free construction: unwind(2), see above)
        0 => {
            let s: &str = if kani::any() { "" } else { kani::any::<char>().encode_utf8(&mut buf) };
            (if kani::any() { Value::normal_string(s) } else { Value::safe_string(s) }, Cls::String)
        }
        1 => (Value::from(Vec::<Value>::new()), Cls::Array),
        2 => (Value::from(vec![Value::from(kani::any::<i64>())]), Cls::Array),
        3 => (Value::bytes(Vec::<u8>::new()), Cls::Bytes),
        4 => (Value::bytes(vec![kani::any::<u8>()]), Cls::Bytes),
        _ => (Value::from(crate::value::ValueInner::Map(Arc::new(crate::value::Map::new()))), Cls::Map),
    };
    check_type_tests(&v, c, &kw, &st);
    std::mem::forget((v, kw, st));
    std::mem::forget(ctx);
}

// ---------------------------------------------------------------------------------------------
// divisible_by(divisor=d)
//
// Documentation: "Returns true if the given expression is divisible by the arg given."  Nothing
// is said about a zero divisor; the code's choice (false, no error, no panic) is the usual
// convention and is what is asserted.

/// `divisor=d` in the association-list model; the Kwargs handed to the test is the empty one
fn divisor_kwargs(d: i128) -> Kwargs {
    set_kwarg("divisor", Value::from(d));
    Kwargs::default()
}

// Total and panic-free on the whole i128 x i128 domain, with the cases that need no division
// oracle decided exactly: d == 0 => false; d == 1 / -1 => true (i128::MIN / -1 included, where
// checked_rem_euclid overflows); u == 0 => true; u == d, u == -d => true; 0 < |u| < |d| => false.
// killed by: `None => Ok(false)` for the overflow case; `if divisor == 0 { return Ok(true) }`;
// `Ok(r != 0)`
#[kani::proof]
#[kani::unwind(2)]
#[kani::stub(std::hash::RandomState::new, fixed_state)]
#[kani::stub(crate::args::Kwargs::get, kwargs_get_model)]
fn divisible_by_total_and_edges() {
    let ctx = Context::new();
    let st = State::new(&ctx);
    let u: i128 = kani::any();
    let d: i128 = kani::any();
    let kw = divisor_kwargs(d);
    let res = is_divisible_by(Number::Integer(u), kw.clone(), &st);
    assert!(res.is_ok());
    let got = matches!(res, Ok(true));
    if d == 0 {
        assert!(!got);
    } else if d == 1 || d == -1 || u == 0 || u == d || u.unsigned_abs() == d.unsigned_abs() {
        assert!(got);
    } else if u.unsigned_abs() < d.unsigned_abs() {
        assert!(!got);
    }
    std::mem::forget((res, kw, st));
    std::mem::forget(ctx);
}

// Exact divisibility of the mathematical values on a reduced domain.
// killed by: `Ok(r != 0)`; `u.checked_rem(divisor)` compared with `Some(1)`
#[kani::proof]
#[kani::unwind(2)]
#[kani::stub(std::hash::RandomState::new, fixed_state)]
#[kani::stub(crate::args::Kwargs::get, kwargs_get_model)]
fn divisible_by_exact_i16() {
    let ctx = Context::new();
    let st = State::new(&ctx);
    let u: i16 = kani::any();
    let d: i16 = kani::any();
    let kw = divisor_kwargs(d as i128);
    let res = is_divisible_by(Number::Integer(u as i128), kw.clone(), &st);
    // oracle on the magnitudes, in 32-bit unsigned arithmetic
    let want = d != 0 && (u.unsigned_abs() as u32) % (d.unsigned_abs() as u32) == 0;
    assert!(matches!(res, Ok(b) if b == want));
    std::mem::forget((res, kw, st));
    std::mem::forget(ctx);
}

// The same on the i8 domain (quick tier).
// killed by: `Ok(r != 0)`; `u.checked_rem(divisor)` compared with `Some(1)`
#[kani::proof]
#[kani::unwind(2)]
#[kani::stub(std::hash::RandomState::new, fixed_state)]
#[kani::stub(crate::args::Kwargs::get, kwargs_get_model)]
fn divisible_by_exact_i8() {
    let ctx = Context::new();
    let st = State::new(&ctx);
    let u: i8 = kani::any();
    let d: i8 = kani::any();
    let kw = divisor_kwargs(d as i128);
    let res = is_divisible_by(Number::Integer(u as i128), kw.clone(), &st);
    // oracle on the magnitudes, in 32-bit unsigned arithmetic
    let want = d != 0 && (u.unsigned_abs() as u32) % (d.unsigned_abs() as u32) == 0;
    assert!(matches!(res, Ok(b) if b == want));
    std::mem::forget((res, kw, st));
    std::mem::forget(ctx);
}

/* NOT KEPT (never run to completion: equivalence of two 128-bit dividers)
// Full-width exact divisibility against an independent magnitude oracle (two 128-bit dividers:
// expensive for the SAT solver).
#[kani::proof]
#[kani::unwind(2)]
#[kani::stub(std::hash::RandomState::new, fixed_state)]
#[kani::stub(crate::args::Kwargs::get, kwargs_get_model)]
fn divisible_by_exact_i128() {
    let ctx = Context::new();
    let st = State::new(&ctx);
    let u: i128 = kani::any();
    let d: i128 = kani::any();
    let kw = divisor_kwargs(d);
    let res = is_divisible_by(Number::Integer(u), kw.clone(), &st);
    let want = d != 0 && u.unsigned_abs() % d.unsigned_abs() == 0;
    assert!(matches!(res, Ok(b) if b == want));
    std::mem::forget((res, kw, st));
    std::mem::forget(ctx);
}

*/

// killed by: `Number::Float(u) => Ok(u % (divisor as f64) == 0.0)`
#[kani::proof]
#[kani::unwind(2)]
#[kani::stub(std::hash::RandomState::new, fixed_state)]
#[kani::stub(crate::args::Kwargs::get, kwargs_get_model)]
#[kani::stub(std::fmt::format, no_format)]
fn divisible_by_float_is_error() {
    let ctx = Context::new();
    let st = State::new(&ctx);
    let f: f64 = kani::any();
    let d: i128 = kani::any();
    kani::assume(d != 0);
    let kw = divisor_kwargs(d);
    let res = is_divisible_by(Number::Float(f), kw.clone(), &st);
    assert!(res.is_err());
    std::mem::forget((res, kw, st));
    std::mem::forget(ctx);
}

// killed by: `let divisor = kwargs.get::<i128>("divisor")?.unwrap_or(1);`
#[kani::proof]
#[kani::unwind(2)]
#[kani::stub(std::hash::RandomState::new, fixed_state)]
#[kani::stub(crate::args::Kwargs::get, kwargs_get_model)]
fn divisible_by_requires_divisor() {
    let ctx = Context::new();
    let st = State::new(&ctx);
    let kw = Kwargs::default();
    // no `divisor` argument, or one that is not an integer: an error, not a default
    let u: i128 = kani::any();
    let res = is_divisible_by(Number::Integer(u), kw.clone(), &st);
    assert!(res.is_err());
    std::mem::forget(res);
    set_kwarg("divisor", Value::from(kani::any::<bool>()));
    let res = is_divisible_by(Number::Integer(u), kw.clone(), &st);
    assert!(res.is_err());
    std::mem::forget((res, kw, st));
    std::mem::forget(ctx);
}
