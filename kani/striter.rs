// Harness for C14 (strings are sequences of characters, not bytes, when iterated): the String arm of
// ForLoopIterator::next.  Expected behaviour from the property: "iteration over a string yields its
// characters in order" — for every width of UTF-8 encoding.  Child module of `vm::for_loop`.
use super::*;

// killed by: computing the width from the lead byte with the 4-byte case forgotten; cutting at byte 1
#[kani::proof]
#[kani::unwind(6)]
fn string_iter_first_char_4_bytes() {
    let c: char = kani::any();
    kani::assume(c as u32 >= 0x10000);
    let mut buf = [0u8; 4];
    let w = c.encode_utf8(&mut buf).len();
    assert!(w == 4);
    // SAFETY: one encoded char
    let s: &str = unsafe { std::str::from_utf8_unchecked(&buf) };
    let content: Arc<str> = Arc::from(s);
    let mut it = ForLoopIterator::String { content, current_pos: 0, remaining: 1 };
    let got = it.next();
    match got {
        Some((None, v)) => {
            let vs = v.as_str().unwrap();
            assert!(vs.len() == 4);
            let vb = vs.as_bytes();
            assert!(vb[0] == buf[0] && vb[1] == buf[1] && vb[2] == buf[2] && vb[3] == buf[3]);
            std::mem::forget(v);
        }
        _ => assert!(false),
    }
    if let ForLoopIterator::String { current_pos, remaining, .. } = &it {
        assert!(*current_pos == 4);
        assert!(*remaining == 0);
    }
    std::mem::forget(it);
}
