// Harness for C14 (strings are sequences of characters, not bytes, when iterated): the String arm of
// ForLoopIterator::next.  Expected behaviour from the property: "iteration over a string yields its
// characters in order" — for every width of UTF-8 encoding.  Child module of `vm::for_loop`.
use super::*;

// killed by: computing the width from the lead byte with the 4-byte case forgotten; cutting at byte 1
#[kani::proof]
#[kani::unwind(7)]
fn string_iter_first_char_any_width() {
    let c: char = kani::any();
    let mut buf = [0u8; 5];
    let w = c.encode_utf8(&mut buf[..4]).len();
    let tail: bool = kani::any();
    let t: u8 = kani::any();
    kani::assume(t < 128);
    let n = if tail {
        buf[w] = t;
        w + 1
    } else {
        w
    };
    // SAFETY: one encoded char followed by at most one ASCII byte
    let s: &str = unsafe { std::str::from_utf8_unchecked(&buf[..n]) };
    let content: Arc<str> = Arc::from(s);
    let mut it = ForLoopIterator::String { content, current_pos: 0, remaining: if tail { 2 } else { 1 } };
    let got = it.next();
    match got {
        Some((None, v)) => {
            let vs = v.as_str().unwrap();
            assert!(vs.len() == w);
            let vb = vs.as_bytes();
            let mut i = 0;
            while i < w {
                assert!(vb[i] == buf[i]);
                i += 1;
            }
            std::mem::forget(v);
        }
        _ => assert!(false),
    }
    if let ForLoopIterator::String { current_pos, remaining, .. } = &it {
        assert!(*current_pos == w);
        assert!(*remaining == if tail { 1 } else { 0 });
    }
    std::mem::forget(it);
}
