// Harnesses for C15: laws of map keys (`Key`, `KeyNumber`): equality by mathematical value across
// widths/signedness, total order, hash stream determined by the equality class.
use super::*;

/// Records what `Hash::hash` feeds to the hasher, without heap: up to 4 events (kind, payload).
/// kind 1 = write_u8, 2 = write_u128/write_i128, 3 = raw bytes (<= 2 bytes packed with the length).
struct Rec {
    ev: [(u8, u128); 4],
    n: usize,
}
impl Rec {
    fn new() -> Self {
        Rec { ev: [(0, 0); 4], n: 0 }
    }
    fn push(&mut self, k: u8, v: u128) {
        if self.n < 4 {
            self.ev[self.n] = (k, v);
        }
        self.n += 1;
    }
    fn same(&self, o: &Rec) -> bool {
        self.n <= 4
            && self.n == o.n
            && (self.n < 1 || self.ev[0] == o.ev[0])
            && (self.n < 2 || self.ev[1] == o.ev[1])
            && (self.n < 3 || self.ev[2] == o.ev[2])
            && (self.n < 4 || self.ev[3] == o.ev[3])
    }
}
impl Hasher for Rec {
    fn finish(&self) -> u64 {
        0
    }
    fn write(&mut self, bytes: &[u8]) {
        // only reached for string contents (<= 2 bytes in these harnesses)
        let l = bytes.len();
        assert!(l <= 2);
        let b0 = if l > 0 { bytes[0] as u128 } else { 0 };
        let b1 = if l > 1 { bytes[1] as u128 } else { 0 };
        self.push(3, (l as u128) << 16 | b0 << 8 | b1);
    }
    fn write_u8(&mut self, i: u8) {
        self.push(1, i as u128);
    }
    fn write_u128(&mut self, i: u128) {
        self.push(2, i);
    }
    fn write_i128(&mut self, i: i128) {
        self.push(2, i as u128);
    }
}

fn stream<T: Hash>(x: &T) -> Rec {
    let mut r = Rec::new();
    x.hash(&mut r);
    r
}

/// mathematical order of (-1)^neg * mag values
fn math_cmp(a: (bool, u128), b: (bool, u128)) -> Ordering {
    let an = a.0 && a.1 != 0;
    let bn = b.0 && b.1 != 0;
    match (an, bn) {
        (false, false) => a.1.cmp(&b.1),
        (true, true) => b.1.cmp(&a.1),
        (true, false) => Ordering::Less,
        (false, true) => Ordering::Greater,
    }
}

fn any_keynumber() -> (KeyNumber, (bool, u128)) {
    if kani::any() {
        let v: i128 = kani::any();
        (KeyNumber::Signed(v), (v < 0, v.unsigned_abs()))
    } else {
        let v: u128 = kani::any();
        (KeyNumber::Unsigned(v), (false, v))
    }
}

// killed by: KeyNumber::eq (Signed, Unsigned) arm `if a < 0 { false }` -> `if a <= 0 { false }`
#[kani::proof]
#[kani::unwind(2)]
fn keynumber_eq_cmp_hash() {
    let (a, ma) = any_keynumber();
    let (b, mb) = any_keynumber();
    let want = math_cmp(ma, mb);
    assert!((a == b) == (want == Ordering::Equal));
    assert!(a.cmp(&b) == want);
    assert!(a.partial_cmp(&b) == Some(want));
    assert!(b.cmp(&a) == want.reverse());
    if want == Ordering::Equal {
        assert!(stream(&a).same(&stream(&b)));
    }
}

// ---------------------------------------------------------------------------------------------
// Key: scalar representations over their full domain

#[derive(Clone, Copy)]
enum Model {
    Bool(bool),
    Num(bool, u128),
}

fn any_scalar_key() -> (Key<'static>, Model) {
    let which: u8 = kani::any();
    match which {
        0 => {
            let b: bool = kani::any();
            (Key::Bool(b), Model::Bool(b))
        }
        1 => {
            let v: u64 = kani::any();
            (Key::U64(v), Model::Num(false, v as u128))
        }
        2 => {
            let v: i64 = kani::any();
            (Key::I64(v), Model::Num(v < 0, v.unsigned_abs() as u128))
        }
        3 => {
            let v: u128 = kani::any();
            (Key::U128(v), Model::Num(false, v))
        }
        _ => {
            let v: i128 = kani::any();
            (Key::I128(v), Model::Num(v < 0, v.unsigned_abs()))
        }
    }
}

/// the order the property asks for: a fixed rank per kind (bool < number < string), then the value
fn model_cmp(a: Model, b: Model) -> Ordering {
    match (a, b) {
        (Model::Bool(x), Model::Bool(y)) => (x as u8).cmp(&(y as u8)),
        (Model::Bool(_), Model::Num(..)) => Ordering::Less,
        (Model::Num(..), Model::Bool(_)) => Ordering::Greater,
        (Model::Num(an, am), Model::Num(bn, bm)) => math_cmp((an, am), (bn, bm)),
    }
}

// killed by: KeyNumber::eq (Signed, Unsigned) arm `if a < 0 { false }` -> `if a <= 0 { false }` (Key::I64(0) != Key::U64(0))
#[kani::proof]
#[kani::unwind(2)]
fn key_scalar_pair_laws() {
    let (a, ma) = any_scalar_key();
    let (b, mb) = any_scalar_key();
    let want = model_cmp(ma, mb);
    // == is equality of the mathematical value within a kind, never across bool/number
    assert!((a == b) == (want == Ordering::Equal));
    assert!((b == a) == (a == b));
    assert!(a == a);
    // cmp is the lexicographic (rank, value) order: total, transitive, antisymmetric, Equal iff ==
    assert!(a.cmp(&b) == want);
    assert!(b.cmp(&a) == want.reverse());
    assert!(a.partial_cmp(&b) == Some(want));
    // equal keys feed the same bytes to the hasher, whatever their width
    if want == Ordering::Equal {
        assert!(stream(&a).same(&stream(&b)));
    }
}

// ---------------------------------------------------------------------------------------------
// Key: string representations (bounded: <= 2 bytes of valid UTF-8)

fn valid_utf8_le2(b: [u8; 2], n: usize) -> bool {
    match n {
        0 => true,
        1 => b[0] < 0x80,
        2 => (b[0] < 0x80 && b[1] < 0x80) || (b[0] >= 0xC2 && b[0] <= 0xDF && b[1] & 0xC0 == 0x80),
        _ => false,
    }
}

fn any_bytes_le2() -> ([u8; 2], usize) {
    let b: [u8; 2] = kani::any();
    let n: usize = kani::any();
    kani::assume(n <= 2);
    kani::assume(valid_utf8_le2(b, n));
    (b, n)
}

/// byte-wise lexicographic order of two strings of <= 2 bytes (the order of `str`)
fn bytes_cmp(a: ([u8; 2], usize), b: ([u8; 2], usize)) -> Ordering {
    let (x, n) = a;
    let (y, m) = b;
    if n > 0 && m > 0 && x[0] != y[0] {
        return x[0].cmp(&y[0]);
    }
    if n == 0 || m == 0 {
        return n.cmp(&m);
    }
    if n > 1 && m > 1 && x[1] != y[1] {
        return x[1].cmp(&y[1]);
    }
    n.cmp(&m)
}

// killed by: Key::hash `if let Some(s) = self.as_str()` -> `if let Key::String(s) = self` (a borrowed Str hashes nothing)
#[kani::proof]
#[kani::unwind(4)]
fn key_str_vs_string() {
    let (x, n) = any_bytes_le2();
    let (y, m) = any_bytes_le2();
    // SAFETY: valid_utf8_le2 was assumed
    let sx = unsafe { std::str::from_utf8_unchecked(&x[..n]) };
    let sy = unsafe { std::str::from_utf8_unchecked(&y[..m]) };
    let want = bytes_cmp((x, n), (y, m));
    let borrowed_x = Key::Str(sx);
    let owned_x = Key::String(Arc::from(sx));
    let borrowed_y = Key::Str(sy);
    let owned_y = Key::String(Arc::from(sy));
    // same text, owned or borrowed: equal, Equal, same hash stream
    assert!(borrowed_x == owned_x && owned_x == borrowed_x);
    assert!(borrowed_x.cmp(&owned_x) == Ordering::Equal);
    assert!(stream(&borrowed_x).same(&stream(&owned_x)));
    // any two texts, in the four owned/borrowed combinations
    assert!((borrowed_x == borrowed_y) == (want == Ordering::Equal));
    assert!((borrowed_x == owned_y) == (want == Ordering::Equal));
    assert!((owned_x == borrowed_y) == (want == Ordering::Equal));
    assert!((owned_x == owned_y) == (want == Ordering::Equal));
    assert!(borrowed_x.cmp(&borrowed_y) == want);
    assert!(borrowed_x.cmp(&owned_y) == want);
    assert!(owned_x.cmp(&borrowed_y) == want);
    assert!(owned_x.cmp(&owned_y) == want);
    assert!(owned_y.cmp(&borrowed_x) == want.reverse());
    if want == Ordering::Equal {
        assert!(stream(&borrowed_x).same(&stream(&owned_y)));
    }
    std::mem::forget(owned_x);
    std::mem::forget(owned_y);
}

// killed by: key.rs type_order `Key::String(_) | Key::Str(_) => 2` -> `=> 0`
#[kani::proof]
#[kani::unwind(4)]
fn key_string_vs_scalar() {
    let (x, n) = any_bytes_le2();
    // SAFETY: valid_utf8_le2 was assumed
    let sx = unsafe { std::str::from_utf8_unchecked(&x[..n]) };
    let (k, _) = any_scalar_key();
    let borrowed = Key::Str(sx);
    let owned = Key::String(Arc::from(sx));
    // a string key never equals a bool or a number key, and sorts after it, both ways round
    assert!(borrowed != k && k != borrowed && owned != k && k != owned);
    assert!(k.cmp(&borrowed) == Ordering::Less && borrowed.cmp(&k) == Ordering::Greater);
    assert!(k.cmp(&owned) == Ordering::Less && owned.cmp(&k) == Ordering::Greater);
    std::mem::forget(owned);
}
