// Harnesses for C13: exact mixed comparison.  Child module of `value`, so private items are visible.
use super::*;
use std::cmp::Ordering;

/// Exact order of a non-NaN f64 `x` against the integer (-1)^neg * mag, computed from the IEEE
/// bit pattern with integer shifts only (independent of the float operations the code uses).
/// NaN => Greater (the documented convention: NaN sorts after every number).
pub(crate) fn exact_f64_int(x: f64, neg: bool, mag: u128) -> Ordering {
    let bits = x.to_bits();
    let s = (bits >> 63) != 0;
    let exp = ((bits >> 52) & 0x7ff) as i32;
    let man = bits & ((1u64 << 52) - 1);
    if exp == 0x7ff {
        if man != 0 {
            return Ordering::Greater; // NaN
        }
        return if s { Ordering::Less } else { Ordering::Greater };
    }
    let (m, e): (u64, i32) = if exp == 0 { (man, -1074) } else { (man | (1u64 << 52), exp - 1075) };
    let int_neg = neg && mag != 0;
    if m == 0 {
        // x is +0.0 or -0.0
        return if mag == 0 { Ordering::Equal } else if int_neg { Ordering::Greater } else { Ordering::Less };
    }
    if s && !int_neg {
        return Ordering::Less;
    }
    if !s && int_neg {
        return Ordering::Greater;
    }
    // same sign (or integer zero with positive x): compare magnitudes
    let mag_ord = if e >= 0 {
        if e > 75 {
            Ordering::Greater
        } else {
            ((m as u128) << (e as u32)).cmp(&mag)
        }
    } else {
        let sh = (-e) as u32;
        if sh >= 64 {
            // 0 < |x| < 1
            if mag == 0 { Ordering::Greater } else { Ordering::Less }
        } else {
            let ip = (m >> sh) as u128;
            let frac = (m & ((1u64 << sh) - 1)) != 0;
            match ip.cmp(&mag) {
                Ordering::Equal if frac => Ordering::Greater,
                o => o,
            }
        }
    };
    if s { mag_ord.reverse() } else { mag_ord }
}

#[derive(Clone, Copy)]
enum M {
    I(bool, u128),
    F(f64),
}

fn int_cmp(an: bool, am: u128, bn: bool, bm: u128) -> Ordering {
    let an = an && am != 0;
    let bn = bn && bm != 0;
    match (an, bn) {
        (false, false) => am.cmp(&bm),
        (true, true) => bm.cmp(&am),
        (true, false) => Ordering::Less,
        (false, true) => Ordering::Greater,
    }
}

/// mathematical order with NaN == NaN and NaN after every number
fn math_cmp(a: M, b: M) -> Ordering {
    match (a, b) {
        (M::I(an, am), M::I(bn, bm)) => int_cmp(an, am, bn, bm),
        (M::F(x), M::I(n, m)) => exact_f64_int(x, n, m),
        (M::I(n, m), M::F(x)) => exact_f64_int(x, n, m).reverse(),
        (M::F(x), M::F(y)) => {
            if x.is_nan() && y.is_nan() {
                Ordering::Equal
            } else if x.is_nan() {
                Ordering::Greater
            } else if y.is_nan() {
                Ordering::Less
            } else if x < y {
                Ordering::Less
            } else if x > y {
                Ordering::Greater
            } else {
                Ordering::Equal
            }
        }
    }
}

trait Enc: Copy {
    fn m(self) -> M;
    fn v(self) -> Value;
}
impl Enc for u64 {
    fn m(self) -> M { M::I(false, self as u128) }
    fn v(self) -> Value { Value::from(self) }
}
impl Enc for i64 {
    fn m(self) -> M { M::I(self < 0, self.unsigned_abs() as u128) }
    fn v(self) -> Value { Value::from(self) }
}
impl Enc for u128 {
    fn m(self) -> M { M::I(false, self) }
    fn v(self) -> Value { Value::from(self) }
}
impl Enc for i128 {
    fn m(self) -> M { M::I(self < 0, self.unsigned_abs()) }
    fn v(self) -> Value { Value::from(self) }
}
impl Enc for f64 {
    fn m(self) -> M { M::F(self) }
    fn v(self) -> Value { Value::from(self) }
}

fn check_pair<A: Enc, B: Enc>(a: A, b: B) {
    let va = a.v();
    let vb = b.v();
    let want = math_cmp(a.m(), b.m());
    assert!((va == vb) == (want == Ordering::Equal));
    assert!((vb == va) == (want == Ordering::Equal));
    assert!(va.partial_cmp(&vb) == Some(want));
    assert!(vb.partial_cmp(&va) == Some(want.reverse()));
    assert!(va.cmp(&vb) == want);
    std::mem::forget(va);
    std::mem::forget(vb);
}

macro_rules! pair {
    ($name:ident, $a:ty, $b:ty) => {
        #[kani::proof]
        #[kani::unwind(2)]
        fn $name() {
            check_pair::<$a, $b>(kani::any(), kani::any());
        }
    };
}
/// The postconditions of the two in-place contracts, as functions: the float x integer pair
/// harnesses see `cmp_f64_to_i128` / `cmp_f64_to_u128` only through their (proved) contracts.
/// This is `stub_verified` done by hand: Kani's own needs an `Arbitrary` return type and
/// `Ordering` has none.
fn contract_of_cmp_f64_to_i128(x: f64, n: i128) -> Ordering {
    exact_f64_int(x, n < 0, n.unsigned_abs())
}
fn contract_of_cmp_f64_to_u128(x: f64, n: u128) -> Ordering {
    exact_f64_int(x, false, n)
}
macro_rules! pair_stubbed {
    ($name:ident, $a:ty, $b:ty) => {
        #[kani::proof]
        #[kani::unwind(2)]
        #[kani::stub(crate::value::cmp_f64_to_i128, contract_of_cmp_f64_to_i128)]
        #[kani::stub(crate::value::cmp_f64_to_u128, contract_of_cmp_f64_to_u128)]
        fn $name() {
            check_pair::<$a, $b>(kani::any(), kani::any());
        }
    };
}
pair!(pair_u64_u64, u64, u64);
pair!(pair_u64_i64, u64, i64);
pair!(pair_u64_u128, u64, u128);
pair!(pair_u64_i128, u64, i128);
pair_stubbed!(pair_u64_f64, u64, f64);
pair!(pair_i64_u64, i64, u64);
pair!(pair_i64_i64, i64, i64);
pair!(pair_i64_u128, i64, u128);
pair!(pair_i64_i128, i64, i128);
pair_stubbed!(pair_i64_f64, i64, f64);
pair!(pair_u128_u64, u128, u64);
pair!(pair_u128_i64, u128, i64);
pair!(pair_u128_u128, u128, u128);
pair!(pair_u128_i128, u128, i128);
pair_stubbed!(pair_u128_f64, u128, f64);
pair!(pair_i128_u64, i128, u64);
pair!(pair_i128_i64, i128, i64);
pair!(pair_i128_u128, i128, u128);
pair!(pair_i128_i128, i128, i128);
pair_stubbed!(pair_i128_f64, i128, f64);
pair_stubbed!(pair_f64_u64, f64, u64);
pair_stubbed!(pair_f64_i64, f64, i64);
pair_stubbed!(pair_f64_u128, f64, u128);
pair_stubbed!(pair_f64_i128, f64, i128);
pair!(pair_f64_f64, f64, f64);

// The contracts of the two comparators, proved against the real bodies.  (Kani refuses to compile
// a crate in which a function carries `kani::ensures` *and* is the target of `kani::stub` in
// another harness, so the postcondition is asserted here instead of being attached in place.)
#[kani::proof]
fn contract_cmp_f64_to_i128() {
    let x: f64 = kani::any();
    let n: i128 = kani::any();
    assert!(cmp_f64_to_i128(x, n) == contract_of_cmp_f64_to_i128(x, n));
}

#[kani::proof]
fn contract_cmp_f64_to_u128() {
    let x: f64 = kani::any();
    let n: u128 = kani::any();
    assert!(cmp_f64_to_u128(x, n) == contract_of_cmp_f64_to_u128(x, n));
}

#[kani::proof]
fn is_zero_exact() {
    let f: f64 = kani::any();
    let z = Number::Float(f).is_zero();
    let bits = f.to_bits();
    assert!(z == (bits == 0 || bits == (1u64 << 63)));
    let i: i128 = kani::any();
    assert!(Number::Integer(i).is_zero() == (i == 0));
}

#[kani::proof]
fn as_integer_exact() {
    let f: f64 = kani::any();
    match Number::Float(f).as_integer() {
        Some(i) => {
            assert!(!f.is_nan());
            assert!(exact_f64_int(f, i < 0, i.unsigned_abs()) == Ordering::Equal);
        }
        None => {
            // no i128 equals f: either not finite, not integral, or outside [-2^127, 2^127)
            let i: i128 = kani::any();
            assert!(f.is_nan() || exact_f64_int(f, i < 0, i.unsigned_abs()) != Ordering::Equal);
        }
    }
    let i: i128 = kani::any();
    assert!(Number::Integer(i).as_integer() == Some(i));
}

/// The integer accessors of Value answer with the SAME mathematical integer or with None when it does not
/// fit the asked type - for every integer of every representation (loop-free, full domain: a proof).
/// as_number: an integer that fits i128 as that integer, a u128 beyond i128::MAX as None.
fn check_int_accessors<A: Enc>(a: A, neg: bool, mag: u128) {
    // (neg, mag) is the mathematical value of `a` (sign, magnitude); -0 is written (false, 0)
    let v = a.v();
    let fits_i128 = if neg { mag <= (1u128 << 127) } else { mag < (1u128 << 127) };
    match v.as_i128() {
        Some(x) => assert!(fits_i128 && (x < 0) == neg && x.unsigned_abs() == mag),
        None => assert!(!fits_i128),
    }
    match v.as_u128() {
        Some(x) => assert!(!neg && x == mag),
        None => assert!(neg),
    }
    let fits_i64 = if neg { mag <= (1u128 << 63) } else { mag < (1u128 << 63) };
    match v.as_i64() {
        Some(x) => assert!(fits_i64 && (x < 0) == neg && x.unsigned_abs() as u128 == mag),
        None => assert!(!fits_i64),
    }
    match v.as_u64() {
        Some(x) => assert!(!neg && x as u128 == mag),
        None => assert!(neg || mag > u64::MAX as u128),
    }
    match v.as_number() {
        Some(Number::Integer(x)) => assert!(fits_i128 && (x < 0) == neg && x.unsigned_abs() == mag),
        Some(Number::Float(_)) => assert!(false),
        None => assert!(!fits_i128),
    }
    std::mem::forget(v);
}

#[kani::proof]
#[kani::unwind(2)]
fn int_accessors_exact() {
    let a: u64 = kani::any();
    check_int_accessors(a, false, a as u128);
    let b: i64 = kani::any();
    check_int_accessors(b, b < 0, b.unsigned_abs() as u128);
    let c: u128 = kani::any();
    check_int_accessors(c, false, c);
    let d: i128 = kani::any();
    check_int_accessors(d, d < 0, d.unsigned_abs());
}
