// Harnesses for C02 (operand types): truthiness table, `in` on non-containers, arithmetic on
// non-numbers.  Child module of `value`.
use super::*;
use crate::value::number::{add, div, floor_div, mul, negate, pow, rem, sub};

/// `format!` is replaced by this in the harnesses that reach an error path: only Ok/Err is
/// checked, never the text of the message (fmt machinery does not finish under CBMC).
fn no_format(_args: std::fmt::Arguments<'_>) -> String {
    String::new()
}

fn fixed_state() -> std::hash::RandomState {
    // SAFETY: RandomState is two u64 keys
    unsafe { std::mem::transmute::<[u64; 2], std::hash::RandomState>([1, 2]) }
}

/// undefined, none or a bool: the scalar kinds that are not numbers
fn any_non_number() -> Value {
    let k: u8 = kani::any();
    match k {
        0 => Value::undefined(),
        1 => Value::none(),
        _ => Value::from(kani::any::<bool>()),
    }
}

/// any number, every encoding, full domain
fn any_number() -> Value {
    let k: u8 = kani::any();
    match k {
        0 => Value::from(kani::any::<u64>()),
        1 => Value::from(kani::any::<i64>()),
        2 => Value::from(kani::any::<u128>()),
        3 => Value::from(kani::any::<i128>()),
        _ => Value::from(kani::any::<f64>()),
    }
}

fn any_scalar() -> Value {
    if kani::any() { any_non_number() } else { any_number() }
}

// ---------------------------------------------------------------------------------------------
// truthiness.  Documented falsy set: "Undefined variables are considered falsy"; conditionals
// "are identical to the ones in Python" (None, False, zero of any numeric type, empty
// string/array/map are false; NaN is true); doc comment of is_truthy: "not empty
// map/arrays/string and numbers different from 0".

// killed by: `ValueInner::None => true`; `ValueInner::F64(v) => !v.is_nan() && *v != 0.0`;
// `ValueInner::I64(v) => *v > 0`
#[kani::proof]
#[kani::unwind(2)]
fn truthy_scalars() {
    let u = Value::undefined();
    assert!(!u.is_truthy());
    let n = Value::none();
    assert!(!n.is_truthy());
    let b: bool = kani::any();
    assert!(Value::from(b).is_truthy() == b);
    let x: u64 = kani::any();
    assert!(Value::from(x).is_truthy() == (x != 0));
    let x: i64 = kani::any();
    assert!(Value::from(x).is_truthy() == (x != 0));
    let x: u128 = kani::any();
    let v = Value::from(x);
    assert!(v.is_truthy() == (x != 0));
    std::mem::forget(v);
    let x: i128 = kani::any();
    let v = Value::from(x);
    assert!(v.is_truthy() == (x != 0));
    std::mem::forget(v);
    // floats, bit level: only +0.0 and -0.0 are falsy; NaN, infinities, subnormals are truthy
    let f: f64 = kani::any();
    let is_zero = (f.to_bits() << 1) == 0;
    assert!(Value::from(f).is_truthy() == !is_zero);
}

// killed by: `ValueInner::String(v) => true`; `ValueInner::Array(v) => v.is_empty()`
#[kani::proof]
#[kani::unwind(6)]
#[kani::stub(std::hash::RandomState::new, fixed_state)]
fn truthy_containers() {
    // strings of 0..=3 bytes (valid UTF-8), both kinds
    let bytes: [u8; 3] = kani::any();
    let len: usize = kani::any();
    kani::assume(len <= 3);
    if let Ok(s) = std::str::from_utf8(&bytes[..len]) {
        let v = if kani::any() { Value::normal_string(s) } else { Value::safe_string(s) };
        assert!(v.is_truthy() == (len != 0));
        std::mem::forget(v);
    }
    // arrays / bytes / maps: empty is falsy, one element is truthy (whatever the element)
    let v = Value::from(Vec::<Value>::new());
    assert!(!v.is_truthy());
    std::mem::forget(v);
    let v = Value::from(vec![Value::from(kani::any::<bool>())]);
    assert!(v.is_truthy());
    std::mem::forget(v);
    let v = Value::bytes(Vec::<u8>::new());
    assert!(!v.is_truthy());
    std::mem::forget(v);
    let v = Value::bytes(vec![kani::any::<u8>()]);
    assert!(v.is_truthy());
    std::mem::forget(v);
    let v = Value::from(ValueInner::Map(Arc::new(Map::new())));
    assert!(!v.is_truthy());
    std::mem::forget(v);
}

// ---------------------------------------------------------------------------------------------
// `in`: "Only literals/variables resulting in an array, a string and a map are supported on the
// right hand side: everything else will raise an error."

// killed by: in `contains`, `_ => Ok(false)` instead of the error
#[kani::proof]
#[kani::unwind(4)]
#[kani::stub(std::fmt::format, no_format)]
fn contains_rejects_scalar_receivers() {
    // one call per receiver kind, each built by its concrete constructor: with a symbolic
    // discriminant symex wanders into the (infeasible) array/map arms -- PartialEq recursion and
    // HashMap hashing -- and does not finish
    let needle = any_scalar();
    macro_rules! rejected {
        ($recv:expr) => {{
            let recv: Value = $recv;
            let res = recv.contains(&needle);
            assert!(res.is_err());
            std::mem::forget(res);
            std::mem::forget(recv);
        }};
    }
    rejected!(Value::undefined());
    rejected!(Value::none());
    rejected!(Value::from(kani::any::<bool>()));
    rejected!(Value::from(kani::any::<u64>()));
    rejected!(Value::from(kani::any::<i64>()));
    rejected!(Value::from(kani::any::<u128>()));
    rejected!(Value::from(kani::any::<i128>()));
    rejected!(Value::from(kani::any::<f64>()));
    std::mem::forget(needle);
}

// ---------------------------------------------------------------------------------------------
// arithmetic: an operand that is undefined / none / a bool is an error, whatever the other
// operand and whichever side it is on (no coercion of true to 1, of none to 0, ...).

macro_rules! rejects_non_numbers {
    ($name:ident, $f:path) => {
        #[kani::proof]
        #[kani::unwind(4)]
        #[kani::stub(std::fmt::format, no_format)]
        fn $name() {
            let bad = any_non_number();
            let other = any_scalar();
            let res = if kani::any() { $f(&bad, &other) } else { $f(&other, &bad) };
            assert!(res.is_err());
            std::mem::forget(res);
            std::mem::forget(bad);
            std::mem::forget(other);
        }
    };
}
// killed by (each): `(None, _) => Ok(Value::from(0))` / `(_, None) => Ok(lhs.clone())` in the fn;
// all of them by `ValueInner::Bool(b) => Some(Number::Integer(*b as i128))` in Value::as_number
rejects_non_numbers!(add_rejects_non_numbers, add);
rejects_non_numbers!(sub_rejects_non_numbers, sub);
rejects_non_numbers!(mul_rejects_non_numbers, mul);
rejects_non_numbers!(div_rejects_non_numbers, div);
rejects_non_numbers!(floor_div_rejects_non_numbers, floor_div);
rejects_non_numbers!(rem_rejects_non_numbers, rem);
rejects_non_numbers!(pow_rejects_non_numbers, pow);

// killed by: Value::as_number mapping Bool to Integer
#[kani::proof]
#[kani::unwind(4)]
#[kani::stub(std::fmt::format, no_format)]
fn negate_rejects_non_numbers() {
    let bad = any_non_number();
    let res = negate(&bad);
    assert!(res.is_err());
    std::mem::forget(res);
    std::mem::forget(bad);
}
