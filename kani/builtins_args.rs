// Harnesses for C17 (argument conversions): `int_from_value::<T>` behind
// `<T as ArgFromValue>::from_value` for the 12 integer target types.  Child module of `args`.
//
// Specification (property C17: "conversions ... agree with exact arithmetic or fail"):
//   from_value(v) == Ok(x)  iff  v is a number whose mathematical value is an integer inside
//   T's range, and then x is that integer; every other value (out of range, non-integral float,
//   NaN/inf, bool, none, undefined) is an error.
use super::*;
use std::cmp::Ordering;

/// `Error::out_of_range_arg(value, ty)` renders `value` with fmt (does not finish under CBMC):
/// replaced by an error without text.  Only Ok/Err is checked.
fn cheap_out_of_range<A: ToString, B: ToString>(_value: A, _target: B) -> Error {
    Error::new(crate::errors::ErrorKind::Msg(String::new()))
}

/// Exact order of a non-NaN f64 `x` against the integer (-1)^neg * mag, from the IEEE bit pattern
/// with integer shifts only (same oracle as kani/numcmp.rs; NaN => Greater, never Equal).
fn exact_f64_int(x: f64, neg: bool, mag: u128) -> Ordering {
    let bits = x.to_bits();
    let s = (bits >> 63) != 0;
    let exp = ((bits >> 52) & 0x7ff) as i32;
    let man = bits & ((1u64 << 52) - 1);
    if exp == 0x7ff {
        if man != 0 {
            return Ordering::Greater; // NaN
        }
        return if s { Ordering::Less } else { Ordering::Greater };
    }
    let (m, e): (u64, i32) = if exp == 0 { (man, -1074) } else { (man | (1u64 << 52), exp - 1075) };
    let int_neg = neg && mag != 0;
    if m == 0 {
        return if mag == 0 { Ordering::Equal } else if int_neg { Ordering::Greater } else { Ordering::Less };
    }
    if s && !int_neg {
        return Ordering::Less;
    }
    if !s && int_neg {
        return Ordering::Greater;
    }
    let mag_ord = if e >= 0 {
        if e > 75 {
            Ordering::Greater
        } else {
            ((m as u128) << (e as u32)).cmp(&mag)
        }
    } else {
        let sh = (-e) as u32;
        if sh >= 64 {
            if mag == 0 { Ordering::Greater } else { Ordering::Less }
        } else {
            let ip = (m >> sh) as u128;
            let frac = (m & ((1u64 << sh) - 1)) != 0;
            match ip.cmp(&mag) {
                Ordering::Equal if frac => Ordering::Greater,
                o => o,
            }
        }
    };
    if s { mag_ord.reverse() } else { mag_ord }
}

/// An integer type seen as a set of mathematical integers: sign + magnitude, no casts between
/// integer types of different signedness.
trait Int: Copy {
    /// (is strictly negative, magnitude)
    fn sm(self) -> (bool, u128);
    /// does the mathematical integer (-1)^neg * mag belong to the type?
    fn holds(neg: bool, mag: u128) -> bool;
}
macro_rules! int_signed {
    ($($t:ty),*) => {$(
        impl Int for $t {
            fn sm(self) -> (bool, u128) { (self < 0, self.unsigned_abs() as u128) }
            fn holds(neg: bool, mag: u128) -> bool {
                if neg && mag != 0 { mag <= <$t>::MIN.unsigned_abs() as u128 } else { mag <= <$t>::MAX as u128 }
            }
        }
    )*};
}
macro_rules! int_unsigned {
    ($($t:ty),*) => {$(
        impl Int for $t {
            fn sm(self) -> (bool, u128) { (false, self as u128) }
            fn holds(neg: bool, mag: u128) -> bool {
                if neg && mag != 0 { false } else { mag <= <$t>::MAX as u128 }
            }
        }
    )*};
}
int_signed!(i8, i16, i32, i64, i128, isize);
int_unsigned!(u8, u16, u32, u64, u128, usize);

/// integer source of encoding S (u64 / i64 / u128 / i128, full domain) into target T
fn check_int_source<T, S>(s: S)
where
    T: Int + for<'k> ArgFromValue<'k, Output = T>,
    S: Int + Into<Value>,
{
    let (neg, mag) = s.sm();
    let v: Value = s.into();
    let r = <T as ArgFromValue>::from_value(&v);
    assert!(r.is_ok() == T::holds(neg, mag));
    if let Ok(x) = &r {
        assert!(x.sm() == (neg, mag));
    }
    std::mem::forget(r);
    std::mem::forget(v);
}

/// f64 source into target T.  `big_float_gap`: for T = u128 the floats in [2^127, 2^128) are
/// integers inside T's range but the code rejects them (it goes through i128): KEPT OUT of the
/// harness and reported (input 1.7014118346046923e38 = 2^127, expected Ok(2^127), actual Err).
fn check_f64_source<T>(f: f64, big_float_gap: bool)
where
    T: Int + kani::Arbitrary + for<'k> ArgFromValue<'k, Output = T>,
{
    let v = Value::from(f);
    let r = <T as ArgFromValue>::from_value(&v);
    match &r {
        Ok(x) => {
            // the result is exactly the float (so the float was integral and in range)
            let (neg, mag) = x.sm();
            assert!(exact_f64_int(f, neg, mag) == Ordering::Equal);
        }
        Err(_) => {
            // no member of T equals the float
            let y: T = kani::any();
            let (neg, mag) = y.sm();
            if !(big_float_gap && mag >= (1u128 << 127)) {
                assert!(exact_f64_int(f, neg, mag) != Ordering::Equal);
            }
        }
    }
    std::mem::forget(r);
}

fn check_non_numbers<T>()
where
    T: for<'k> ArgFromValue<'k, Output = T>,
{
    let r = <T as ArgFromValue>::from_value(&Value::from(kani::any::<bool>()));
    assert!(r.is_err());
    std::mem::forget(r);
    let r = <T as ArgFromValue>::from_value(&Value::none());
    assert!(r.is_err());
    std::mem::forget(r);
    let r = <T as ArgFromValue>::from_value(&Value::undefined());
    assert!(r.is_err());
    std::mem::forget(r);
}

macro_rules! target {
    ($ints:ident, $floats:ident, $t:ty, $gap:expr) => {
        // killed by: int_from_value `ValueInner::I64(v) => Some(*v as T)`-style wrap (here:
        // `ValueInner::U64(v) => T::try_from(*v as i64).ok()`), and `_ => return Ok(default)`
        #[kani::proof]
        #[kani::unwind(12)]
        #[kani::stub(crate::errors::Error::out_of_range_arg, cheap_out_of_range)]
        fn $ints() {
            check_int_source::<$t, u64>(kani::any());
            check_int_source::<$t, i64>(kani::any());
            check_int_source::<$t, u128>(kani::any());
            check_int_source::<$t, i128>(kani::any());
            check_non_numbers::<$t>();
        }

        // killed by: `ValueInner::F64(v) if v.trunc() == *v` -> `ValueInner::F64(v)` (truncates
        // 1.5 to 1); upper bound `*v <= i128::MAX as f64` (2^127 saturates)
        #[kani::proof]
        #[kani::unwind(12)]
        #[kani::stub(crate::errors::Error::out_of_range_arg, cheap_out_of_range)]
        fn $floats() {
            check_f64_source::<$t>(kani::any(), $gap);
        }
    };
}
target!(u8_from_ints, u8_from_f64, u8, false);
target!(u16_from_ints, u16_from_f64, u16, false);
target!(u32_from_ints, u32_from_f64, u32, false);
target!(u64_from_ints, u64_from_f64, u64, false);
target!(u128_from_ints, u128_from_f64, u128, true);
target!(usize_from_ints, usize_from_f64, usize, false);
target!(i8_from_ints, i8_from_f64, i8, false);
target!(i16_from_ints, i16_from_f64, i16, false);
target!(i32_from_ints, i32_from_f64, i32, false);
target!(i64_from_ints, i64_from_f64, i64, false);
target!(i128_from_ints, i128_from_f64, i128, false);
target!(isize_from_ints, isize_from_f64, isize, false);
