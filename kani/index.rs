// Harnesses for C14: index resolution (`x[i]`), character-wise string measures.
// Child module of `value`, so private items (`resolve_index`, `ValueInner`, `SmartString`) are visible.
use super::*;

/// The rule of the property text, on sign/magnitude (no signed arithmetic, no `+ len`):
/// i >= 0: element i when i < len; i < 0: element len - |i| when |i| <= len; otherwise nothing.
fn want_index(neg: bool, mag: u128, len: usize) -> Option<usize> {
    if !neg {
        if mag < len as u128 { Some(mag as usize) } else { None }
    } else if mag <= len as u128 {
        Some(len - mag as usize)
    } else {
        None
    }
}

fn check_index(v: Value, neg: bool, mag: u128) {
    let len: usize = kani::any();
    // type invariant of slice/Vec lengths
    kani::assume(len <= isize::MAX as usize);
    let r = resolve_index(&v, len, "Array");
    match &r {
        Ok(got) => {
            assert!(*got == want_index(neg, mag, len));
            if let Some(i) = got {
                assert!(*i < len);
            }
        }
        Err(_) => {
            assert!(false);
        }
    }
    std::mem::forget(r);
    std::mem::forget(v);
}

// resolve_i64/u64/i128/u128 killed by: resolve_index `(0..len as i128)` -> `(0..=len as i128)`
#[kani::proof]
#[kani::unwind(2)]
fn resolve_i64() {
    let i: i64 = kani::any();
    check_index(Value::from(i), i < 0, i.unsigned_abs() as u128);
}

#[kani::proof]
#[kani::unwind(2)]
fn resolve_u64() {
    let i: u64 = kani::any();
    check_index(Value::from(i), false, i as u128);
}

#[kani::proof]
#[kani::unwind(2)]
fn resolve_i128() {
    let i: i128 = kani::any();
    check_index(Value::from(i), i < 0, i.unsigned_abs());
}

#[kani::proof]
#[kani::unwind(2)]
fn resolve_u128() {
    let i: u128 = kani::any();
    check_index(Value::from(i), false, i);
}

// killed by: resolve_index `else if item.is_u128()` -> `else if item.is_u128() || item.is_bool()`
#[kani::proof]
#[kani::unwind(5)]
fn resolve_non_integer_is_err() {
    let len: usize = kani::any();
    kani::assume(len <= isize::MAX as usize);
    let which: u8 = kani::any();
    let v = match which {
        0 => Value::from(kani::any::<bool>()),
        1 => Value::from(kani::any::<f64>()),
        2 => Value::none(),
        _ => Value::undefined(),
    };
    let r = resolve_index(&v, len, "Array");
    assert!(r.is_err());
    std::mem::forget(r);
    std::mem::forget(v);
}

// ---------------------------------------------------------------------------------------------
// bounded: get_item on arrays of <= 2 u64 elements, any i128 index

// killed by: resolve_index `(0..len as i128)` -> `(0..=len as i128)` (arr[len] out of bounds)
#[kani::proof]
#[kani::unwind(4)]
fn get_item_array_le2() {
    let n: usize = kani::any();
    kani::assume(n <= 2);
    let e0: u64 = kani::any();
    let e1: u64 = kani::any();
    let mut items: Vec<Value> = Vec::with_capacity(2);
    if n >= 1 {
        items.push(Value::from(e0));
    }
    if n >= 2 {
        items.push(Value::from(e1));
    }
    let arr = Value { inner: ValueInner::Array(Arc::new(items)) };
    let i: i128 = kani::any();
    let r = arr.get_item(Value::from(i));
    // the rule of the property text, spelled out for n <= 2
    let want: Option<u64> = match (n, i) {
        (1, 0) | (1, -1) => Some(e0),
        (2, 0) | (2, -2) => Some(e0),
        (2, 1) | (2, -1) => Some(e1),
        _ => None,
    };
    match &r {
        Ok(v) => match (&v.inner, want) {
            (ValueInner::U64(got), Some(w)) => assert!(*got == w),
            (ValueInner::Undefined, None) => {}
            _ => {
                assert!(false);
            }
        },
        Err(_) => {
            assert!(false);
        }
    }
    std::mem::forget(r);
    std::mem::forget(arr);
}

// ---------------------------------------------------------------------------------------------
// bounded: strings of <= 3 bytes of valid UTF-8

/// Exact validity of a UTF-8 byte string of length n <= 3 (Unicode table 3-7, rows up to 3 bytes).
fn valid_utf8_le3(b: [u8; 3], n: usize) -> bool {
    let cont = |x: u8| x & 0xC0 == 0x80;
    let one = |x: u8| x < 0x80;
    let two = |x: u8, y: u8| x >= 0xC2 && x <= 0xDF && cont(y);
    let three = |x: u8, y: u8, z: u8| {
        cont(z)
            && ((x == 0xE0 && y >= 0xA0 && y <= 0xBF)
                || (x >= 0xE1 && x <= 0xEC && cont(y))
                || (x == 0xED && y >= 0x80 && y <= 0x9F)
                || (x >= 0xEE && x <= 0xEF && cont(y)))
    };
    match n {
        0 => true,
        1 => one(b[0]),
        2 => (one(b[0]) && one(b[1])) || two(b[0], b[1]),
        3 => {
            (one(b[0]) && one(b[1]) && one(b[2]))
                || (one(b[0]) && two(b[1], b[2]))
                || (two(b[0], b[1]) && one(b[2]))
                || three(b[0], b[1], b[2])
        }
        _ => false,
    }
}

/// number of characters = number of non-continuation bytes
fn nchars_le3(b: [u8; 3], n: usize) -> usize {
    let lead = |x: u8| (x & 0xC0 != 0x80) as usize;
    (if n > 0 { lead(b[0]) } else { 0 }) + (if n > 1 { lead(b[1]) } else { 0 }) + (if n > 2 { lead(b[2]) } else { 0 })
}

fn any_str_le3() -> ([u8; 3], usize) {
    let b: [u8; 3] = kani::any();
    let n: usize = kani::any();
    kani::assume(n <= 3);
    kani::assume(valid_utf8_le3(b, n));
    (b, n)
}

/// The inline representation built field by field, so that the variant tags stay *constants* for
/// CBMC (going through `SmartString::new` merges the Small/Large arms on the symbolic length, the
/// niche-encoded tag of `ValueInner` becomes symbolic and every arm of every `match &self.inner`
/// is explored).  `smartstring_new_le3` proves that `SmartString::new` builds exactly this.
fn mk_string(b: &[u8; 3], n: usize, safe: bool) -> Value {
    let mut data = [0u8; 21];
    if n > 0 {
        data[0] = b[0];
    }
    if n > 1 {
        data[1] = b[1];
    }
    if n > 2 {
        data[2] = b[2];
    }
    let kind = if safe { StringKind::Safe } else { StringKind::Normal };
    Value { inner: ValueInner::String(SmartString::Small { len: n as u8, kind, data }) }
}

// killed by: SmartString::new `len: s.len() as u8` -> `len: (s.len() as u8) & 1`
#[kani::proof]
#[kani::unwind(23)]
fn smartstring_new_le3() {
    let (b, n) = any_str_le3();
    let safe: bool = kani::any();
    // SAFETY: valid_utf8_le3 was assumed
    let s = unsafe { std::str::from_utf8_unchecked(&b[..n]) };
    let got = if safe { Value::safe_string(s) } else { Value::normal_string(s) };
    let want = mk_string(&b, n, safe);
    match (&got.inner, &want.inner) {
        (
            ValueInner::String(SmartString::Small { len, kind, data }),
            ValueInner::String(SmartString::Small { len: l2, kind: k2, data: d2 }),
        ) => {
            assert!(len == l2 && kind == k2);
            let i: usize = kani::any();
            kani::assume(i < 21);
            assert!(data[i] == d2[i]);
        }
        _ => {
            assert!(false);
        }
    }
    std::mem::forget(got);
    std::mem::forget(want);
}

fn str_bytes_eq(v: &Value, want: &[u8]) -> bool {
    match &v.inner {
        ValueInner::String(SmartString::Small { len, data, .. }) => {
            let l = *len as usize;
            l == want.len()
                && (l < 1 || data[0] == want[0])
                && (l < 2 || data[1] == want[1])
                && (l < 3 || data[2] == want[2])
        }
        _ => false,
    }
}

/// `core::str::count::do_count_chars` is the word-at-a-time path of `chars().count()` taken only
/// for strings of >= 32 bytes: replacing it by a panic *asserts* that it is unreachable for the
/// bounded inputs (sound: reaching it fails the harness) and spares CBMC its symbolic execution.
fn never_do_count_chars(_s: &str) -> usize {
    panic!("do_count_chars reached on a short string")
}

// killed by: Value::len string arm `chars().count()` -> `len()` (bytes)
#[kani::proof]
#[kani::unwind(5)]
#[kani::stub(core::str::count::do_count_chars, never_do_count_chars)]
fn string_len_le3() {
    let (b, n) = any_str_le3();
    let v = mk_string(&b, n, kani::any());
    assert!(v.len() == Some(nchars_le3(b, n)));
    std::mem::forget(v);
}
