// Harnesses for C19, deserializer half.  Child module of `value::de`.
//
// The three deserializer entry points (`ValueDeserializer::from_value(v)`, `Value` by value and
// `&Value` by reference) are decided against serde's visitor protocol with a recording visitor:
// a value of each scalar kind must reach the `visit_*` method of its kind with the same payload.
// serde's own `Deserialize` impls (which do not finish in Kani) are then the only thing between
// this and the round trip: e.g. `u64::deserialize` calls `deserialize_u64`, which all three entry
// points forward to `deserialize_any`, and serde's primitive visitor accepts `visit_u64(x)` as x.
use super::*;
use crate::value::{SmartString, StringKind};
use serde::de::{DeserializeSeed, EnumAccess, SeqAccess, VariantAccess};
use std::fmt;
use std::sync::Arc;

#[derive(Clone, Copy, PartialEq)]
enum Seen {
    Bool(bool),
    I64(i64),
    U64(u64),
    I128(i128),
    U128(u128),
    /// bit pattern, so that NaN payloads and the sign of zero count
    F64(u64),
    /// length and first two bytes (zero padded)
    Str(usize, u8, u8),
    Unit,
    NoneSeen,
    Other,
}

fn str_seen(s: &[u8]) -> Seen {
    Seen::Str(s.len(), if s.len() > 0 { s[0] } else { 0 }, if s.len() > 1 { s[1] } else { 0 })
}

/// records which visit method was called and with what
struct Rec;
impl<'de> Visitor<'de> for Rec {
    type Value = Seen;
    fn expecting(&self, _f: &mut fmt::Formatter) -> fmt::Result {
        Ok(())
    }
    fn visit_bool<E>(self, v: bool) -> Result<Seen, E> {
        Ok(Seen::Bool(v))
    }
    fn visit_i64<E>(self, v: i64) -> Result<Seen, E> {
        Ok(Seen::I64(v))
    }
    fn visit_u64<E>(self, v: u64) -> Result<Seen, E> {
        Ok(Seen::U64(v))
    }
    fn visit_i128<E>(self, v: i128) -> Result<Seen, E> {
        Ok(Seen::I128(v))
    }
    fn visit_u128<E>(self, v: u128) -> Result<Seen, E> {
        Ok(Seen::U128(v))
    }
    fn visit_f64<E>(self, v: f64) -> Result<Seen, E> {
        Ok(Seen::F64(v.to_bits()))
    }
    fn visit_str<E>(self, v: &str) -> Result<Seen, E> {
        Ok(str_seen(v.as_bytes()))
    }
    fn visit_bytes<E>(self, _v: &[u8]) -> Result<Seen, E> {
        Ok(Seen::Other)
    }
    fn visit_unit<E>(self) -> Result<Seen, E> {
        Ok(Seen::Unit)
    }
    fn visit_none<E>(self) -> Result<Seen, E> {
        Ok(Seen::NoneSeen)
    }
    fn visit_some<D: Deserializer<'de>>(self, _d: D) -> Result<Seen, D::Error> {
        Ok(Seen::Other)
    }
    fn visit_newtype_struct<D: Deserializer<'de>>(self, _d: D) -> Result<Seen, D::Error> {
        Ok(Seen::Other)
    }
    fn visit_seq<A: SeqAccess<'de>>(self, _a: A) -> Result<Seen, A::Error> {
        Ok(Seen::Other)
    }
    fn visit_map<A: de::MapAccess<'de>>(self, _a: A) -> Result<Seen, A::Error> {
        Ok(Seen::Other)
    }
    fn visit_enum<A: EnumAccess<'de>>(self, _a: A) -> Result<Seen, A::Error> {
        Ok(Seen::Other)
    }
}

#[derive(Clone, Copy, PartialEq)]
enum OptSeen {
    /// visit_unit or visit_none: what serde's Option visitor turns into `None`
    Absent,
    /// visit_some(d), and what `d.deserialize_any` then showed
    Present(Seen),
    /// any other visit method was called directly (serde's Option visitor rejects those)
    Direct,
}

/// behaves like the visitor of `Option<T>`: accepts visit_none / visit_unit / visit_some only
struct OptRec;
impl<'de> Visitor<'de> for OptRec {
    type Value = OptSeen;
    fn expecting(&self, _f: &mut fmt::Formatter) -> fmt::Result {
        Ok(())
    }
    fn visit_unit<E>(self) -> Result<OptSeen, E> {
        Ok(OptSeen::Absent)
    }
    fn visit_none<E>(self) -> Result<OptSeen, E> {
        Ok(OptSeen::Absent)
    }
    fn visit_some<D: Deserializer<'de>>(self, d: D) -> Result<OptSeen, D::Error> {
        d.deserialize_any(Rec).map(OptSeen::Present)
    }
    fn visit_bool<E>(self, _v: bool) -> Result<OptSeen, E> {
        Ok(OptSeen::Direct)
    }
    fn visit_i64<E>(self, _v: i64) -> Result<OptSeen, E> {
        Ok(OptSeen::Direct)
    }
    fn visit_u64<E>(self, _v: u64) -> Result<OptSeen, E> {
        Ok(OptSeen::Direct)
    }
    fn visit_i128<E>(self, _v: i128) -> Result<OptSeen, E> {
        Ok(OptSeen::Direct)
    }
    fn visit_u128<E>(self, _v: u128) -> Result<OptSeen, E> {
        Ok(OptSeen::Direct)
    }
    fn visit_f64<E>(self, _v: f64) -> Result<OptSeen, E> {
        Ok(OptSeen::Direct)
    }
    fn visit_str<E>(self, _v: &str) -> Result<OptSeen, E> {
        Ok(OptSeen::Direct)
    }
    fn visit_bytes<E>(self, _v: &[u8]) -> Result<OptSeen, E> {
        Ok(OptSeen::Direct)
    }
    fn visit_seq<A: SeqAccess<'de>>(self, _a: A) -> Result<OptSeen, A::Error> {
        Ok(OptSeen::Direct)
    }
    fn visit_map<A: de::MapAccess<'de>>(self, _a: A) -> Result<OptSeen, A::Error> {
        Ok(OptSeen::Direct)
    }
}

#[derive(Clone, Copy, PartialEq)]
enum EnumSeen {
    /// visit_enum: what the variant identifier showed, and whether `unit_variant()` was Ok
    Variant(Seen, bool),
    /// any other visit method was called directly (a derived enum visitor rejects those)
    Direct,
}

struct TagSeed;
impl<'de> DeserializeSeed<'de> for TagSeed {
    type Value = Seen;
    fn deserialize<D: Deserializer<'de>>(self, d: D) -> Result<Seen, D::Error> {
        // what a derived enum's field visitor calls
        d.deserialize_identifier(Rec)
    }
}

/// behaves like the visitor of a derived enum: accepts visit_enum only
struct EnumRec;
impl<'de> Visitor<'de> for EnumRec {
    type Value = EnumSeen;
    fn expecting(&self, _f: &mut fmt::Formatter) -> fmt::Result {
        Ok(())
    }
    fn visit_enum<A: EnumAccess<'de>>(self, a: A) -> Result<EnumSeen, A::Error> {
        let (tag, variant) = a.variant_seed(TagSeed)?;
        let unit = variant.unit_variant();
        let ok = unit.is_ok();
        std::mem::forget(unit);
        Ok(EnumSeen::Variant(tag, ok))
    }
    fn visit_bool<E>(self, _v: bool) -> Result<EnumSeen, E> {
        Ok(EnumSeen::Direct)
    }
    fn visit_i64<E>(self, _v: i64) -> Result<EnumSeen, E> {
        Ok(EnumSeen::Direct)
    }
    fn visit_u64<E>(self, _v: u64) -> Result<EnumSeen, E> {
        Ok(EnumSeen::Direct)
    }
    fn visit_i128<E>(self, _v: i128) -> Result<EnumSeen, E> {
        Ok(EnumSeen::Direct)
    }
    fn visit_u128<E>(self, _v: u128) -> Result<EnumSeen, E> {
        Ok(EnumSeen::Direct)
    }
    fn visit_f64<E>(self, _v: f64) -> Result<EnumSeen, E> {
        Ok(EnumSeen::Direct)
    }
    fn visit_str<E>(self, _v: &str) -> Result<EnumSeen, E> {
        Ok(EnumSeen::Direct)
    }
    fn visit_unit<E>(self) -> Result<EnumSeen, E> {
        Ok(EnumSeen::Direct)
    }
}

struct ElemSeed;
impl<'de> DeserializeSeed<'de> for ElemSeed {
    type Value = Seen;
    fn deserialize<D: Deserializer<'de>>(self, d: D) -> Result<Seen, D::Error> {
        d.deserialize_any(Rec)
    }
}

/// reads up to three elements: (first, second, third) as Option<Seen> each
struct SeqRec;
impl<'de> Visitor<'de> for SeqRec {
    type Value = (Option<Seen>, Option<Seen>, Option<Seen>);
    fn expecting(&self, _f: &mut fmt::Formatter) -> fmt::Result {
        Ok(())
    }
    fn visit_seq<A: SeqAccess<'de>>(self, mut a: A) -> Result<Self::Value, A::Error> {
        let x = a.next_element_seed(ElemSeed)?;
        let y = a.next_element_seed(ElemSeed)?;
        let z = a.next_element_seed(ElemSeed)?;
        std::mem::forget(a);
        Ok((x, y, z))
    }
}

/// A value of the scalar kind number `k` (k is a literal at every call site, so that the kind is
/// concrete during symbolic execution; the payload is fully symbolic), what deserialize_any must
/// show for it, and whether it is none-like.
fn scalar_of(k: u8) -> (Value, Seen, bool) {
    let (inner, seen, nonelike) = match k {
        0 => {
            let x: u64 = kani::any();
            (ValueInner::U64(x), Seen::U64(x), false)
        }
        1 => {
            let x: i64 = kani::any();
            (ValueInner::I64(x), Seen::I64(x), false)
        }
        2 => {
            let x: u128 = kani::any();
            (ValueInner::U128(Box::new(x)), Seen::U128(x), false)
        }
        3 => {
            let x: i128 = kani::any();
            (ValueInner::I128(Box::new(x)), Seen::I128(x), false)
        }
        4 => {
            let x: f64 = kani::any();
            (ValueInner::F64(x), Seen::F64(x.to_bits()), false)
        }
        5 => {
            let x: bool = kani::any();
            (ValueInner::Bool(x), Seen::Bool(x), false)
        }
        6 => (ValueInner::None, Seen::Unit, true),
        _ => (ValueInner::Undefined, Seen::Unit, true),
    };
    (Value { inner }, seen, nonelike)
}

/// Any string value of <= 2 bytes of valid UTF-8 (normal or safe).  Built directly in its inline
/// representation (group `smartstring` decides that `SmartString::new` produces exactly this), with
/// the valid 0..=2-byte UTF-8 strings spelled out: "", one ASCII byte, two ASCII bytes, or one
/// two-byte character (lead 0xC2..=0xDF, continuation 0x80..=0xBF).  No loop in the harness.
fn any_short_string() -> (Value, Seen) {
    let b0: u8 = kani::any();
    let b1: u8 = kani::any();
    let n: u8 = kani::any();
    kani::assume(n <= 2);
    let two_byte_char = n == 2 && b0 >= 0xC2 && b0 <= 0xDF && b1 >= 0x80 && b1 <= 0xBF;
    let ascii = (n < 1 || b0 < 0x80) && (n < 2 || b1 < 0x80);
    kani::assume(ascii || two_byte_char);
    let mut data = [0u8; 21];
    data[0] = if n > 0 { b0 } else { 0 };
    data[1] = if n > 1 { b1 } else { 0 };
    let kind = if kani::any() { StringKind::Safe } else { StringKind::Normal };
    let v = Value { inner: ValueInner::String(SmartString::Small { len: n, kind, data }) };
    (v, Seen::Str(n as usize, data[0], data[1]))
}

// the three entry points, same signatures
mod vd {
    use super::*;
    pub fn any<'de, V: Visitor<'de>>(v: Value, vis: V) -> Result<V::Value, DeserializationFailed> {
        ValueDeserializer::from_value(v).deserialize_any(vis)
    }
    pub fn opt<'de, V: Visitor<'de>>(v: Value, vis: V) -> Result<V::Value, DeserializationFailed> {
        ValueDeserializer::from_value(v).deserialize_option(vis)
    }
    pub fn en<'de, V: Visitor<'de>>(v: Value, vis: V) -> Result<V::Value, DeserializationFailed> {
        ValueDeserializer::from_value(v).deserialize_enum("E", &["Ab", "Cd"], vis)
    }
    pub fn u64_<'de, V: Visitor<'de>>(v: Value, vis: V) -> Result<V::Value, DeserializationFailed> {
        ValueDeserializer::from_value(v).deserialize_u64(vis)
    }
}
mod byval {
    use super::*;
    pub fn any<'de, V: Visitor<'de>>(v: Value, vis: V) -> Result<V::Value, DeserializationFailed> {
        <Value as Deserializer<'de>>::deserialize_any(v, vis)
    }
    pub fn opt<'de, V: Visitor<'de>>(v: Value, vis: V) -> Result<V::Value, DeserializationFailed> {
        <Value as Deserializer<'de>>::deserialize_option(v, vis)
    }
    pub fn en<'de, V: Visitor<'de>>(v: Value, vis: V) -> Result<V::Value, DeserializationFailed> {
        <Value as Deserializer<'de>>::deserialize_enum(v, "E", &["Ab", "Cd"], vis)
    }
    pub fn u64_<'de, V: Visitor<'de>>(v: Value, vis: V) -> Result<V::Value, DeserializationFailed> {
        <Value as Deserializer<'de>>::deserialize_u64(v, vis)
    }
}
mod byref {
    use super::*;
    pub fn any<'de, V: Visitor<'de>>(v: Value, vis: V) -> Result<V::Value, DeserializationFailed> {
        let r = <&Value as Deserializer<'de>>::deserialize_any(&v, vis);
        std::mem::forget(v);
        r
    }
    pub fn opt<'de, V: Visitor<'de>>(v: Value, vis: V) -> Result<V::Value, DeserializationFailed> {
        let r = <&Value as Deserializer<'de>>::deserialize_option(&v, vis);
        std::mem::forget(v);
        r
    }
    pub fn en<'de, V: Visitor<'de>>(v: Value, vis: V) -> Result<V::Value, DeserializationFailed> {
        let r = <&Value as Deserializer<'de>>::deserialize_enum(&v, "E", &["Ab", "Cd"], vis);
        std::mem::forget(v);
        r
    }
    pub fn u64_<'de, V: Visitor<'de>>(v: Value, vis: V) -> Result<V::Value, DeserializationFailed> {
        let r = <&Value as Deserializer<'de>>::deserialize_u64(&v, vis);
        std::mem::forget(v);
        r
    }
}

fn expect_ok<T: PartialEq>(r: Result<T, DeserializationFailed>, want: T) {
    match r {
        Ok(got) => {
            assert!(got == want);
        }
        Err(e) => {
            std::mem::forget(e);
            panic!("deserializer returned Err");
        }
    }
}

/// runs `$body` once per non-string scalar kind, the kind being a literal each time
macro_rules! each_kind {
    (|$k:ident| $body:block) => {{
        { let $k: u8 = 0; $body }
        { let $k: u8 = 1; $body }
        { let $k: u8 = 2; $body }
        { let $k: u8 = 3; $body }
        { let $k: u8 = 4; $body }
        { let $k: u8 = 5; $body }
        { let $k: u8 = 6; $body }
        { let $k: u8 = 7; $body }
    }};
}

macro_rules! entry_harnesses {
    ($m:ident, $any:ident, $hint:ident, $opt:ident, $any_s:ident, $opt_s:ident) => {
        #[kani::proof]
        #[kani::unwind(2)]
        fn $any() {
            each_kind!(|k| {
                let (v, want, _) = scalar_of(k);
                expect_ok($m::any(v, Rec), want);
            });
        }

        // a typed hint (deserialize_u64 stands for the family forwarded to deserialize_any) shows
        // the value as it is: the visitor decides whether it fits
        #[kani::proof]
        #[kani::unwind(2)]
        fn $hint() {
            each_kind!(|k| {
                let (v, want, _) = scalar_of(k);
                expect_ok($m::u64_(v, Rec), want);
            });
        }

        #[kani::proof]
        #[kani::unwind(2)]
        fn $opt() {
            each_kind!(|k| {
                let (v, want, nonelike) = scalar_of(k);
                let want = if nonelike { OptSeen::Absent } else { OptSeen::Present(want) };
                expect_ok($m::opt(v, OptRec), want);
            });
        }

        #[kani::proof]
        #[kani::unwind(2)]
        fn $any_s() {
            let (v, want) = any_short_string();
            expect_ok($m::any(v, Rec), want);
        }

        #[kani::proof]
        #[kani::unwind(2)]
        fn $opt_s() {
            let (v, want) = any_short_string();
            expect_ok($m::opt(v, OptRec), OptSeen::Present(want));
        }
    };
}

// killed by: ValueDeserializer::deserialize_any `F64(v) => visitor.visit_i64(v as i64)` and `I64(v) => visitor.visit_u64(v as u64)`
//            (any_*, hint_*, option_* of all three entry points); `String(v) => visitor.visit_str(&v.as_str()[..0])` (any_str_*, option_str_*)
entry_harnesses!(vd, any_vd, hint_vd, option_vd, any_str_vd, option_str_vd);
entry_harnesses!(byval, any_val, hint_val, option_val, any_str_val, option_str_val);
// additionally killed by: reverting 0c4b9b9 (`option enum` back in forward_to_deserialize_any! of `&Value`, the two
//            methods deleted): option_ref and option_str_ref fail, every other harness still passes
entry_harnesses!(byref, any_ref, hint_ref, option_ref, any_str_ref, option_str_ref);

// NOT KEPT (did not finish): deserialize_enum on a string value and deserialize_any on a 2-element
// array.  A string `Value` has a niche-encoded discriminant that CBMC does not constant-fold, so
// every drop of a `Value` on those paths explores the HashMap drop glue (> 25 min).
//
// NOT KEPT (the real code disagrees with C19, reported): a newtype struct.  `W(5)` serializes to
// U64(5) (serialize_newtype_struct is transparent) but `deserialize_newtype_struct` is forwarded to
// deserialize_any on all three entry points, which calls visit_u64 instead of
// visit_newtype_struct: `W::deserialize(value)` is Err("invalid type: integer `5`, expected tuple struct W").
