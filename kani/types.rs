// Harnesses for C05: declared / inferred component-argument types.  Child module of
// `parsing::ast`.
//
// Documented types (docs/content/_index.md, "Defining a component"): string, bool, integer,
// float, number (matches both integer and float), array, map; "an optional type that can be
// inferred if there is a default value".  `bytes` is accepted by `Type::from_str` and named in
// its error message but is not in the user documentation: taken as "matches bytes values only".
use super::*;

fn fixed_state() -> std::hash::RandomState {
    unsafe { std::mem::transmute::<[u64; 2], std::hash::RandomState>([1, 2]) }
}

/// What a value *is*, decided by the harness when it builds the value (not read back from it).
#[derive(Clone, Copy, PartialEq)]
enum Cls {
    Undefined,
    None,
    Bool,
    Integer,
    Float,
    String,
    Array,
    Map,
    Bytes,
}

/// The documented match table, independent of the code.
fn doc_matches(t: Type, c: Cls) -> bool {
    match t {
        Type::String => c == Cls::String,
        Type::Bool => c == Cls::Bool,
        Type::Integer => c == Cls::Integer,
        Type::Float => c == Cls::Float,
        // "number (matches both integer and float)"
        Type::Number => c == Cls::Integer || c == Cls::Float,
        Type::Array => c == Cls::Array,
        Type::Map => c == Cls::Map,
        Type::Bytes => c == Cls::Bytes,
    }
}

/// The type a default value of that class stands for; none/undefined carry no type.
fn doc_inferred(c: Cls) -> Option<Type> {
    match c {
        Cls::Undefined | Cls::None => None,
        Cls::Bool => Some(Type::Bool),
        Cls::Integer => Some(Type::Integer),
        Cls::Float => Some(Type::Float),
        Cls::String => Some(Type::String),
        Cls::Array => Some(Type::Array),
        Cls::Map => Some(Type::Map),
        Cls::Bytes => Some(Type::Bytes),
    }
}

/// every scalar kind, every integer encoding, full-domain payloads
fn any_scalar() -> (Value, Cls) {
    let k: u8 = kani::any();
    match k {
        0 => (Value::undefined(), Cls::Undefined),
        1 => (Value::none(), Cls::None),
        2 => (Value::from(kani::any::<bool>()), Cls::Bool),
        3 => (Value::from(kani::any::<u64>()), Cls::Integer),
        4 => (Value::from(kani::any::<i64>()), Cls::Integer),
        5 => (Value::from(kani::any::<u128>()), Cls::Integer),
        6 => (Value::from(kani::any::<i128>()), Cls::Integer),
        // an integral float (1.0) is still a float, not an integer
        _ => (Value::from(kani::any::<f64>()), Cls::Float),
    }
}

/// strings <= 3 bytes (both kinds), arrays of length 0/1, empty bytes / 1 byte, the empty map
fn any_small_container() -> (Value, Cls) {
    let k: u8 = kani::any();
    match k {
        0 => {
            let bytes: [u8; 3] = kani::any();
            let len: usize = kani::any();
            kani::assume(len <= 3);
            let s = std::str::from_utf8(&bytes[..len]);
            kani::assume(s.is_ok());
            let s = s.unwrap();
            (if kani::any() { Value::normal_string(s) } else { Value::safe_string(s) }, Cls::String)
        }
        1 => (Value::from(Vec::<Value>::new()), Cls::Array),
        2 => (Value::from(vec![Value::from(kani::any::<i64>())]), Cls::Array),
        3 => (Value::bytes(Vec::<u8>::new()), Cls::Bytes),
        4 => (Value::bytes(vec![kani::any::<u8>()]), Cls::Bytes),
        _ => (Value::from(ValueInner::Map(std::sync::Arc::new(crate::value::Map::new()))), Cls::Map),
    }
}

fn check(v: &Value, c: Cls) {
    let t: Type = kani::any();
    // declared type
    assert!(t.matches_value(v) == doc_matches(t, c));
    let declared = ComponentArgument { default: None, typ: Some(t) };
    assert!(declared.type_matches(v) == doc_matches(t, c));
    // no declared type, no default (or a none/undefined default): anything is accepted
    let untyped = ComponentArgument { default: None, typ: None };
    assert!(untyped.type_matches(v));
    // inference from a default value `v`
    let inferred = Type::from_value(v);
    assert!(inferred == doc_inferred(c));
    // ... and the inferred type accepts its own default and exactly the values of that class
    let arg = ComponentArgument { default: None, typ: inferred };
    assert!(arg.type_matches(v));
    std::mem::forget(declared);
    std::mem::forget(untyped);
    std::mem::forget(arg);
}

// killed by: Type::Integer without ValueKind::U128; `Type::Number => value.is_f64()`;
// from_value `ValueKind::F64 => Some(Type::Integer)`; from_value `ValueKind::None => Some(Type::String)`;
// type_matches `.unwrap_or(false)`
#[kani::proof]
#[kani::unwind(2)]
fn type_table_scalars() {
    let (v, c) = any_scalar();
    check(&v, c);
    std::mem::forget(v);
}

// killed by: `Type::Array => value.is_array() || value.is_bytes()`; `Type::String => value.is_string() || value.is_none()` (scalars);
// from_value `ValueKind::Bytes => Some(Type::Array)`
#[kani::proof]
#[kani::unwind(6)]
#[kani::stub(std::hash::RandomState::new, fixed_state)]
fn type_table_containers() {
    let (v, c) = any_small_container();
    check(&v, c);
    std::mem::forget(v);
}

// A value of one class is accepted by the type inferred from a default of another class only
// as the documented table says (e.g. default `1` => integer: rejects 1.5, "1", true, none).
// killed by: from_value `ValueKind::I64 | ... => Some(Type::Number)`
#[kani::proof]
#[kani::unwind(2)]
fn inferred_type_rejects_other_kinds() {
    let (d, dc) = any_scalar();
    let (v, vc) = any_scalar();
    let arg = ComponentArgument { default: None, typ: Type::from_value(&d) };
    let want = match doc_inferred(dc) {
        None => true,
        Some(t) => doc_matches(t, vc),
    };
    assert!(arg.type_matches(&v) == want);
    // spelled out: same class <=> accepted, when the default carries a type
    if dc != Cls::Undefined && dc != Cls::None {
        assert!(arg.type_matches(&v) == (dc == vc));
    }
    std::mem::forget(arg);
    std::mem::forget(d);
    std::mem::forget(v);
}
