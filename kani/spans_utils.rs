// Harnesses for C12: `Span::expand`.  Child module of `utils`.
//
// `expand` has no doc comment; its use in the parser is `span.expand(&self.current_span)` where
// `span` is the span of the first token of a construct and `current_span` the span of the last
// token consumed: the construct's span runs from the start of `self` to the END OF `other`.
// It is NOT a union: the end is taken from `other` unconditionally.  It covers both spans
// exactly when `other` does not end before `self` and does not start before it -- true in the
// parser because tokens are consumed left to right; stated below as an explicit hypothesis.
use super::*;

fn any_span() -> Span {
    Span {
        start_line: kani::any(),
        start_col: kani::any(),
        end_line: kani::any(),
        end_col: kani::any(),
        range: kani::any::<usize>()..kani::any::<usize>(),
    }
}

// killed by: `self.end_col = other.start_col`; `self.range = other.range.start..other.range.end`;
// dropping the `self.end_line = other.end_line` line
#[kani::proof]
fn expand_keeps_start_takes_end() {
    let mut s = any_span();
    let o = any_span();
    let old = s.clone();
    let o_before = o.clone();
    s.expand(&o);
    // start of self kept
    assert!(s.start_line == old.start_line);
    assert!(s.start_col == old.start_col);
    assert!(s.range.start == old.range.start);
    // end taken from other
    assert!(s.end_line == o.end_line);
    assert!(s.end_col == o.end_col);
    assert!(s.range.end == o.range.end);
    // other untouched
    assert!(o == o_before);
    // idempotent
    let once = s.clone();
    s.expand(&o);
    assert!(s == once);
}

// killed by: `self.range = other.range.start..other.range.end` (loses the start of self);
// `self.range = self.range.start..self.range.end` (does not grow)
#[kani::proof]
fn expand_covers_both_when_other_is_later() {
    let mut s = any_span();
    let o = any_span();
    let old = s.clone();
    // hypothesis: both well-formed byte ranges, `other` starts and ends no earlier than `self`
    kani::assume(old.range.start <= old.range.end);
    kani::assume(o.range.start <= o.range.end);
    kani::assume(old.range.start <= o.range.start);
    kani::assume(old.range.end <= o.range.end);
    s.expand(&o);
    // well-formed, contains every byte offset of both, and nothing beyond their hull
    assert!(s.range.start <= s.range.end);
    let x: usize = kani::any();
    if old.range.contains(&x) || o.range.contains(&x) {
        assert!(s.range.contains(&x));
    }
    assert!(s.range.start == old.range.start && s.range.end == o.range.end);
    // stays within any source that contained both
    let src_len: usize = kani::any();
    if old.range.end <= src_len && o.range.end <= src_len {
        assert!(s.range.end <= src_len);
    }
}
