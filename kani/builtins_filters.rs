// Harnesses for C17: numeric arms of the `abs`, `int`, `float`, `round` filters and the
// `default` filter.  Child module of `filters` (src/filters.rs): the real filter functions are
// called with the three arguments the VM gives them (value, Kwargs, &State).
//
// Property C17: "conversions (int, float, round, abs, str) agree with exact arithmetic or fail;
// default replaces only undefined (or falsy when asked)".
use super::*;
use crate::Context;
use crate::value::ValueInner;
use std::cmp::Ordering;

/// `format!` -> empty String: only Ok/Err is checked on error paths, never the message text.
fn no_format(_args: std::fmt::Arguments<'_>) -> String {
    String::new()
}

fn fixed_state() -> std::hash::RandomState {
    unsafe { std::mem::transmute::<[u64; 2], std::hash::RandomState>([1, 2]) }
}

/// Association-list model of `Kwargs::get` (the real one is an `Arc<HashMap>` lookup): a non-empty
/// HashMap dropped inside the callee, plus the SipHash loops, need an unwinding bound under which
/// the (infeasible) recursive drop glue of `Value` does not finish.  The conversion of the stored
/// Value to the requested type is the real `ArgFromValue::from_value`.
static mut KW0: Option<(&'static str, &'static Value)> = None;
static mut KW1: Option<(&'static str, &'static Value)> = None;

/// loop-free; enough to tell apart the keys the harness stored from any other key
fn key_is(a: &str, b: &str) -> bool {
    let (a, b) = (a.as_bytes(), b.as_bytes());
    a.len() == b.len() && a.len() > 1 && a[0] == b[0] && a[1] == b[1] && a[a.len() - 1] == b[b.len() - 1]
}

fn kwargs_get_model<'k, T>(_kw: &'k Kwargs, key: &'k str) -> TeraResult<Option<T>>
where
    T: ArgFromValue<'k, Output = T>,
{
    let (s0, s1) = unsafe { (KW0, KW1) };
    if let Some((k, v)) = s0 {
        if key_is(k, key) {
            return T::from_value(v).map(|x| Some(x));
        }
    }
    if let Some((k, v)) = s1 {
        if key_is(k, key) {
            return T::from_value(v).map(|x| Some(x));
        }
    }
    Ok(None)
}

fn set_kwargs(a: (&'static str, Value), b: Option<(&'static str, Value)>) {
    let va: &'static Value = Box::leak(Box::new(a.1));
    unsafe {
        KW0 = Some((a.0, va));
    }
    if let Some((k, v)) = b {
        let vb: &'static Value = Box::leak(Box::new(v));
        unsafe {
            KW1 = Some((k, vb));
        }
    }
}

/// Exact order of a non-NaN f64 `x` against the integer (-1)^neg * mag, from the IEEE bit pattern
/// with integer shifts only (same oracle as kani/numcmp.rs; NaN => Greater, never Equal).
fn exact_f64_int(x: f64, neg: bool, mag: u128) -> Ordering {
    let bits = x.to_bits();
    let s = (bits >> 63) != 0;
    let exp = ((bits >> 52) & 0x7ff) as i32;
    let man = bits & ((1u64 << 52) - 1);
    if exp == 0x7ff {
        if man != 0 {
            return Ordering::Greater; // NaN
        }
        return if s { Ordering::Less } else { Ordering::Greater };
    }
    let (m, e): (u64, i32) = if exp == 0 { (man, -1074) } else { (man | (1u64 << 52), exp - 1075) };
    let int_neg = neg && mag != 0;
    if m == 0 {
        return if mag == 0 { Ordering::Equal } else if int_neg { Ordering::Greater } else { Ordering::Less };
    }
    if s && !int_neg {
        return Ordering::Less;
    }
    if !s && int_neg {
        return Ordering::Greater;
    }
    let mag_ord = if e >= 0 {
        if e > 75 {
            Ordering::Greater
        } else {
            ((m as u128) << (e as u32)).cmp(&mag)
        }
    } else {
        let sh = (-e) as u32;
        if sh >= 64 {
            if mag == 0 { Ordering::Greater } else { Ordering::Less }
        } else {
            let ip = (m >> sh) as u128;
            let frac = (m & ((1u64 << sh) - 1)) != 0;
            match ip.cmp(&mag) {
                Ordering::Equal if frac => Ordering::Greater,
                o => o,
            }
        }
    };
    if s { mag_ord.reverse() } else { mag_ord }
}

/// sign and magnitude of an integer Value, read from the representation (no conversion helper
/// of the code under test)
fn int_sm(v: &Value) -> Option<(bool, u128)> {
    match &v.inner {
        ValueInner::U64(x) => Some((false, *x as u128)),
        ValueInner::I64(x) => Some((*x < 0, x.unsigned_abs() as u128)),
        ValueInner::U128(x) => Some((false, **x)),
        ValueInner::I128(x) => Some((**x < 0, x.unsigned_abs())),
        _ => None,
    }
}

fn f64_bits(v: &Value) -> Option<u64> {
    match &v.inner {
        ValueInner::F64(x) => Some(x.to_bits()),
        _ => None,
    }
}

/// same kind and same payload (floats bit-for-bit); scalars only
fn same_scalar(a: &Value, b: &Value) -> bool {
    match (&a.inner, &b.inner) {
        (ValueInner::Undefined, ValueInner::Undefined) => true,
        (ValueInner::None, ValueInner::None) => true,
        (ValueInner::Bool(x), ValueInner::Bool(y)) => x == y,
        (ValueInner::U64(x), ValueInner::U64(y)) => x == y,
        (ValueInner::I64(x), ValueInner::I64(y)) => x == y,
        (ValueInner::U128(x), ValueInner::U128(y)) => **x == **y,
        (ValueInner::I128(x), ValueInner::I128(y)) => **x == **y,
        (ValueInner::F64(x), ValueInner::F64(y)) => x.to_bits() == y.to_bits(),
        _ => false,
    }
}

macro_rules! env {
    ($ctx:ident, $st:ident, $kw:ident) => {
        let $ctx = Context::new();
        let $st = State::new(&$ctx);
        let $kw = Kwargs::default();
    };
}

// ---------------------------------------------------------------------------------------------
// abs: exact, or Err only at i128::MIN

// killed by: I64 arm `None => Ok(v.into())` (i64::MIN stays negative); I128 arm
// `None => Ok(i128::MAX.into())`; `ValueKind::U64 | ValueKind::U128 => Ok(Value::from(0))`
#[kani::proof]
#[kani::unwind(2)]
#[kani::stub(std::hash::RandomState::new, fixed_state)]
fn abs_integers() {
    env!(ctx, st, kw);
    let x: u64 = kani::any();
    let r = abs(Value::from(x), kw.clone(), &st);
    assert!(matches!(&r, Ok(v) if int_sm(v) == Some((false, x as u128))));
    std::mem::forget(r);
    let x: i64 = kani::any();
    let r = abs(Value::from(x), kw.clone(), &st);
    assert!(matches!(&r, Ok(v) if int_sm(v) == Some((false, x.unsigned_abs() as u128))));
    std::mem::forget(r);
    let x: u128 = kani::any();
    let r = abs(Value::from(x), kw.clone(), &st);
    assert!(matches!(&r, Ok(v) if int_sm(v) == Some((false, x))));
    std::mem::forget(r);
    let x: i128 = kani::any();
    let r = abs(Value::from(x), kw.clone(), &st);
    if x == i128::MIN {
        assert!(r.is_err());
    } else {
        assert!(matches!(&r, Ok(v) if int_sm(v) == Some((false, x.unsigned_abs()))));
    }
    std::mem::forget(r);
    std::mem::forget((kw, st));
    std::mem::forget(ctx);
}

// killed by: F64 arm `Ok(v.into())` (sign kept); F64 arm `Ok((-v).into())`
#[kani::proof]
#[kani::unwind(2)]
#[kani::stub(std::hash::RandomState::new, fixed_state)]
fn abs_float() {
    env!(ctx, st, kw);
    let f: f64 = kani::any();
    let r = abs(Value::from(f), kw.clone(), &st);
    // sign bit cleared, everything else untouched (so |-0.0| = 0.0, |-inf| = inf, NaN payload kept)
    assert!(matches!(&r, Ok(v) if f64_bits(v) == Some(f.to_bits() & !(1u64 << 63))));
    std::mem::forget(r);
    std::mem::forget((kw, st));
    std::mem::forget(ctx);
}

// killed by: abs `_ => Ok(val)`
#[kani::proof]
#[kani::unwind(2)]
#[kani::stub(std::hash::RandomState::new, fixed_state)]
#[kani::stub(std::fmt::format, no_format)]
fn abs_rejects_non_numbers() {
    env!(ctx, st, kw);
    // true is not 1, none is not 0
    let b: bool = kani::any();
    let r = abs(Value::from(b), kw.clone(), &st);
    assert!(r.is_err());
    std::mem::forget(r);
    let r = abs(Value::none(), kw.clone(), &st);
    assert!(r.is_err());
    std::mem::forget(r);
    let r = abs(Value::undefined(), kw.clone(), &st);
    assert!(r.is_err());
    std::mem::forget(r);
    std::mem::forget((kw, st));
    std::mem::forget(ctx);
}

// ---------------------------------------------------------------------------------------------
// int (default base)

// killed by: U64 arm `as u32 as u64`-style truncation (here: `let v = val.as_i128().unwrap() as i64 as u64`
// is a no-op, so: I64 arm `let v = val.as_i128().unwrap().abs()`)
#[kani::proof]
#[kani::unwind(2)]
#[kani::stub(std::hash::RandomState::new, fixed_state)]
#[kani::stub(crate::args::Kwargs::get, kwargs_get_model)]
fn int_of_integers_is_identity() {
    env!(ctx, st, kw);
    let x: u64 = kani::any();
    let r = int(Value::from(x), kw.clone(), &st);
    assert!(matches!(&r, Ok(v) if int_sm(v) == Some((false, x as u128))));
    std::mem::forget(r);
    let x: i64 = kani::any();
    let r = int(Value::from(x), kw.clone(), &st);
    assert!(matches!(&r, Ok(v) if int_sm(v) == Some((x < 0, x.unsigned_abs() as u128))));
    std::mem::forget(r);
    let x: u128 = kani::any();
    let r = int(Value::from(x), kw.clone(), &st);
    assert!(matches!(&r, Ok(v) if int_sm(v) == Some((false, x))));
    std::mem::forget(r);
    let x: i128 = kani::any();
    let r = int(Value::from(x), kw.clone(), &st);
    assert!(matches!(&r, Ok(v) if int_sm(v) == Some((x < 0, x.unsigned_abs()))));
    std::mem::forget(r);
    std::mem::forget((kw, st));
    std::mem::forget(ctx);
}

// killed by: Number::as_integer without the `f.fract() == 0.0` test (1.5 | int == 1);
// upper bound `*f <= i128::MAX as f64` (2^127 saturates to i128::MAX)
#[kani::proof]
#[kani::unwind(2)]
#[kani::stub(std::hash::RandomState::new, fixed_state)]
#[kani::stub(std::fmt::format, no_format)]
#[kani::stub(crate::args::Kwargs::get, kwargs_get_model)]
fn int_of_float_is_exact_or_error() {
    env!(ctx, st, kw);
    let f: f64 = kani::any();
    let r = int(Value::from(f), kw.clone(), &st);
    match &r {
        Ok(v) => {
            // an integer value exactly equal to the float
            let sm = int_sm(v);
            assert!(sm.is_some());
            let (neg, mag) = sm.unwrap();
            assert!(exact_f64_int(f, neg, mag) == Ordering::Equal);
        }
        Err(_) => {
            // no i128 equals the float: non-integral, NaN, infinite, or outside [-2^127, 2^127)
            let y: i128 = kani::any();
            assert!(exact_f64_int(f, y < 0, y.unsigned_abs()) != Ordering::Equal);
        }
    }
    std::mem::forget(r);
    std::mem::forget((kw, st));
    std::mem::forget(ctx);
}

/* NOT KEPT (did not finish in 300 s on the pristine tree: the string arm of `float` (dec2flt) is explored for every call)
// ---------------------------------------------------------------------------------------------
// float.  KNOWN (already reported, kept out): integers of magnitude above 2^53 are silently
// rounded to the nearest float instead of failing.

// killed by: Number::as_float `Number::Integer(f) => (*f as i64) as f64`; float filter
// returning `Ok(num.as_float().abs())`
#[kani::proof]
#[kani::unwind(2)]
#[kani::stub(std::hash::RandomState::new, fixed_state)]
fn float_is_exact_up_to_2_53() {
    env!(ctx, st, kw);
    const LIM: u128 = 1u128 << 53;
    // floats: identity, bit for bit
    let f: f64 = kani::any();
    let r = float(Value::from(f), kw.clone(), &st);
    assert!(matches!(&r, Ok(g) if g.to_bits() == f.to_bits()));
    std::mem::forget(r);
    // integers of every encoding with |x| <= 2^53: the float equals the integer exactly
    let x: u64 = kani::any();
    if (x as u128) <= LIM {
        let r = float(Value::from(x), kw.clone(), &st);
        assert!(matches!(&r, Ok(g) if exact_f64_int(*g, false, x as u128) == Ordering::Equal));
        std::mem::forget(r);
    }
    let x: i64 = kani::any();
    if (x.unsigned_abs() as u128) <= LIM {
        let r = float(Value::from(x), kw.clone(), &st);
        assert!(matches!(&r, Ok(g) if exact_f64_int(*g, x < 0, x.unsigned_abs() as u128) == Ordering::Equal));
        std::mem::forget(r);
    }
    let x: u128 = kani::any();
    if x <= LIM {
        let r = float(Value::from(x), kw.clone(), &st);
        assert!(matches!(&r, Ok(g) if exact_f64_int(*g, false, x) == Ordering::Equal));
        std::mem::forget(r);
    }
    let x: i128 = kani::any();
    if x.unsigned_abs() <= LIM {
        let r = float(Value::from(x), kw.clone(), &st);
        assert!(matches!(&r, Ok(g) if exact_f64_int(*g, x < 0, x.unsigned_abs()) == Ordering::Equal));
        std::mem::forget(r);
    }
    std::mem::forget((kw, st));
    std::mem::forget(ctx);
}

*/

// ---------------------------------------------------------------------------------------------
// round (no `method`, `precision` = 0): "round to the nearest integer"

// killed by: `None => Ok(((multiplier * val).floor() / multiplier).into())`; `.trunc()`
#[kani::proof]
#[kani::unwind(2)]
#[kani::stub(std::hash::RandomState::new, fixed_state)]
#[kani::stub(crate::args::Kwargs::get, kwargs_get_model)]
#[kani::stub(std::fmt::format, no_format)]
fn round_default_is_nearest_integer() {
    env!(ctx, st, kw);
    let f: f64 = kani::any();
    let r = round(f, kw.clone(), &st);
    assert!(r.is_ok());
    let g = match &r {
        Ok(v) => f64::from_bits(f64_bits(v).unwrap()),
        Err(_) => unreachable!(),
    };
    if f.is_nan() {
        assert!(g.is_nan());
    } else if f.is_infinite() {
        assert!(g.to_bits() == f.to_bits());
    } else {
        // an integer ...
        let y = g.to_bits();
        let e = ((y >> 52) & 0x7ff) as i32;
        let man = y & ((1u64 << 52) - 1);
        let integral = (y << 1) == 0 // +-0
            || e >= 1075 // |g| >= 2^52
            || (e >= 1023 && (man & ((1u64 << (1075 - e)) - 1)) == 0);
        assert!(integral);
        // ... at distance at most 1/2 (the subtraction of two floats this close is exact)
        let d = g - f;
        assert!(-0.5 <= d && d <= 0.5);
        // ties go away from zero (std's f64::round; the docs only say "nearest")
        if d == 0.5 {
            assert!(f > 0.0);
        }
        if d == -0.5 {
            assert!(f < 0.0);
        }
        // sign kept (round(-0.3) is -0.0)
        assert!((g.to_bits() >> 63) == (f.to_bits() >> 63));
    }
    std::mem::forget(r);
    std::mem::forget((kw, st));
    std::mem::forget(ctx);
}

// ---------------------------------------------------------------------------------------------
// round with a `precision`: "agree with exact arithmetic or fail" - at the very least a finite receiver must not
// come back as NaN or an infinity.  `10f64.powi(p)` (libm, does not finish under CBMC) is replaced by ANY
// non-negative float, +inf and 0 included - what 10^p can be in f64 (an over-approximation: a failing input is
// replayed natively with a real precision before it counts).

fn powi_any_scale(_x: f64, _n: i32) -> f64 {
    let m: f64 = kani::any();
    kani::assume(m >= 0.0);
    m
}

// killed by: the pristine text before the fix (`5 | round(precision=400)` was NaN: the scale is +inf)
#[kani::proof]
#[kani::unwind(2)]
#[kani::stub(std::hash::RandomState::new, fixed_state)]
#[kani::stub(crate::args::Kwargs::get, kwargs_get_model)]
#[kani::stub(f64::powi, powi_any_scale)]
#[kani::stub(std::fmt::format, no_format)]
fn round_precision_finite_or_error() {
    env!(ctx, st, kw);
    let p: i32 = kani::any();
    kani::assume(p != 0);
    set_kwargs(("precision", Value::from(p as i64)), None);
    let f: f64 = kani::any();
    kani::assume(f.is_finite());
    let r = round(f, kw.clone(), &st);
    if let Ok(v) = &r {
        let g = f64::from_bits(f64_bits(v).unwrap());
        assert!(g.is_finite());
    }
    std::mem::forget(r);
    std::mem::forget((kw, st));
    std::mem::forget(ctx);
}

// ---------------------------------------------------------------------------------------------
// default

/// (value, is it undefined, is it truthy by the documented table); built one kind at a time so
/// the discriminant is concrete where the filter drops a Value
macro_rules! for_each_non_number {
    ($go:ident) => {
        $go!(Value::undefined(), true, false);
        $go!(Value::none(), false, false);
        let b: bool = kani::any();
        $go!(Value::from(b), false, b);
    };
}
macro_rules! for_each_number {
    ($go:ident) => {
        let x: u64 = kani::any();
        $go!(Value::from(x), false, x != 0);
        let x: i64 = kani::any();
        $go!(Value::from(x), false, x != 0);
        let x: f64 = kani::any();
        $go!(Value::from(x), false, (x.to_bits() << 1) != 0);
    };
}

macro_rules! default_harness {
    ($name:ident, $each:ident, $boolean:expr, $by_truthiness:literal) => {
        #[kani::proof]
        #[kani::unwind(2)]
        #[kani::stub(std::hash::RandomState::new, fixed_state)]
        #[kani::stub(crate::args::Kwargs::get, kwargs_get_model)]
        fn $name() {
            let ctx = Context::new();
            let st = State::new(&ctx);
            let m: u64 = kani::any();
            let marker = Value::from(m);
            let boolean: Option<bool> = $boolean;
            set_kwargs(("value", Value::from(m)), boolean.map(|b| ("boolean", Value::from(b))));
            let kw = Kwargs::default();
            macro_rules! go {
                ($v:expr, $undef:expr, $truthy:expr) => {{
                    let v: Value = $v;
                    let replaced: bool = if $by_truthiness { !$truthy } else { $undef };
                    let r = default(v.clone(), kw.clone(), &st);
                    assert!(matches!(&r, Ok(got) if same_scalar(got, if replaced { &marker } else { &v })));
                    std::mem::forget(r);
                    std::mem::forget(v);
                }};
            }
            $each!(go);
            std::mem::forget((kw, st));
            std::mem::forget(ctx);
        }
    };
}

// default(value=m): only undefined is replaced (none, false, 0, 0.0 are kept)
// killed by: `ValueKind::Undefined | ValueKind::None => Ok(default_val)`
default_harness!(default_replaces_only_undefined, for_each_non_number, None, false);
// killed by: `_ => Ok(default_val)` in the non-boolean arm
default_harness!(default_keeps_numbers, for_each_number, None, false);
// default(value=m, boolean=true): falsy values are replaced, truthy ones kept
// killed by: `if val.is_truthy() { Ok(default_val) } else { Ok(val) }`
default_harness!(default_boolean_replaces_falsy_non_numbers, for_each_non_number, Some(true), true);
default_harness!(default_boolean_replaces_falsy_numbers, for_each_number, Some(true), true);
// default(value=m, boolean=false) is default(value=m)
// killed by: `let boolean = kwargs.get::<bool>("boolean")?.is_some()`
default_harness!(default_boolean_false_is_plain, for_each_non_number, Some(false), false);

/* NOT KEPT (did not finish in 300 s: char::to_uppercase / str::to_lowercase table searches need an unwinding bound under which the drop glue of Kwargs/Value explodes)
// ---------------------------------------------------------------------------------------------
// capitalize on a string whose FIRST character is multi-byte: no panic (no byte-index slicing
// inside a character), result not empty.  (UTF-8 validity of the result is its type, String,
// as long as the function has no unsafe code: it has none.)
// killed by: `val[..1].to_uppercase() + &val[1..].to_lowercase()` (byte slicing)
#[kani::proof]
#[kani::unwind(14)]
#[kani::stub(std::hash::RandomState::new, fixed_state)]
fn capitalize_multibyte_first_char() {
    env!(ctx, st, kw);
    // 2-, 3- and 4-byte first characters, alone or followed by one ASCII byte (<= 4 bytes)
    let which: u8 = kani::any();
    let s: &str = match which {
        0 => "\u{e9}",
        1 => "\u{e9}A",
        2 => "\u{20ac}",
        3 => "\u{20ac}z",
        _ => "\u{1f600}",
    };
    let out = capitalize(s, kw, &st);
    assert!(!out.is_empty());
    assert!(out.len() >= s.len() - 1);
    std::mem::forget((out, st));
    std::mem::forget(ctx);
}
*/

