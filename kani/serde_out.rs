// Harnesses for C19 / C20, OUTGOING half: what `Value: Serialize` and `Key: Serialize` hand to a serde
// Serializer (serde_json for json_encode, a user's own serializer for a value serialized again).  Child module
// of `value::key`.  A recording Serializer notes which `serialize_*` method is called and with what; every
// scalar of every kind must reach the method of ITS kind with the same payload - a negative i64 key must not
// arrive as a u64, a u128 must not arrive as an i128.  Loop-free, full payload domains: a proof.
use super::*;
use crate::value::Value;
use serde::ser::{Impossible, Serialize, Serializer};
use std::fmt;

#[derive(Clone, Copy, PartialEq)]
enum Sent {
    Bool(bool),
    I64(i64),
    U64(u64),
    I128(i128),
    U128(u128),
    /// bit pattern
    F64(u64),
    Unit,
    Other,
}

#[derive(Debug)]
struct NoErr;
impl fmt::Display for NoErr {
    fn fmt(&self, _: &mut fmt::Formatter<'_>) -> fmt::Result { Ok(()) }
}
impl std::error::Error for NoErr {}
impl serde::ser::Error for NoErr {
    fn custom<T: fmt::Display>(_: T) -> Self { NoErr }
}

struct RecSer;
impl Serializer for RecSer {
    type Ok = Sent;
    type Error = NoErr;
    type SerializeSeq = Impossible<Sent, NoErr>;
    type SerializeTuple = Impossible<Sent, NoErr>;
    type SerializeTupleStruct = Impossible<Sent, NoErr>;
    type SerializeTupleVariant = Impossible<Sent, NoErr>;
    type SerializeMap = Impossible<Sent, NoErr>;
    type SerializeStruct = Impossible<Sent, NoErr>;
    type SerializeStructVariant = Impossible<Sent, NoErr>;
    fn serialize_bool(self, v: bool) -> Result<Sent, NoErr> { Ok(Sent::Bool(v)) }
    fn serialize_i8(self, _: i8) -> Result<Sent, NoErr> { Ok(Sent::Other) }
    fn serialize_i16(self, _: i16) -> Result<Sent, NoErr> { Ok(Sent::Other) }
    fn serialize_i32(self, _: i32) -> Result<Sent, NoErr> { Ok(Sent::Other) }
    fn serialize_i64(self, v: i64) -> Result<Sent, NoErr> { Ok(Sent::I64(v)) }
    fn serialize_i128(self, v: i128) -> Result<Sent, NoErr> { Ok(Sent::I128(v)) }
    fn serialize_u8(self, _: u8) -> Result<Sent, NoErr> { Ok(Sent::Other) }
    fn serialize_u16(self, _: u16) -> Result<Sent, NoErr> { Ok(Sent::Other) }
    fn serialize_u32(self, _: u32) -> Result<Sent, NoErr> { Ok(Sent::Other) }
    fn serialize_u64(self, v: u64) -> Result<Sent, NoErr> { Ok(Sent::U64(v)) }
    fn serialize_u128(self, v: u128) -> Result<Sent, NoErr> { Ok(Sent::U128(v)) }
    fn serialize_f32(self, _: f32) -> Result<Sent, NoErr> { Ok(Sent::Other) }
    fn serialize_f64(self, v: f64) -> Result<Sent, NoErr> { Ok(Sent::F64(v.to_bits())) }
    fn serialize_char(self, _: char) -> Result<Sent, NoErr> { Ok(Sent::Other) }
    fn serialize_str(self, _: &str) -> Result<Sent, NoErr> { Ok(Sent::Other) }
    fn serialize_bytes(self, _: &[u8]) -> Result<Sent, NoErr> { Ok(Sent::Other) }
    fn serialize_none(self) -> Result<Sent, NoErr> { Ok(Sent::Other) }
    fn serialize_some<T: ?Sized + Serialize>(self, _: &T) -> Result<Sent, NoErr> { Ok(Sent::Other) }
    fn serialize_unit(self) -> Result<Sent, NoErr> { Ok(Sent::Unit) }
    fn serialize_unit_struct(self, _: &'static str) -> Result<Sent, NoErr> { Ok(Sent::Other) }
    fn serialize_unit_variant(self, _: &'static str, _: u32, _: &'static str) -> Result<Sent, NoErr> { Ok(Sent::Other) }
    fn serialize_newtype_struct<T: ?Sized + Serialize>(self, _: &'static str, _: &T) -> Result<Sent, NoErr> { Ok(Sent::Other) }
    fn serialize_newtype_variant<T: ?Sized + Serialize>(self, _: &'static str, _: u32, _: &'static str, _: &T) -> Result<Sent, NoErr> { Ok(Sent::Other) }
    fn serialize_seq(self, _: Option<usize>) -> Result<Self::SerializeSeq, NoErr> { Err(NoErr) }
    fn serialize_tuple(self, _: usize) -> Result<Self::SerializeTuple, NoErr> { Err(NoErr) }
    fn serialize_tuple_struct(self, _: &'static str, _: usize) -> Result<Self::SerializeTupleStruct, NoErr> { Err(NoErr) }
    fn serialize_tuple_variant(self, _: &'static str, _: u32, _: &'static str, _: usize) -> Result<Self::SerializeTupleVariant, NoErr> { Err(NoErr) }
    fn serialize_map(self, _: Option<usize>) -> Result<Self::SerializeMap, NoErr> { Err(NoErr) }
    fn serialize_struct(self, _: &'static str, _: usize) -> Result<Self::SerializeStruct, NoErr> { Err(NoErr) }
    fn serialize_struct_variant(self, _: &'static str, _: u32, _: &'static str, _: usize) -> Result<Self::SerializeStructVariant, NoErr> { Err(NoErr) }
}

fn sent<T: Serialize>(v: &T) -> Sent {
    match v.serialize(RecSer) {
        Ok(s) => s,
        Err(_) => Sent::Other,
    }
}

#[kani::proof]
fn key_out_scalars() {
    let b: bool = kani::any();
    assert!(sent(&Key::Bool(b)) == Sent::Bool(b));
    let u: u64 = kani::any();
    assert!(sent(&Key::U64(u)) == Sent::U64(u));
    let i: i64 = kani::any();
    assert!(sent(&Key::I64(i)) == Sent::I64(i));
    let uu: u128 = kani::any();
    assert!(sent(&Key::U128(uu)) == Sent::U128(uu));
    let ii: i128 = kani::any();
    assert!(sent(&Key::I128(ii)) == Sent::I128(ii));
}

#[kani::proof]
#[kani::unwind(2)]
fn value_out_scalars() {
    let b: bool = kani::any();
    let v = Value::from(b);
    assert!(sent(&v) == Sent::Bool(b));
    std::mem::forget(v);
    let u: u64 = kani::any();
    let v = Value::from(u);
    assert!(sent(&v) == Sent::U64(u));
    std::mem::forget(v);
    let i: i64 = kani::any();
    let v = Value::from(i);
    assert!(sent(&v) == Sent::I64(i));
    std::mem::forget(v);
    let uu: u128 = kani::any();
    let v = Value::from(uu);
    assert!(sent(&v) == Sent::U128(uu));
    std::mem::forget(v);
    let ii: i128 = kani::any();
    let v = Value::from(ii);
    assert!(sent(&v) == Sent::I128(ii));
    std::mem::forget(v);
    let f: f64 = kani::any();
    let v = Value::from(f);
    assert!(sent(&v) == Sent::F64(f.to_bits()));
    std::mem::forget(v);
    let v = Value::none();
    assert!(sent(&v) == Sent::Unit);
    std::mem::forget(v);
}
